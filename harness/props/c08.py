"""C08 -- Stacked branches stay readable from their own repository plus fallbacks (tie H).

A case = a history (universe, as in C03: merges, a few ghosts, files / directory / symlink with
non-ASCII names), a split: the fallback repository holds the ancestry of some revisions, the 2a
branch stacked on it starts empty; then a sequence of operations on the stacked branch: commit of
the next revision of the history through a lightweight checkout, Repository.fetch (find_ghosts
False/True), Branch.pull, Branch.push from the source -- locally or through the in-process smart
server (bzr://).  For comparison some cases run the same operations on an unstacked repository.

The model (coq/Model/RepoFetch.v, shared with C03) predicts per operation the outcome (a commit
with a ghost parent into a stacked branch is refused with BzrError, nothing written) and exactly
which revision / inventory / text records the stacked repository holds itself.  The oracle checks
the property itself on the real repositories: the stacking invariant (own inventory, parent
inventories, texts that differ from the parents are held locally), every file of every local
revision can be read and every revision diffed against its parents using stacked repository +
fallback, testaments equal the source's, check() clean, refused calls change nothing.
"""
from props import _c03_common as C
import daglib

PROP = "C08"
COQ = {
    "property_file": "Properties/C08.v",
    "imports": "From BV Require Import Lib.Dag Model.RepoFetch.",
}
META = {
    "level": "proof",
    "title": "Stacked branches stay readable from their own repository plus fallbacks",
    "technique": ("Coq theorems (invariant preserved by every commit / fetch / push step, invariant implies readability) over "
                  "a hand model of VersionedFileCommitBuilder._ensure_fallback_inventories, "
                  "get_missing_parent_inventories, the 2a stream source's text selection and the fetch searches "
                  "+ correspondence on real stacked 2a branches"),
    "level_text": ("partial (P-core): for every history, every split between fallback and stacked repository and every "
                   "sequence of commit / fetch / pull / push steps the model keeps the stacking invariant, and the invariant "
                   "makes every revision of the stacked repository (in particular a pushed tip) reconstructible from it plus "
                   "the fallback.  The model is tied to the code by comparing, after every real operation, exactly which "
                   "revision, inventory and text records the real stacked repository holds; CHK pages, record bytes and the "
                   "smart protocol are exercised, not modelled; a fallback holding a ghost the source can fill is outside "
                   "the theorems' hypothesis (closed stack)."),
    "level_note": ("Trusted: Coq kernel, vm_compute, the hand model's correspondence (bounded sampling), the inventories read "
                   "back from the real source as the model's description of the history.  Only 2a can stack among the "
                   "formats considered (pack-0.92 does not support external lookups)."),
    "design_ref": "DESIGN.md §5 C08",
    "trusted_base": ["hand model coq/Model/RepoFetch.v of breezy/bzr/vf_repository.py, groupcompress_repo.py, fetch.py",
                     "coq/Lib/Dag.v as a model of the revision graph",
                     "correspondence harness harness/props/c08.py, _c03_common.py, harness/daglib.py"],
    "assumptions": ["a revision id determines the revision (parents, tree)",
                    "the per-revision inventories given to the model are the source's (read back; wf_univ evaluated in every case)",
                    "the fallback is an ordinary complete repository and the stack as a whole has no ghost the source can fill (hypothesis closedb)",
                    "a committed revision's parents that exist are visible in the stack (the harness only commits such revisions)",
                    "format 2a; local transport and the in-process smart server"],
    "rule": "a case with at least one accepted operation that adds a revision to a stacked repository is non-trivial",
}
SHARD = 60


def setup(scratch):
    C.setup(scratch)


def teardown():
    C.teardown()


U_A = {"g": [[], [0], [1], [0], [2, 3], [4, 49], [48, 5], [6]],
       "ch": [[], [1], [3, 5], [4, 6], [1, 7], [5], [], [1, 3, 4]], "late": []}
U_L = {"g": [[], [0], [1], [2], [3], [4], [5]], "ch": [[], [1], [3], [4], [1, 5], [6], [7]], "late": []}
U_M = {"g": [[], [0], [0], [1, 2], [2, 1], [3, 4], [5]], "ch": [[], [1], [3], [4], [6], [1, 5], [7]], "late": []}


# trunk r0..r3, feature r4 = [r1], r5 = merge of the trunk tip into the feature = [r4, r3], r6 = [r5]
U_F = {"g": [[], [0], [1], [2], [1], [4, 3], [5]], "ch": [[], [1], [3], [6], [4], [7], [1]], "late": []}


def _feature_universe(rng):
    """a trunk, a feature branch forked from it, the trunk merged into the feature (once or twice), more
    feature work: the shape whose incremental push puts a merge's LEFT parent into the stacked repository
    while its right-hand parent lives only in the fallback"""
    nt = rng.randint(2, 5)
    g = [[]] + [[i] for i in range(nt - 1)]                  # trunk 0..nt-1
    fork = rng.randrange(nt - 1)
    g.append([fork])
    tip = len(g) - 1
    feature = [tip]
    merged = fork
    for _ in range(rng.randint(1, 4)):
        if merged < nt - 1 and rng.random() < 0.6:
            merged = rng.randint(merged + 1, nt - 1)
            g.append([tip, merged])
        else:
            g.append([tip])
        tip = len(g) - 1
        feature.append(tip)
    ch = [sorted(rng.sample(C.KINDS, rng.choice([1, 1, 2]))) for _ in g]
    return {"g": g, "ch": ch, "late": []}, nt, feature


def _feature_case(rng):
    u, nt, feature = _feature_universe(rng)
    ops = []
    for r in feature:
        if rng.random() < 0.75 or r == feature[-1]:
            entry = rng.choice(["push", "pull", "fetch", "fetch"])
            ops.append(["fetch", r, entry == "fetch" and rng.random() < 0.3, entry])
    sv, tv = rng.choice([("local", "local"), ("local", "local"), ("local", "smart"), ("smart", "local")])
    return _case(u, [nt - 1], ops, "2a", sv, tv)


def _case(u, fb, ops, sf="2a", sv="local", tv="local", stacked=True):
    return {"u": u, "src_fmt": sf, "tgt_fmt": "2a", "src_via": sv, "tgt_via": tv,
            "fb": list(fb) if stacked else None, "seed": [] if stacked else list(fb), "extra": [], "ops": ops}


def corpus():
    out = []
    n = len(U_L["g"])
    for k in range(n - 1):                     # every split point of a linear history
        out.append(_case(U_L, [k], [["commit", k + 1]] + ([["fetch", n - 1, False, "push"]] if k + 2 < n else [])))
        out.append(_case(U_L, [k], [["fetch", n - 1, False, "fetch"]], tv="smart" if k % 2 else "local"))
    out.append(_case(U_A, [2], [["fetch", 4, False, "push"], ["commit", 5], ["fetch", 7, True, "fetch"],
                                ["fetch", 7, False, "pull"]]))             # commit with a ghost parent: refused
    out.append(_case(U_A, [2], [["fetch", 4, False, "push"], ["commit", 5]], stacked=False))   # unstacked: accepted
    out.append(_case(U_M, [1], [["commit", 2], ["commit", 3], ["fetch", 4, False, "pull"], ["commit", 5], ["commit", 6]]))
    # incremental push of "merge trunk into feature": the merge's left parent is already in the stacked
    # repository, its right-hand parent only in the fallback
    out.append(_case(U_F, [3], [["fetch", 4, False, "push"], ["fetch", 5, False, "push"]]))
    out.append(_case(U_F, [3], [["fetch", 4, False, "fetch"], ["fetch", 6, False, "pull"]], tv="smart"))
    out.append(_case(U_F, [2], [["commit", 4], ["fetch", 3, False, "fetch"], ["fetch", 6, True, "fetch"]], sv="smart"))
    # pull over the smart server from a stacked source (its revisions live in ITS fallback): the parent inventories
    # the sink asks for cannot be supplied -> the write group must be refused, nothing written
    out.append(_case(U_L, [2], [["fetch", 3, False, "pull_ss"], ["fetch", 3, False, "pull"]], sv="smart"))
    out.append(_case(U_M, [1], [["fetch", 6, False, "pull_ss"]], sv="smart"))
    out.append(_case(U_F, [1], [["fetch", 5, False, "pull_ss"], ["fetch", 6, False, "push"]], sv="smart"))
    out.append(_case(U_L, [5], [["fetch", 3, False, "pull_ss"]], sv="smart"))            # nothing to copy
    # (not generated: a stacked target that already holds the LEFT parent -- see notes/C08.md, candidate finding
    #  C08-unsupplied-parent-inventory-accepted; nor a smart TARGET, where the refusal surfaces as AssertionError)
    # regression inputs of the former finding C08-stacked-merge-commit-heads (merge commits into a stacked branch)
    out.append(_case(U_M, [0], [["commit", 1], ["commit", 2], ["commit", 3], ["commit", 4], ["commit", 5]], tv="smart"))
    out.append(_case(U_M, [2], [["fetch", 1, False, "fetch"], ["commit", 3], ["commit", 4], ["commit", 5]]))
    out.append(_case(U_M, [2], [["fetch", 5, True, "fetch"], ["fetch", 6, False, "pull"]], sf="pack-0.92"))
    out.append(_case(U_M, [2], [["commit", 4], ["fetch", 0, False, "all"]], tv="smart"))
    return [c for c in out if _legal(c)]


def _simulate(case):
    """visible revisions before each operation (reference: ancestors, closed stacks only)"""
    g = case["u"]["g"]
    n = len(g)
    vis = set(C.anc_present(g, set(), (case.get("fb") or []) + case.get("seed", [])))
    out = []
    for op in case["ops"]:
        out.append(set(vis))
        if op[0] == "commit":
            if not (case.get("fb") and any(p >= n for p in g[op[1]])):
                vis.add(op[1])
        elif op[3] == "pull_ss":
            pass
        elif op[3] == "all":
            vis |= set(range(n))
        elif op[1] < n:
            vis |= C.anc_present(g, set(), [op[1]])
    return out


def _legal(case):
    g = case["u"]["g"]
    n = len(g)
    for op, vis in zip(case["ops"], _simulate(case)):
        if op[0] == "commit" and (op[1] in vis or not all(p >= n or p in vis for p in g[op[1]])):
            return False
    return True


def _random_case(rng, u):
    g = u["g"]
    n = len(g)
    stacked = rng.random() < 0.88
    fb = [rng.randrange(n - 1)]
    if rng.random() < 0.25:
        fb.append(rng.randrange(n - 1))
    sf = "2a" if rng.random() < 0.8 else "pack-0.92"
    sv, tv = rng.choice([("local", "local")] * 3 + [("smart", "local"), ("local", "smart"), ("local", "smart")])
    vis = set(C.anc_present(g, set(), fb))
    ops = []
    for _ in range(rng.randint(1, 5)):
        can = [c for c in range(n) if c not in vis and all(p >= n or p in vis for p in g[c])]
        if can and sf == "2a" and rng.random() < 0.5:      # (a 2a commit has a rich root: not the pack-0.92 source's revision)
            c = rng.choice(can)
            ops.append(["commit", c])
            if not (stacked and any(p >= n for p in g[c])):
                vis.add(c)
        else:
            r = rng.randrange(n) if rng.random() < 0.7 else n - 1
            entry = "fetch"
            fg = rng.random() < 0.35
            if (daglib.lefthand_present(g, r) and sv == "smart" and tv == "local" and sf == "2a" and stacked and not ops
                    and not any(p >= n for ps in g for p in ps) and sum(1 for ps in g if not ps) == 1
                    and rng.random() < 0.6):
                entry, fg = "pull_ss", False
            elif daglib.lefthand_present(g, r) and rng.random() < 0.55:
                entry, fg = rng.choice(["pull", "push"]), False
            elif rng.random() < 0.12:
                entry = "all"
            ops.append(["fetch", r, fg, entry])
            if entry == "pull_ss":
                break            # may be refused: nothing after it relies on its outcome
            vis |= set(range(n)) if entry == "all" else C.anc_present(g, set(), [r])
    return _case(u, fb, ops, sf, sv, tv, stacked)


def cases(rng, tier):
    nuniv, per, maxn = (6, 8, 9) if tier == "quick" else (36, 12, 14)
    for k in range(nuniv):
        u = C.gen_universe(rng, rng.randint(4, maxn), p_late=0.0, p_ghost=0.06 if k % 2 else 0.0, p_left_ghost=0.02)
        for _ in range(per):
            c = _random_case(rng, u)
            if _legal(c):
                yield c
    for _ in range(6 if tier == "quick" else 48):
        yield _feature_case(rng)


def impl(case):
    return C.run_case(case)


def impl_obs(case, obs):
    if not isinstance(obs, dict):          # driver error
        return obs
    return C.model_obs(case, obs)


def model_term(case):
    return C.model_term(case)


# ---- the property itself -----------------------------------------------------------------------------------

def _invariant_problems(case, state):
    """local_complete evaluated on the observed records of the stacked repository"""
    u = case["u"]
    g = u["g"]
    n = len(g)
    inv = C.inv_table(u, case["src_fmt"])
    revs, invs, texts = set(state[0]), set(state[1]), set(map(tuple, state[2]))
    bad = []
    for r in sorted(revs):
        if r >= n:
            continue
        if r not in invs:
            bad.append("r%d: own inventory not local" % r)
        for p in g[r]:
            if p < n and p not in invs:
                bad.append("r%d: parent inventory r%d not local" % (r, p))
        inherited = set()
        for p in g[r]:
            if p < n:
                inherited |= set(inv[p])
        for t in inv[r]:
            if t not in inherited and tuple(t) not in texts:
                bad.append("r%d: text %r differs from the parents but is not local" % (r, t))
    return bad


def oracle(case, obs):
    if not isinstance(obs, dict):          # driver error: reported by the framework
        return None
    m, orc = obs["model"], obs["oracle"]
    if not m["wf"]:
        return "universe not well formed"
    state = m["pre"]
    bad = []
    for k, (op, st, so) in enumerate(zip(case["ops"], m["steps"], orc["steps"])):
        out, copied, after = st
        if so["lost"]:
            bad.append("step %d: records lost %r" % (k, so["lost"]))
        if so["upload"]:
            bad.append("step %d: leftovers in upload/" % k)
        if out != "ok" and (after != state or so["names_changed"]):
            bad.append("step %d: refused call changed the repository" % k)
        if out == "ok" and op[0] == "commit" and op[1] not in after[0]:
            bad.append("step %d: committed revision absent" % k)
        inv_bad = _invariant_problems(case, after)
        if inv_bad:
            bad.append("step %d: invariant: %s" % (k, ", ".join(inv_bad[:3])))
        if so["unreadable"]:
            bad.append("step %d: unreadable %r" % (k, so["unreadable"][:4]))
        if so["testament_bad"]:
            bad.append("step %d: testament_bad %r" % (k, so["testament_bad"]))
        if so["text_bad"]:
            bad.append("step %d: text_bad %r" % (k, so["text_bad"][:3]))
        if so["sig_bad"]:
            bad.append("step %d: sig_bad %r" % (k, so["sig_bad"][:5]))
        if so["dup"]:
            bad.append("step %d: records stored twice %r" % (k, so["dup"]))
        if so["textparents_bad"]:
            bad.append("step %d: textparents_bad %r" % (k, so["textparents_bad"][:3]))
        if so["check"]:
            bad.append("step %d: check: %s" % (k, ", ".join(so["check"][:3])))
        state = after
    return "; ".join(bad) if bad else None


def finding_matches(fid, case, obs, why):
    # C08-stacked-merge-commit-heads is fixed (/repo 492ef0d): nothing is excused any more
    return False


def nontrivial(case, obs):
    if not isinstance(obs, dict):
        return False
    return bool(case.get("fb")) and any(s[0] == "ok" and s[1] > 0 for s in obs["model"]["steps"])


def distribution(inputs, observations):
    d = {}

    def inc(k):
        d[k] = d.get(k, 0) + 1
    for c, o in zip(inputs, observations):
        inc("stacked" if c.get("fb") else "unstacked")
        inc("src %s" % c["src_fmt"])
        inc("via %s->%s" % (c["src_via"], c["tgt_via"]))
        inc("ops %d" % len(c["ops"]))
        for k, op in enumerate(c["ops"]):
            if isinstance(o, dict) and k >= len(o["model"]["steps"]):
                continue
            nm = "commit" if op[0] == "commit" else "%s%s" % (op[3], " find_ghosts" if op[2] and op[3] != "all" else "")
            inc("op " + nm)
            if isinstance(o, dict):
                inc("%s -> %s" % ("commit" if op[0] == "commit" else "fetch", o["model"]["steps"][k][0]))
    return d
