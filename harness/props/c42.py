"""C42 -- Exports contain exactly the exported tree (tie H: hand model coq/Model/Export42.v).

Every case builds a real 2a revision tree (two commits) in a scratch working tree, exports it with the
real breezy.export.export / cmd_export, reads the archive members back (tarfile / zipfile / os.walk) for
the model tie, and extracts the archive into the scratch directory for the property oracle.
"""
import calendar
import io
import json
import os
import re
import shutil
import stat
import tarfile
import tempfile
import time
import unicodedata
import zipfile

from vlib import Tag, Err, coq_bytes, coq_bool, coq_Z, coq_option, coq_list

PROP = "C42"
COQ = {
    "property_file": "Properties/C42.v",
    "imports": "From BV Require Import Lib.Bytes Lib.Obs Model.Eol Model.Export42.",
}
META = {
    "level": "translation_validation",
    "title": "Exports contain exactly the exported tree",
    "technique": ("Coq refinement theorems (string-level model of _export_iter_entries / get_root_name / the tar, zip and "
                  "dir item builders against a component-level specification of the re-rooted sub-tree) + correspondence "
                  "run against real exports of generated revision trees + extraction oracle"),
    "level_text": ("The hand model of export.py / archive/*.py is proved (for every entry list, root, sub-directory) to emit "
                   "exactly the re-rooted sub-tree for tar and dir exports, to be injective on paths, to put every member under "
                   "the root, and get_root_name/guess_format are proved for every registered extension; --filters is proved to "
                   "change file contents only; the zip exporter is proved exact for trees without symlinks and proved to violate "
                   "the statement with them (symlink -> NAME.lnk regular file; refuted + guarded theorems). The model is tied to "
                   "the code by comparing the TarInfo/ZipInfo/file-system records of real exports with the model's, and the "
                   "property itself is evaluated by extracting every archive and comparing with the generated tree."),
    "level_note": ("Trusted: Coq kernel, vm_compute, the hand model's correspondence on the generated cases, Python "
                   "tarfile/zipfile/gzip/bz2/lzma and the file system (environment), bzrformats inventory iteration order."),
    "design_ref": "DESIGN.md §5 C42",
    "trusted_base": ["hand model coq/Model/Export42.v of breezy/export.py, breezy/archive/{__init__,tar,zip}.py",
                     "correspondence + extraction harness harness/props/c42.py",
                     "Python stdlib tarfile/zipfile/gzip/bz2/lzma as archive writers/readers"],
    "assumptions": ["POSIX (os.sep == '/', symlinks supported)",
                    "tree.iter_entries_by_dir yields every inventory path once, parents first, names without '/' (bzrformats)",
                    "tree.has_filename(path) is True for every inventory path of a RevisionTree",
                    "InventoryEntry.name == basename(path)",
                    "Python str operations used by the code commute with UTF-8 encoding (startswith/endswith/slicing by an ASCII "
                    "or '/'-terminated argument)",
                    "no tree-reference entries (2a does not support them); recurse_nested=False",
                    "the only content filter is `eol = crlf` on [name *.txt] (modelled by C45's Model/Eol.v)"],
    "rule": ("generated 2a revision trees (two commits, unusual names, symlinks, empty dirs, exec files, .bzr* names, RLE big "
             "files around 512/10240/32768/65536) x 7 formats x roots x subdirs x per-file-timestamps x filters x api/cmd; "
             "non-trivial = at least one entry exported or an error raised"),
}
SHARD = 120

T1, T2 = 1234567890, 1300000000
FORMATS = ["dir", "tar", "tgz", "tbz2", "txz", "tlzma", "zip"]
COQ_FMT = {"dir": "FDir", "tar": "FTar", "tgz": "FTgz", "tbz2": "FTbz2", "txz": "FTxz", "tlzma": "FTlzma", "zip": "FZip"}
EXT_TABLE = [(".tar", "tar"), (".tar.gz", "tgz"), (".tgz", "tgz"), (".tar.bz2", "tbz2"), (".tbz2", "tbz2"),
             (".tar.lzma", "tlzma"), (".tar.xz", "txz"), (".zip", "zip")]
# still-known finding -> oracle class.  (Repaired and therefore no longer excused: C42-zip-exec-bit-dropped 552504a,
# C42-filtered-symlink-crash / C42-filtered-timestamps-crash / C42-filtered-exports-special cf2f70e.)
FINDINGS = {
    "C42-zip-symlink-as-lnk": "zip-symlink",
}

_state = {"n": 0, "trees": {}, "order": []}
_side = {}


# ----------------------------------------------------------------------------------------------
# helpers shared by generator, driver, oracle
# ----------------------------------------------------------------------------------------------
def _expand(parts):
    return b"".join(bytes([b]) * n for b, n in parts)


def _digest(x):
    acc = 0
    for i, b in enumerate(x):
        acc = (acc + (i % 251 + 1) * b) % 1000003
    return [len(x), acc]


def _ocontent(c):
    return c if len(c) <= 64 else _digest(c)


def _key(inp):
    return json.dumps(inp, sort_keys=True, default=repr)


def _by_dir_order(paths):
    """iter_entries_by_dir order: all children of a directory sorted by name, then each sub-directory in turn
    (depth first).  `paths` is a set of '/'-joined paths; returns them ordered."""
    children = {}
    for p in paths:
        parent, _, name = p.rpartition("/")
        children.setdefault(parent, []).append(name)
    out = []
    from collections import deque
    stack = deque([""])
    while stack:
        d = stack.popleft()
        names = sorted(children.get(d, []))
        sub = []
        for n in names:
            full = (d + "/" + n) if d else n
            out.append(full)
            if full in children:
                sub.append(full)
        stack.extendleft(reversed(sub))
    return out


def _final_content(ent):
    return _expand(ent[2])


def _crlf(x):
    if b"\x00" in x:
        return x
    return re.sub(rb"(?<!\r)\n", b"\r\n", x)


def _filt(path, kind):
    return kind == "f" and path.rpartition("/")[2].endswith(".txt")


# ----------------------------------------------------------------------------------------------
# setup / trees
# ----------------------------------------------------------------------------------------------
def _ensure_setup():
    if _state.get("dir") and os.path.isdir(_state["dir"]):
        return
    d = os.environ.get("VERIF_SCRATCH")
    if not d or not os.path.isdir(d):
        import atexit
        d = tempfile.mkdtemp(prefix="verif-C42-lazy-")
        atexit.register(shutil.rmtree, d, ignore_errors=True)
        _state["own"] = d
    setup(d)


def setup(scratch):
    import breezy
    import breezy.bzr  # noqa
    from breezy import bedding, rules
    os.environ["TZ"] = "UTC"
    time.tzset()
    _state["dir"] = scratch
    _state["trees"] = {}
    _state["order"] = []
    os.makedirs(bedding.config_dir(), exist_ok=True)
    _state["rules"] = rules.rules_path()
    _setrule(False)


def teardown():
    try:
        os.unlink(_state["rules"])
    except (OSError, KeyError):
        pass
    try:
        from breezy import rules
        rules.reset_rules()
    except Exception:
        pass
    if _state.get("own"):
        shutil.rmtree(_state.pop("own"), ignore_errors=True)
    _state.pop("dir", None)


def _setrule(on):
    from breezy import rules
    if _state.get("rule_on") == on and os.path.exists(_state["rules"]):
        return
    with open(_state["rules"], "w") as f:
        f.write("[name *.txt]\neol = crlf\n" if on else "[name *.nothing-matches]\neol = exact\n")
    rules.reset_rules()
    _state["rule_on"] = on


def _get_tree(tree_spec):
    """Working tree (cached) holding the two commits described by tree_spec."""
    from breezy import controldir
    k = json.dumps(tree_spec)
    if k in _state["trees"]:
        return _state["trees"][k]
    while len(_state["order"]) >= 6:
        old = _state["order"].pop(0)
        shutil.rmtree(_state["trees"].pop(old), ignore_errors=True)
    _state["n"] += 1
    base = os.path.join(_state["dir"], "wt%d" % _state["n"])
    _setrule(False)
    wt = controldir.ControlDir.create_standalone_workingtree(
        base, format=controldir.format_registry.make_controldir("2a"))
    for rev in (1, 2):
        added = []
        for path, kind, parts, ex, target, r in tree_spec:
            full = os.path.join(base, path)
            if r == 3 and rev == 1:
                with open(full, "wb") as f:
                    f.write(b"old " + _expand(parts))
                added.append(path)
            elif r == 3 and rev == 2:
                with open(full, "wb") as f:
                    f.write(_expand(parts))
                if ex:
                    os.chmod(full, 0o755)
            elif r == rev:
                if kind == "d":
                    os.mkdir(full)
                elif kind == "f":
                    with open(full, "wb") as f:
                        f.write(_expand(parts))
                    if ex:
                        os.chmod(full, 0o755)
                else:
                    os.symlink(target, full)
                added.append(path)
        if added:
            wt.add(added)
        wt.commit("r%d" % rev, timestamp=(T1 if rev == 1 else T2), timezone=0, rev_id=b"rev-%d" % rev)
    # the committed tree must be the specified one (e.g. a symlink target containing a newline is silently
    # truncated by commit -- not an export matter, such specs are rejected here)
    tree = wt.branch.repository.revision_tree(b"rev-2")
    with tree.lock_read():
        for path, kind, parts, ex, target, r in tree_spec:
            ok = tree.kind(path) == {"f": "file", "d": "directory", "l": "symlink"}[kind]
            if ok and kind == "f":
                ok = tree.get_file_text(path) == _expand(parts) and bool(tree.is_executable(path)) == bool(ex)
            if ok and kind == "l":
                ok = tree.get_symlink_target(path) == target
            if not ok:
                raise AssertionError("committed tree differs from the specification at %r" % (path,))
    _state["trees"][k] = base
    _state["order"].append(k)
    return base


# ----------------------------------------------------------------------------------------------
# reading exports back
# ----------------------------------------------------------------------------------------------
def _norm(name):
    """member name -> the relative path it is extracted to ('./a/' -> 'a', '/a' -> 'a')"""
    return os.path.normpath("/" + name).lstrip("/")


def _compression(data):
    if data[:2] == b"\x1f\x8b":
        return "tgz"
    if data[:3] == b"BZh":
        return "tbz2"
    if data[:6] == b"\xfd7zXZ\x00":
        return "txz"
    if data[:3] == b"\x5d\x00\x00":
        return "tlzma"
    if data[257:262] == b"ustar":
        return "tar"
    if len(data) == 10240 and not data.strip(b"\x00"):
        return "tar"      # empty archive: two zero blocks padded to a record
    return "unknown"


def _canon_mtime(m, inp):
    m = int(m)
    if inp["filtered"] and not inp["pft"] and abs(m - time.time()) < 7200:
        return -1
    return m


def _read_tar(path, inp):
    with open(path, "rb") as f:
        data = f.read()
    comp = _compression(data)
    out = []
    with tarfile.open(fileobj=io.BytesIO(data), mode="r:*") as tf:
        for m in tf.getmembers():
            name = m.name + ("/" if m.isdir() else "")     # tarfile strips the '/' of directory members
            content = tf.extractfile(m).read() if m.isreg() else b""
            if m.isreg() and m.size != len(content):
                content = b"SIZE MISMATCH"
            out.append([name, Tag(m.type.decode()), m.mode, _ocontent(content), m.linkname, _canon_mtime(m.mtime, inp)])
    return [Tag(comp), out], data


def _read_zip(path, inp):
    with open(path, "rb") as f:
        data = f.read()
    out = []
    import warnings
    with warnings.catch_warnings():
        warnings.simplefilter("ignore")
        with zipfile.ZipFile(io.BytesIO(data)) as z:
            for i in z.infolist():
                with z.open(i) as fh:
                    content = fh.read()
                out.append([i.filename, i.external_attr, _ocontent(content),
                            _canon_mtime(calendar.timegm(tuple(i.date_time) + (0, 0, 0)), inp)])
    return [Tag("zip"), out], data


def _walk(top):
    """{relpath: (kind, content, exec, target, mtime)} of everything below top."""
    res = {}
    for dp, dns, fns in os.walk(top):
        for n in dns + fns:
            full = os.path.join(dp, n)
            rel = os.path.relpath(full, top)
            st = os.lstat(full)
            if stat.S_ISLNK(st.st_mode):
                res[rel] = ("l", b"", False, os.readlink(full), None)
            elif stat.S_ISDIR(st.st_mode):
                res[rel] = ("d", b"", False, "", None)
            else:
                with open(full, "rb") as f:
                    res[rel] = ("f", f.read(), bool(st.st_mode & 0o100), "", int(st.st_mtime))
    return res


def _read_dir(top, inp):
    w = _walk(top)
    out = []
    for rel in _by_dir_order(set(w)):
        kind, content, ex, target, mtime = w[rel]
        out.append([rel, Tag({"f": "file", "d": "directory", "l": "symlink"}[kind]), ex, _ocontent(content), target,
                    None if mtime is None else _canon_mtime(mtime, inp)])
    return [Tag("dir"), out], w


# ----------------------------------------------------------------------------------------------
# the driver
# ----------------------------------------------------------------------------------------------
def _effective_format(inp):
    if inp["fmt"] is not None:
        return inp["fmt"]
    for ext, f in EXT_TABLE:
        if inp["dest"].endswith(ext):
            return f
    return "dir"


def impl(inp):
    _ensure_setup()
    if inp["kind"] == "rootname":
        from breezy import export
        return [export.get_root_name(inp["dest"]), Tag(export.guess_format(inp["dest"]))]
    from breezy import export, workingtree
    from breezy.filter_tree import ContentFilterTree
    base = _get_tree(inp["tree"])
    _state["n"] += 1
    outdir = os.path.join(_state["dir"], "out%d" % _state["n"])
    os.mkdir(outdir)
    side = {}
    _side[_key(inp)] = side
    try:
        wt = workingtree.WorkingTree.open(base)
        tree = wt.branch.repository.revision_tree(b"rev-2")
        with tree.lock_read():
            real_order = [p for p, _ in tree.iter_entries_by_dir()]
        mine = [""] + _by_dir_order({e[0] for e in inp["tree"]})
        if real_order != mine:
            side["order"] = (real_order, mine)
            return Err("ITER_ORDER")
        to_stdout = inp["dest"] == "-"          # `brz export -`: the archive goes to sys.stdout, the root is ""
        dest = "-" if to_stdout else os.path.join(outdir, inp["dest"])
        pre = inp.get("pre", "absent") if not to_stdout else "absent"
        if pre != "absent":
            os.mkdir(dest)
            if pre == "nonempty":
                with open(os.path.join(dest, "keep"), "wb") as f:
                    f.write(b"keep")
        _setrule(bool(inp["filtered"]))
        err = None
        import warnings
        warnings.filterwarnings("ignore", message="Duplicate name", category=UserWarning)
        import sys
        real_stdout = sys.stdout
        if to_stdout:
            class _Out:
                def __init__(self):
                    self.buffer = io.BytesIO()

                def write(self, x):
                    pass

                def flush(self):
                    pass
            sys.stdout = _Out()
        try:
            if inp["via"] == "cmd":
                from breezy.builtins import cmd_export
                c = cmd_export()
                c._setup_outf()
                loc = base if inp["subdir"] is None else base + "/" + inp["subdir"]
                c.run(dest, branch_or_subdir=loc, format=inp["fmt"], root=inp["root"], filters=bool(inp["filtered"]),
                      per_file_timestamps=bool(inp["pft"]))
                c.cleanup_now() if hasattr(c, "cleanup_now") else None
            else:
                t = tree
                if inp["filtered"]:
                    t = ContentFilterTree(tree, tree._content_filter_stack)
                export.export(t, dest, inp["fmt"], inp["root"], inp["subdir"], per_file_timestamps=bool(inp["pft"]))
        except BaseException as e:   # noqa: B036  (pyo3 panics are BaseException)
            if isinstance(e, (KeyboardInterrupt, SystemExit)):
                raise
            err = type(e).__name__
            side["errmsg"] = repr(e)[:300]
        finally:
            if to_stdout:
                captured = sys.stdout.buffer.getvalue()
                sys.stdout = real_stdout
                dest = os.path.join(outdir, "stdout.bin")
                with open(dest, "wb") as f:
                    f.write(captured)
        fmt = _effective_format(inp)
        if err is not None:
            side["error"] = err
            if pre == "nonempty":
                side["pre_unchanged"] = (_walk(dest) == {"keep": ("f", b"keep", False, "", _walk(dest).get("keep", (0,) * 5)[4])})
            return Err(err)
        if fmt == "dir":
            obs, w = _read_dir(dest, inp)
            side["extracted"] = {k: v[:4] for k, v in w.items()}
            side["mtimes"] = {k: _canon_mtime(v[4], inp) for k, v in w.items() if v[4] is not None}
            return obs
        if fmt == "zip":
            obs, data = _read_zip(dest, inp)
            xdir = os.path.join(outdir, "x")
            os.mkdir(xdir)
            import warnings
            with warnings.catch_warnings():
                warnings.simplefilter("ignore")
                with zipfile.ZipFile(io.BytesIO(data)) as z:
                    unext = []
                    for i in z.infolist():
                        try:
                            z.extract(i, xdir)
                        except OSError as e:       # e.g. NAME + ".lnk" longer than NAME_MAX
                            unext.append(_norm(i.filename))
                    side["unextractable"] = unext
                    attrs = {}
                    for i in z.infolist():
                        attrs.setdefault(_norm(i.filename), []).append(i.external_attr >> 16)
            w = _walk(xdir)
            ext = {}
            for rel, (kind, content, ex, target, _m) in w.items():
                modes = attrs.get(rel, [])
                if modes and all(stat.S_IFMT(m) == stat.S_IFLNK for m in modes):
                    ext[rel] = ("l", b"", False, content.decode("utf-8", "replace"))
                else:
                    ext[rel] = (kind, content, bool(modes) and all(bool(m & 0o100) for m in modes) and kind == "f", target)
            side["extracted"] = ext
            side["members"] = len(obs[1])
            side["mtimes"] = {_norm(m[0]): m[3] for m in obs[1]}
            return obs
        obs, data = _read_tar(dest, inp)
        xdir = os.path.join(outdir, "x")
        os.mkdir(xdir)
        with tarfile.open(fileobj=io.BytesIO(data), mode="r:*") as tf:
            tf.extractall(xdir, filter="tar")
        side["extracted"] = {k: v[:4] for k, v in _walk(xdir).items()}
        side["members"] = len(obs[1])
        side["mtimes"] = {_norm(m[0]): m[5] for m in obs[1]}
        return obs
    finally:
        shutil.rmtree(outdir, ignore_errors=True)


# ----------------------------------------------------------------------------------------------
# the model term
# ----------------------------------------------------------------------------------------------
def _coq_parts(parts):
    return "[" + "; ".join(f"({b}%N, {n}%N)" for b, n in parts) + "]"


def _coq_entry(path, kind, parts, ex, target, rev):
    k = {"f": "KFile", "d": "KDir", "l": "KLink"}[kind]
    mt = T1 if rev == 1 else T2
    return (f"E {coq_bytes(path)} {k} {_coq_parts(parts if kind == 'f' else [])} {coq_bool(bool(ex) and kind == 'f')} "
            f"{coq_bytes(target if kind == 'l' else '')} {coq_Z(mt)} {coq_bool(_filt(path, kind))}")


def model_term(inp):
    if inp["kind"] == "rootname":
        return f"run_root_name {coq_bytes(inp['dest'])}"
    by = {e[0]: e for e in inp["tree"]}
    ents = ["E (@nil N) KDir [] false (@nil N) " + coq_Z(T1) + " false"]
    for p in _by_dir_order(set(by)):
        ents.append(_coq_entry(*by[p]))
    fmt = coq_option(inp["fmt"], lambda f: COQ_FMT[f])
    pre = {"absent": "DAbsent", "empty": "DEmpty", "nonempty": "DNonEmpty"}[inp.get("pre", "absent")]
    return (f"run_case [{'; '.join(ents)}] {fmt} {coq_bytes(inp['dest'])} {coq_option(inp['root'], coq_bytes)} "
            f"{coq_option(inp['subdir'], coq_bytes)} {coq_bool(inp['pft'])} {coq_bool(inp['filtered'])} {coq_Z(T2)} {pre}")


# ----------------------------------------------------------------------------------------------
# the property oracle: the extracted export IS the selected sub-tree under the root
# ----------------------------------------------------------------------------------------------
def _expected(inp):
    """(expected {relpath: (kind, content, exec, target)}, {relpath: treepath}, specified?)"""
    nodes = {}
    for path, kind, parts, ex, target, rev in inp["tree"]:
        content = _final_content((path, kind, parts)) if kind == "f" else b""
        if inp["filtered"] and _filt(path, kind):
            content = _crlf(content)
        nodes[path] = (kind, content, bool(ex) and kind == "f", target if kind == "l" else "", rev)
    sd = inp["subdir"]
    sel = {}
    specified = True
    if sd is None or sd == "":
        sel = {p: p for p in nodes}
    else:
        s = sd.rstrip("/")
        if s in nodes and nodes[s][0] == "d":
            sel = {p[len(s) + 1:]: p for p in nodes if p.startswith(s + "/")}
        elif s in nodes:
            sel = {s.rpartition("/")[2]: s}
        else:
            specified = False       # names nothing in the tree: nothing may be exported
    # the only exclusion the exporters know: control files, i.e. top-level names starting with ".bzr"
    sel = {rel: p for rel, p in sel.items() if not p.split("/")[0].startswith(".bzr")}
    fmt = _effective_format(inp)
    if fmt == "dir":
        rootc = []
    else:
        root = inp["root"]
        if root is None and inp["dest"] == "-":
            root = ""
        elif root is None:
            root = os.path.basename(inp["dest"])
            for ext, _f in EXT_TABLE:
                if root.endswith(ext):
                    root = root[:-len(ext)]
                    break
        rootc = [c for c in root.split("/") if c and c != "."]      # "", ".", "./", "/" all mean: no root directory
    exp, origin = {}, {}
    for rel, p in sel.items():
        full = "/".join(rootc + [rel])
        exp[full] = nodes[p][:4]
        origin[full] = p
        # the directories that make up the root itself
    for i in range(1, len(rootc) + 1):
        if sel:
            exp.setdefault("/".join(rootc[:i]), ("d", b"", False, ""))
    return exp, origin, nodes, specified, rootc


def _classes(inp, obs):
    side = _side.get(_key(inp), {})
    out = []
    if inp["kind"] == "rootname":
        dest = inp["dest"]
        base = os.path.basename(dest)
        want_root, want_fmt = base, "dir"
        for ext, f in EXT_TABLE:
            if dest.endswith(ext):
                want_fmt = f
                break
        for ext, f in EXT_TABLE:
            if base.endswith(ext):
                want_root = base[:-len(ext)]
                break
        if dest == "-":
            want_root = ""
        if isinstance(obs, Err):
            return [("error", str(obs))]
        if obs[0] != want_root or str(obs[1]) != want_fmt:
            out.append(("rootname", f"get_root_name/guess_format({dest!r}) = {obs!r}, expected {(want_root, want_fmt)!r}"))
        return out
    exp, origin, nodes, specified, rootc = _expected(inp)
    fmt = _effective_format(inp)
    has_link = any(nodes[p][0] == "l" for p in origin.values())
    if isinstance(obs, Err):
        e = str(obs)
        if e == "ITER_ORDER":
            return [("iter-order", "iter_entries_by_dir order differs from the harness' reference: %r" % (side.get("order"),))]
        if e == "BzrError" and inp.get("pre") == "nonempty" and fmt == "dir":
            if not side.get("pre_unchanged"):
                return [("refused-but-changed", "export to a non-empty directory raised but changed the directory")]
            return []
        return [("error", f"export raised {e}: {side.get('errmsg')}")]
    if inp.get("pre") == "nonempty" and fmt == "dir":
        return [("not-refused", "export into a non-empty directory did not raise")]
    got = side.get("extracted")
    if got is None:
        return [("driver", "no extraction recorded")]
    if not specified:
        if got:
            out.append(("mismatch", f"subdir {inp['subdir']!r} names nothing in the tree but {sorted(got)[:3]} exported"))
        return out
    if fmt in ("tar", "tgz", "tbz2", "txz", "tlzma", "zip") and side.get("members") is not None:
        # every archive member must be a distinct exported entry (root directories are implicit)
        pass
    # compression actually matches the requested format
    if fmt != "dir" and str(obs[0]) != fmt:
        out.append(("mismatch", f"archive is {obs[0]} but format {fmt} was requested"))
    # the directories that make up the root exist as soon as anything was exported below them
    for i in range(1, len(rootc) + 1):
        rp = "/".join(rootc[:i])
        if any(q.startswith(rp + "/") for q in got):
            exp.setdefault(rp, ("d", b"", False, ""))
    for p in sorted(set(exp) | set(got)):
        e, g = exp.get(p), got.get(p)
        if e == g:
            continue
        if fmt == "zip":
            if e is not None and e[0] == "l" and g is None and (p + ".lnk") in side.get("unextractable", ()):
                out.append(("zip-symlink", f"symlink {p!r} exported as {p + '.lnk'!r}, too long a name to extract"))
                continue
            if e is not None and e[0] == "l" and g is None and got.get(p + ".lnk", (None,))[0] == "f":
                out.append(("zip-symlink", f"symlink {p!r} exported as regular file {p + '.lnk'!r}"))
                continue
            if e is None and p.endswith(".lnk") and exp.get(p[:-4], (None,))[0] == "l":
                continue      # the other half of the same class
            if e is not None and p.endswith(".lnk") and exp.get(p[:-4], (None,))[0] == "l":
                out.append(("zip-symlink", f"file {p!r} collides with the .lnk file of symlink {p[:-4]!r}"))
                continue
        out.append(("mismatch", f"{p!r}: expected {_short(e)}, exported {_short(g)}"))
    # time stamps: per-file = time of the revision that last changed the entry; otherwise the revision's time
    mt = side.get("mtimes", {})
    for p, m in mt.items():
        tp = origin.get(p)
        if tp is None:
            continue
        if inp["pft"]:
            want = T1 if nodes[tp][4] == 1 else T2
        else:
            want = -1 if inp["filtered"] else T2
        if m != want:
            out.append(("mismatch", f"mtime of {p!r} is {m}, expected {want}"))
            break
    return out


def _node_filtered(n):
    return n[:4]


def _short(n):
    if n is None:
        return "nothing"
    k, c, x, t = n[:4]
    return f"({k}, {len(c)} bytes {c[:12]!r}, exec={x}, target={t!r})"


def oracle(inp, obs):
    cl = _classes(inp, obs)
    if not cl:
        return None
    names = sorted({c[0] for c in cl})
    return "".join(f"[{n}]" for n in names) + " " + "; ".join(c[1] for c in cl[:3])


def finding_matches(fid, inp, obs, why):
    cls = FINDINGS.get(fid)
    if cls is None or inp.get("kind") != "export":
        return False
    present = set(re.findall(r"\[([a-z-]+)\]", why.split(" ", 1)[0])) if why else {c[0] for c in _classes(inp, obs)}
    if not present or cls not in present:
        return False
    # every class of this case must be one of the recognised finding classes (a new kind of failure is never hidden)
    if not present <= set(FINDINGS.values()):
        return False
    fmt = _effective_format(inp)
    kinds = {e[1] for e in inp["tree"]}
    if cls == "zip-symlink":
        return fmt == "zip" and "l" in kinds
    return False


# ----------------------------------------------------------------------------------------------
# generator
# ----------------------------------------------------------------------------------------------
NFC_NAMES = ["é", "中文", "año ", "Δx", "\U0001f600"]
ODD_NAMES = [" ", "a b", "-dash", "--", "a\\b", "a:b", "*", "?", "a\tb", "'", '"q"', "~", "#x#", ".hidden", "a.lnk", "x.txt",
             "CaSe", "case", "%41", "a%2Fb", "@", "$HOME", "a;b", "a&b", "(p)", "[x]", "{y}", "a,b", "!", "+", "=", "a|b", "..."]
DOT_NAMES = [".hidden", ".config", ".a", "..a", ".-", "._x", ".x.txt", "...", ".b", ". ", ".gitignore", "./".strip("/") + "d"]
BZR_NAMES = [".bzrignore", ".bzrrules", ".bzr-dir", ".bzrfoo.txt", ".bzx", ".bz", "x.bzr"]
LONG = ["L" * 99, "M" * 100, "N" * 101, "P" * 155, "Q" * 156, "R" * 200, "S" * 255]
TARGETS = ["f", "d/g", "../x", "/abs/olute", "té ", "T" * 99, "U" * 100, "V" * 101, "W" * 300, "a\tb", " ", "-t",
           "中/文", "dangling", "e\u0301 nfd", "\u00e9\u0323", "a\\b"]
ROOTS = [None, "", "R", "r/s", "R/", "é r", "-r", " ", "Z" * 120, "r.tar", "a b/c", "", ".", "./", "/", ".r", "", "r/."]
SIZES = [0, 1, 511, 512, 513, 1024, 10239, 10240, 10241, 20480, 32767, 32768, 32769, 65535, 65536, 65537, 131073]


def _rand_name(rng):
    r = rng.random()
    if r < 0.35:
        return rng.choice(["a", "b", "c", "d", "e", "f", "g", "x.txt", "y.txt", "src", "doc", "Makefile", "a.lnk", "b.lnk"])
    if r < 0.5:
        return rng.choice(ODD_NAMES)
    if r < 0.6:
        return rng.choice(DOT_NAMES)
    if r < 0.72:
        return rng.choice(NFC_NAMES)
    if r < 0.82:
        return rng.choice(BZR_NAMES)
    if r < 0.9:
        return rng.choice(LONG)
    return "".join(rng.choice("ab-. _é") for _ in range(rng.randint(1, 6))).strip(".") or "n"


def _valid_name(n):
    return (n not in ("", ".", "..", ".bzr") and "/" not in n and "\x00" not in n and "\n" not in n
            and unicodedata.normalize("NFC", n) == n and len(n.encode()) <= 255)


def _rand_content(rng, big_ok=True):
    r = rng.random()
    if r < 0.15:
        return []
    if r < 0.6 or not big_ok:
        return [[rng.choice([97, 98, 10, 13, 0, 32, 255, 195]), rng.randint(1, 4)] for _ in range(rng.randint(1, 5))]
    if r < 0.8:
        return [[rng.choice([97, 10, 0]), rng.choice(SIZES)]]
    n = rng.choice(SIZES)
    return [[97, max(n - 1, 0)], [10, 1], [98, rng.randint(0, 3)]]


def gen_tree(rng, nmax=9, big_ok=True):
    """list of [path, kind, parts, exec, target, rev]; parents precede children."""
    dirs = [("", 1)]
    used = set()
    out = []
    n = rng.randint(1, nmax)
    for _ in range(n):
        parent, prev = rng.choice(dirs)
        name = _rand_name(rng)
        if not _valid_name(name):
            continue
        path = (parent + "/" + name) if parent else name
        if path in used or path.lower() in {u.lower() for u in used} and rng.random() < 0.5:
            continue
        if len(path.encode()) > 900:
            continue
        used.add(path)
        rev = max(prev, rng.choice([1, 1, 2]))
        r = rng.random()
        if r < 0.3 and path.count("/") < 3:
            out.append([path, "d", [], False, "", rev])
            dirs.append((path, rev))
        elif r < 0.5:
            out.append([path, "l", [], False, rng.choice(TARGETS), rev])
        else:
            rv = 3 if (rev == 1 and rng.random() < 0.2) else rev
            out.append([path, "f", _rand_content(rng, big_ok), rng.random() < 0.35, "", rv])
    if not out:
        out.append(["f", "f", [[97, 3]], False, "", 1])
    return out


def _subdirs_for(tree, rng):
    paths = [e[0] for e in tree]
    dirs = [e[0] for e in tree if e[1] == "d"]
    cands = [None, None, ""]
    for d in dirs:
        cands += [d, d + "/", d + "//"]
    cands += paths[:4]
    cands += ["nonexistent", "/", "./a", "a/../a"]
    if dirs:
        cands += ["/" + dirs[0], dirs[0][:-1] if len(dirs[0]) > 1 else "zz", dirs[0] + "x"]
    return cands


def _mk(tree, fmt, dest, root, subdir, pft, filtered, via="api", pre="absent"):
    return {"kind": "export", "tree": tree, "fmt": fmt, "dest": dest, "root": root, "subdir": subdir,
            "pft": bool(pft), "filtered": bool(filtered), "via": via, "pre": pre}


DEST_FOR = {"dir": "outdir", "tar": "o.tar", "tgz": "o.tar.gz", "tbz2": "o.tbz2", "txz": "o.tar.xz", "tlzma": "o.tar.lzma",
            "zip": "o.zip"}

FIXED_TREE = [
    ["f", "f", [[104, 1], [10, 1]], False, "", 1],
    ["x", "f", [[35, 1], [33, 1], [10, 1]], True, "", 1],
    ["d", "d", [], False, "", 1],
    ["d/e", "d", [], False, "", 1],
    ["d/g.txt", "f", [[103, 1], [10, 1], [103, 1]], False, "", 2],
    ["d/.bzrignore", "f", [[113, 1]], False, "", 1],
    ["d/da", "f", [[113, 2]], True, "", 3],
    ["da", "f", [[113, 3]], False, "", 1],
    ["d x", "d", [], False, "", 2],
    ["d x/k", "f", [], False, "", 2],
    ["l", "l", [], False, "d/g.txt", 1],
    ["l.lnk", "f", [[99, 4]], False, "", 1],
    [".bzrignore", "f", [[42, 1], [10, 1]], False, "", 1],
    [".bzrfoo", "d", [], False, "", 1],
    [".bzrfoo/z", "f", [[122, 1]], False, "", 1],
    ["N" * 101, "f", [[110, 1]], False, "", 1],
    ["é ", "f", [[117, 1]], False, "", 1],
]
DOT_TREE = [
    [".hidden", "f", [[104, 2]], False, "", 1],
    ["hidden", "f", [[72, 3]], True, "", 1],
    [".config", "d", [], False, "", 1],
    [".config/settings", "f", [[115, 1]], False, "", 2],
    [".config/.deep", "f", [[100, 1]], True, "", 1],
    ["config", "d", [], False, "", 1],
    ["config/settings", "f", [[83, 2]], False, "", 1],
    ["..a", "f", [[46, 2]], False, "", 1],
    ["./".strip("/") + ".l", "l", [], False, ".hidden", 1],
    ["d", "d", [], False, "", 1],
    ["d/.inner", "f", [[105, 1]], False, "", 1],
    ["d/...", "d", [], False, "", 1],
]
PLAIN_TREE = [e for e in FIXED_TREE if e[1] != "l" and not e[3] and not e[0].startswith(".bzr")]


def corpus():
    out = []
    # witnesses of the candidate findings
    out.append(_mk([["l", "l", [], False, "t", 1]], "zip", "o.zip", None, None, False, False))
    out.append(_mk([["l", "l", [], False, "t", 1], ["l.lnk", "f", [[97, 1]], False, "", 1]], "zip", "o.zip", None, None, False, False))
    out.append(_mk([["x", "f", [[97, 1]], True, "", 1]], "zip", "o.zip", None, None, False, False))
    out.append(_mk([["S" * 255, "l", [], False, "t", 1]], "zip", "o.zip", "", None, False, False))   # NAME_MAX + ".lnk"
    out.append(_mk([["S" * 255, "l", [], False, "t", 1], ["T" * 255, "d", [], False, "", 1], ["T" * 255 + "/" + "U" * 255, "f", [[97, 2]], True, "", 2]],
                   "tar", "o.tar", "", None, True, False))
    out.append(_mk([["l", "l", [], False, "t", 1]], "tar", "o.tar", None, None, False, True, via="cmd"))
    out.append(_mk([["f", "f", [[97, 1]], False, "", 1]], "tar", "o.tar", None, None, True, True, via="cmd"))
    out.append(_mk([[".bzrignore", "f", [[97, 1]], False, "", 1], ["f", "f", [], False, "", 1]], "tar", "o.tar", None, None,
                   False, True, via="cmd"))
    for fmt in FORMATS:
        for sd in (None, "d", "d/", "d/g.txt", "l", "d/e", "zz", "/d"):
            out.append(_mk(FIXED_TREE, fmt, DEST_FOR[fmt], None, sd, False, False))
        out.append(_mk(FIXED_TREE, fmt, DEST_FOR[fmt], "", None, True, False))
        out.append(_mk(PLAIN_TREE, fmt, DEST_FOR[fmt], "R", None, True, True))
        out.append(_mk(PLAIN_TREE, fmt, DEST_FOR[fmt], None, "d", False, True, via="cmd"))
    # leading-dot names (files, directories, look-alikes of each other) under empty / degenerate / ordinary roots
    for fmt in FORMATS:
        for root in ("", ".", "./", "/", None, "R", ".r"):
            out.append(_mk(DOT_TREE, fmt, DEST_FOR[fmt], root, None, False, False))
        out.append(_mk(DOT_TREE, fmt, DEST_FOR[fmt], "", ".config", False, False))
        if fmt != "dir":
            out.append(_mk(DOT_TREE, fmt, "-", None, None, False, False))
            out.append(_mk(DOT_TREE, fmt, "-", None, "d", True, False, via="cmd"))
    for pre in ("empty", "nonempty"):
        out.append(_mk(PLAIN_TREE, "dir", "outdir", None, None, False, False, pre=pre))
        out.append(_mk(PLAIN_TREE, None, "outdir", None, "d", False, False, via="cmd", pre=pre))
    for d in ["-", "x.tar", "x.tar.gz", "x.tgz", "x.tar.bz2", "x.tbz2", "x.tar.lzma", "x.tar.xz", "x.zip", "x", "x.tar.zip",
              "a/b.tar/c", "a.zip/b.tgz", ".tar", "tar", "x.TAR", "x.tar.", "x.tar/", "/abs/x.y.tar.gz", "é.zip", "x.gz",
              "x.bz2", "x.tar.tar", "x.zip.tar.gz", ""]:
        out.append({"kind": "rootname", "dest": d})
    return out


def cases(rng, tier):
    quick = tier == "quick"
    # 1. size thresholds: one big file per size, every format
    sizes = SIZES if not quick else [0, 511, 512, 513, 10239, 10240, 10241, 32768, 32769, 65536, 65537]
    for i, n in enumerate(sizes):
        tree = [["big", "f", [[97, max(n - 1, 0)], [10, min(n, 1)]], bool(i % 2), "", 1],
                ["t.txt", "f", [[97, n // 2], [10, 1], [98, n - n // 2]], False, "", 2],
                ["d", "d", [], False, "", 1], ["d/after", "f", [[122, 3]], False, "", 1]]
        fmts = FORMATS if not quick else [FORMATS[(i + j) % 7] for j in range(3)]
        for fmt in fmts:
            yield _mk(tree, fmt, DEST_FOR[fmt], None, None, bool(i % 2), False)
        yield _mk(tree, "tar", "o.tar", "R", None, False, True, via="cmd")
        yield _mk(tree, "dir", "outdir", None, None, False, True)
    # 2. random trees x configurations
    ntrees = 45 if quick else 700
    per = 7 if quick else 10
    for ti in range(ntrees):
        tree = gen_tree(rng, nmax=rng.choice([3, 6, 10, 14]), big_ok=(ti % 5 == 0))
        plain = ti % 3 == 0
        if plain:   # no symlinks: the zip-symlink finding cannot mask anything else in these cases
            tree = [e for e in tree if e[1] != "l"]
            if not tree:
                tree = [["f.txt", "f", [[97, 2], [10, 1]], False, "", 1]]
        sds = _subdirs_for(tree, rng)
        for ci in range(per):
            fmt = FORMATS[(ti + ci) % 7] if ci < 7 else rng.choice(FORMATS)
            explicit = rng.random() < 0.7
            dest = DEST_FOR[fmt] if rng.random() < 0.7 else rng.choice(
                ["out", "o.tar", "o.zip", "weird name.tgz", "-o.tar.bz2", "é.tar.xz", "o.x.tar.lzma", "o.tar.gz", "o.tbz2"])
            if not explicit:
                f2 = None
            else:
                f2 = fmt
            root = rng.choice(ROOTS)
            sd = rng.choice(sds)
            filtered = rng.random() < 0.35
            pft = rng.random() < 0.45
            via = "api"
            if rng.random() < 0.25 and (sd is None or (sd and not sd.startswith("/") and "//" not in sd
                                                      and not sd.startswith(".") and ".." not in sd)):
                via = "cmd"
            if via == "cmd" and sd is not None and not any(e[0] == sd.rstrip("/") and e[1] != "l" for e in tree):
                # the command resolves its location argument through the file system (follows links, ENAMETOOLONG
                # for over-long missing names): only existing files / directories are given to it
                via = "api"
            if fmt != "dir" and rng.random() < 0.08:
                dest, f2 = "-", fmt               # archive to standard output
            inp = _mk(tree, f2, dest, root, sd, pft, filtered, via)
            if _effective_format(inp) == "dir" and rng.random() < 0.15:
                inp["pre"] = rng.choice(["empty", "nonempty"])
            yield inp
    # 3. get_root_name / guess_format on generated destinations
    stems = ["x", "a.b", "", "x.tar", "-", "é", "a b", ".tgz", "x.", "tar", "x.zip", "d/x", "d.tar/x", "/", "x.tar.g"]
    exts = [e for e, _ in EXT_TABLE] + ["", ".gz", ".TAR", ".tar.", ".zipx", ".t", "tar", ".tar.gzz", ".tar.7z"]
    for s in stems:
        for e in exts:
            yield {"kind": "rootname", "dest": s + e}
    for _ in range(60 if quick else 600):
        parts = [rng.choice(stems + [e for e, _ in EXT_TABLE] + ["/", ".", "t", "gz"]) for _ in range(rng.randint(1, 4))]
        yield {"kind": "rootname", "dest": "".join(parts)}


def nontrivial(inp, obs):
    if inp["kind"] == "rootname":
        return any(inp["dest"].endswith(e) for e, _ in EXT_TABLE)
    return isinstance(obs, Err) or bool(obs[1])


def distribution(inputs, observations):
    d = {"by_format": {}, "errors": {}, "rootname": 0, "filtered": 0, "pft": 0, "cmd": 0, "subdir": 0, "entries_exported": 0,
         "with_symlink": 0, "with_exec": 0, "big": 0}
    for i, o in zip(inputs, observations):
        if i["kind"] == "rootname":
            d["rootname"] += 1
            continue
        f = _effective_format(i)
        d["by_format"][f] = d["by_format"].get(f, 0) + 1
        d["filtered"] += bool(i["filtered"])
        d["pft"] += bool(i["pft"])
        d["cmd"] += i["via"] == "cmd"
        d["subdir"] += i["subdir"] not in (None, "")
        d["with_symlink"] += any(e[1] == "l" for e in i["tree"])
        d["with_exec"] += any(e[3] for e in i["tree"])
        d["big"] += any(sum(n for _, n in e[2]) > 500 for e in i["tree"])
        if isinstance(o, Err):
            d["errors"][str(o)] = d["errors"].get(str(o), 0) + 1
        else:
            d["entries_exported"] += len(o[1])
    return d


def shrink(inp, fails):
    if inp["kind"] != "export":
        return inp
    cur = inp
    changed = True
    while changed:
        changed = False
        tree = cur["tree"]
        for i in range(len(tree) - 1, -1, -1):
            p = tree[i][0]
            if any(t[0].startswith(p + "/") for t in tree):
                continue
            cand = dict(cur, tree=tree[:i] + tree[i + 1:])
            if cand["tree"] and fails(cand):
                cur, changed = cand, True
                break
    return cur
