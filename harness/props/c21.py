"""C21 -- Pull and push never silently drop history (tie H).

Histories are generated as Lib/Dag lists, materialised in real 2a repositories
(BranchBuilder on a memory server) and the very same list is given to the Coq
model.  Three kinds of cases:
  rel    Branch._revision_relations / _check_if_descendant_or_diverged on a stub
         graph whose heads() returns every subset of {a, b, other}  (exhaustive)
  graph  vcsgraph's heads / ancestry / left-hand walk / distance vs Lib/Dag
         (the environment assumptions of the model)
  op     Branch.pull / Branch.push between real branches: every relation of the
         tips, stop revisions, overwrite, append-only, bound targets, ghosts
"""
import itertools
import json

import daglib
from daglib import rid, idx
from vlib import Tag, Err, coq_bool, coq_list, coq_nat, coq_option

PROP = "C21"
COQ = {
    "property_file": "Properties/C21.v",
    "imports": "From BV Require Import Lib.Dag Model.BranchUpdate.",
}
META = {
    "level": "proof",
    "title": "Pull and push never silently drop history",
    "technique": ("Coq theorems over a hand model of GenericInterBranch._update_revisions/_basic_push/_pull/pull/push, "
                  "Branch._revision_relations/_check_if_descendant_or_diverged and BzrBranch.set_last_revision_info/"
                  "_check_history_violation on the shared revision-graph library Lib/Dag + correspondence on real branches"),
    "level_text": ("partial (P-core): for every well-formed revision graph (unbounded, ghosts included) the model moves the tip "
                   "exactly when the requested revision descends from it, leaves it when contained, fails with DivergedBranches "
                   "otherwise, never drops the old tip without overwrite, keeps revno = left-hand history length, and enforces "
                   "append-only also under overwrite. The model is tied to the code by running Branch.pull/push on real 2a "
                   "branches built from the same graph value; fetch, tags, hooks, remote and git branches are not modelled."),
    "level_note": ("Trusted: Coq kernel, vm_compute, the hand model's correspondence (bounded sampling), vcsgraph graph queries "
                   "as modelled by Lib/Dag (compared on every run). Only local bzr (2a) branches; RemoteBranch and git "
                   "branches are not exercised."),
    "design_ref": "DESIGN.md §5 C21",
    "trusted_base": ["hand model coq/Model/BranchUpdate.v of breezy/branch.py + breezy/bzr/branch.py",
                     "coq/Lib/Dag.v as a model of vcsgraph (heads, iter_lefthand_ancestry, find_distance_to_null)",
                     "correspondence harness harness/props/c21.py, harness/daglib.py"],
    "assumptions": ["vcsgraph Graph.heads / iter_lefthand_ancestry / find_distance_to_null behave like Lib/Dag (compared on every run, kind=graph)",
                    "source and target branches record revno = left-hand history length and have no ghost on the left-hand history of their tips (hypothesis `consistent`)",
                    "the stop revision is present in the source repository",
                    "append-only is switched on through any documented place of the option append_revisions_only: branch.conf (set_append_revisions_only or at creation), a locations.conf section for the branch or a directory above it, or breezy.conf; the model only sees the resulting boolean",
                    "local bzr 2a branches; fetch succeeds"],
    "rule": "kind=op cases with two different non-null tips are non-trivial; distinct = distinct (input, observation)",
}
SHARD = 150

_state = {}

# every shape the API accepts for `overwrite`: name -> (Python value factory, Coq term, "history" in normalised)
OVERWRITE = {
    "F": (lambda: False, "OwFalse", False),
    "T": (lambda: True, "OwTrue", True),
    "empty": (lambda: set(), "(OwSet false false)", False),
    "fempty": (lambda: frozenset(), "(OwSet false false)", False),
    "history": (lambda: {"history"}, "(OwSet true false)", True),
    "tags": (lambda: {"tags"}, "(OwSet false true)", False),
    "both": (lambda: {"history", "tags"}, "(OwSet true true)", True),
    "lboth": (lambda: ["history", "tags"], "(OwSet true true)", True),
}


def _ow(inp):
    """Name of the overwrite shape (old replay files carry booleans)."""
    o = inp["overwrite"]
    return {True: "T", False: "F"}.get(o, o) if isinstance(o, bool) else o


def _ow_history(inp):
    return OVERWRITE[_ow(inp)][2]


def setup(scratch):
    import breezy
    import breezy.bzr  # noqa: F401
    from dromedary.memory import MemoryServer
    from breezy import bedding
    bedding.ensure_config_dir_exists()      # locations.conf / breezy.conf live in the scratch BRZ_HOME
    srv = MemoryServer()
    srv.start_server()
    _state.update(server=srv, url=srv.get_url(), n=0, cache={})


def teardown():
    _undo_config()
    srv = _state.pop("server", None)
    if srv is not None:
        srv.stop_server()
    _state.clear()


# ---- case generation -----------------------------------------------------------

def _good_tips(g):
    """Revisions a consistent branch can sit on (no ghost on the left-hand history)."""
    return [r for r in range(len(g)) if daglib.lefthand_present(g, r)]


def _op_case(rng, g, force=None):
    good = _good_tips(g)
    n = len(g)
    tgt = rng.choice(good + [None]) if rng.random() < 0.12 else rng.choice(good)
    src = rng.choice(good + [None]) if rng.random() < 0.08 else rng.choice(good)
    stop = None
    r = rng.random()
    if r < 0.4:
        stop = rng.randrange(n)          # any present revision (maybe with a ghost left-hand history)
    elif r < 0.47:
        stop = "null"                    # stop_revision=b"null:"
    case = {"kind": "op", "op": rng.choice(["pull", "push"]), "g": g,
            "tgt": tgt, "tgt_ao": rng.random() < 0.25, "master": None,
            "src": src, "stop": stop,
            "overwrite": rng.choice(["F", "F", "F", "T", "empty", "fempty", "history", "tags", "tags", "both", "lboth"])}
    if rng.random() < 0.3:
        case["master"] = {"tip": rng.choice(good) if rng.random() < 0.5 or tgt is None else tgt,
                          "ao": rng.random() < 0.2}
    if force:
        case.update(force)
    _choose_via(rng, case)
    return case


def _choose_via(rng, case):
    """Pick how append-only is switched on (only where it is on).  A global setting covers every branch."""
    pick = lambda: rng.choice(["branch", "branch", "init", "locations", "locations", "locations_parent", "global"])
    m = case.get("master")
    if case["tgt_ao"]:
        case["tgt_ao_via"] = pick()
    if m is not None and m["ao"]:
        m["ao_via"] = pick()
    if case.get("tgt_ao_via") == "global" or (m is not None and m.get("ao_via") == "global"):
        case["tgt_ao"], case["tgt_ao_via"] = True, "global"
        if m is not None:
            m["ao"], m["ao_via"] = True, "global"


FIXED = [
    # linear, side branch, merge, criss-cross, ghosts (non-left and left-hand)
    [[], [0], [1], [0], [2, 3], [3, 47], [48]],
    [[], [0], [0], [1, 2], [2, 1], [3, 4], [4, 3]],
    [[], [0], [1], [2], [3]],
    [[], [], [0, 1], [1, 0], [2], [3, 2]],
]


def corpus():
    out = []
    for g in FIXED:
        good = _good_tips(g)
        for t, s in itertools.product(good[:5] + [None], good[:5] + [None]):
            for op in ("pull", "push"):
                out.append({"kind": "op", "op": op, "g": g, "tgt": t, "tgt_ao": False, "master": None,
                            "src": s, "stop": None, "overwrite": "F"})
    g = FIXED[0]
    # every overwrite shape x pull/push on diverged (4 vs 5), descendant (1 -> 4), contained, with and without
    # append-only; null: as stop revision; empty source / empty target
    for shape in OVERWRITE:
        for op in ("pull", "push"):
            for t, s_, stop, ao in ((4, 5, None, False), (1, 4, None, False), (4, 1, None, False), (3, 4, None, True),
                                    (4, 5, "null", False), (4, 5, "null", True), (None, 5, "null", True),
                                    (4, None, None, False), (None, None, None, True), (None, 4, None, True)):
                out.append({"kind": "op", "op": op, "g": g, "tgt": t, "tgt_ao": ao, "master": None,
                            "src": s_, "stop": stop, "overwrite": shape})
            out.append({"kind": "op", "op": op, "g": g, "tgt": 4, "tgt_ao": False, "master": {"tip": 4, "ao": True},
                        "src": 5, "stop": "null", "overwrite": shape})
    for via in AO_VIA:
        for op in ("pull", "push"):
            # diverged + overwrite, stop onto a side branch, backwards with overwrite, null:, plain descendant
            for t, s_, stop, shape in ((4, 5, None, "T"), (4, 5, None, "history"), (3, 4, None, "F"), (4, 1, 1, "T"),
                                       (4, 5, "null", "both"), (1, 4, None, "F"), (4, 5, None, "tags")):
                out.append({"kind": "op", "op": op, "g": g, "tgt": t, "tgt_ao": True, "tgt_ao_via": via, "master": None,
                            "src": s_, "stop": stop, "overwrite": shape})
            out.append({"kind": "op", "op": op, "g": g, "tgt": 4, "tgt_ao": via == "global", "tgt_ao_via": via,
                        "master": {"tip": 4, "ao": True, "ao_via": via}, "src": 5, "stop": None, "overwrite": "T"})
    for via in ("branch", "locations", "global"):
        for new in (None, 1, 2, 3, 4, 5):
            out.append({"kind": "setinfo", "g": g, "tgt": 4, "tgt_ao": True, "tgt_ao_via": via, "new": new})
            out.append({"kind": "genhist", "g": g, "tgt": 4, "tgt_ao": True, "tgt_ao_via": via, "new": new})
    for ao in (False, True):
        for t in (None, 1, 3, 4):
            for new in (None, 0, 2, 3, 4, 5):
                out.append({"kind": "setinfo", "g": g, "tgt": t, "tgt_ao": ao, "new": new})
            for new in (None, 0, 2, 3, 4, 5, 6):
                out.append({"kind": "genhist", "g": g, "tgt": t, "tgt_ao": ao, "new": new})
    for ow, ao in itertools.product(("F", "T"), repeat=2):
        ao = ao == "T"
        for stop in range(len(g)):
            out.append({"kind": "op", "op": "pull", "g": g, "tgt": 3, "tgt_ao": ao, "master": None,
                        "src": 4, "stop": stop, "overwrite": ow})
            out.append({"kind": "op", "op": "push", "g": g, "tgt": 1, "tgt_ao": ao,
                        "master": {"tip": 3, "ao": False}, "src": 4, "stop": stop, "overwrite": ow})
    return out


def cases(rng, tier):
    # exhaustive kernel domain: heads() answers over {a, b, 7}
    for a, b in ((0, 1), (1, 0), (0, 0)):
        for k in range(4):
            for h in itertools.combinations(sorted({a, b, 7}), k):
                for fn in ("rel", "check"):
                    yield {"kind": "rel", "fn": fn, "h": list(h), "a": a, "b": b}
    ndag, nops, maxn = (30, 14, 10) if tier == "quick" else (300, 22, 16)
    dags = list(FIXED)
    for _ in range(ndag):
        dags.append(daglib.gen_dag(rng, rng.randint(2, maxn)))
    for g in dags:
        n = len(g)
        ghosts = sorted({p for ps in g for p in ps if p >= n})
        for _ in range(3):
            keys = [rng.choice(list(range(n)) + ghosts) for _ in range(rng.randint(1, 4))]
            yield {"kind": "graph", "g": g, "keys": keys, "r": rng.randrange(n)}
        good = _good_tips(g)
        if not good:
            continue
        for _ in range(nops):
            yield _op_case(rng, g)
        # targeted: every relation at least once per graph, append-only on a merged side branch
        t = rng.choice(good)
        desc = [x for x in good if x != t and daglib.is_ancestor(g, t, x)]
        if desc:
            s = rng.choice(desc)
            yield _op_case(rng, g, {"tgt": t, "src": s, "stop": None, "overwrite": "F"})
            yield _op_case(rng, g, {"tgt": t, "src": s, "stop": None, "tgt_ao": True, "master": None})
            yield _op_case(rng, g, {"tgt": t, "src": rng.choice(good), "stop": s, "tgt_ao": True, "overwrite": "T"})
        yield _op_case(rng, g, {"tgt": t, "stop": "null", "tgt_ao": True, "overwrite": rng.choice(["T", "history", "both"])})
        for _ in range(3):
            yield {"kind": "setinfo", "g": g, "tgt": rng.choice(good + [None]), "tgt_ao": rng.random() < 0.6,
                   "tgt_ao_via": rng.choice(["branch", "locations", "global"]), "new": rng.choice(good + [None])}
            yield {"kind": "genhist", "g": g, "tgt": rng.choice(good + [None]), "tgt_ao": rng.random() < 0.6,
                   "tgt_ao_via": rng.choice(["branch", "locations", "global"]),
                   "new": rng.choice(list(range(n)) + [None])}
        div = [x for x in good if not daglib.is_ancestor(g, t, x) and not daglib.is_ancestor(g, x, t)]
        if div:
            s = rng.choice(div)
            yield _op_case(rng, g, {"tgt": t, "src": s, "stop": None, "overwrite": rng.choice(["F", "empty", "tags"])})
            yield _op_case(rng, g, {"tgt": t, "src": s, "stop": None, "overwrite": rng.choice(["T", "history", "both"]), "tgt_ao": False})
            yield _op_case(rng, g, {"tgt": t, "src": s, "stop": None, "overwrite": "tags"})
            yield _op_case(rng, g, {"tgt": t, "src": s, "stop": None, "overwrite": "F",
                                    "master": {"tip": rng.choice(good), "ao": False}})


# ---- implementation driver ---------------------------------------------------------

class _StubGraph:
    def __init__(self, h):
        self.h = h

    def heads(self, keys):
        return set(self.h)


def _source(g):
    """The source branch (one per graph, in a repository holding the whole graph)."""
    from breezy.transport import get_transport
    key = json.dumps(g)
    if key not in _state["cache"]:
        if len(_state["cache"]) > 4:
            # memory transports scan all stored paths: keep the server small
            root = get_transport(_state["url"])
            for old in _state["cache"].values():
                root.delete_tree(old.base[len(_state["url"]):].strip("/"))
            _state["cache"].clear()
        _state["n"] += 1
        t = get_transport(_state["url"] + "src%d" % _state["n"])
        t.ensure_base()
        _state["cache"][key] = daglib.build_history(g, t)
    return _state["cache"][key]


def _set_tip(br, g, tip):
    br.lock_write()
    try:
        if tip is None:
            br.set_last_revision_info(0, b"null:")
        else:
            br.set_last_revision_info(daglib.revno_of(g, tip), rid(tip))
    finally:
        br.unlock()


# How "append-only history enabled" is realised.  append_revisions_only is a branch config option and can be
# set in the branch's own branch.conf (set_append_revisions_only, or at creation), in a locations.conf section
# for the branch or for a directory above it (a site policy), or globally in breezy.conf.
AO_VIA = ("branch", "init", "locations", "locations_parent", "global")


def _via(d, key):
    return d.get(key) or "branch"


def _new_branch(srcrepo, g, tip, ao, via="branch"):
    from breezy import config, controldir
    from breezy.transport import get_transport
    _state["n"] += 1
    rel = "b%d" % _state["n"]
    if ao and via == "locations_parent":
        get_transport(_state["url"] + "p%d" % _state["n"]).ensure_base()
        rel = "p%d/b%d" % (_state["n"], _state["n"])
    cd = controldir.ControlDir.create(_state["url"] + rel,
                                      format=controldir.format_registry.make_controldir("2a"))
    cd.create_repository()
    br = cd.create_branch(append_revisions_only=True) if ao and via == "init" else cd.create_branch()
    if tip is not None:
        br.repository.fetch(srcrepo, revision_id=rid(tip))
    _set_tip(br, g, tip)
    if ao:
        if via == "branch":
            br.set_append_revisions_only(True)
        elif via == "locations":
            config.LocationStack(br.base).set("append_revisions_only", True)
            _state.setdefault("undo", []).append(("loc", br.base))
        elif via == "locations_parent":
            parent = _state["url"] + rel.split("/")[0] + "/"
            config.LocationStack(parent).set("append_revisions_only", True)
            _state.setdefault("undo", []).append(("loc", parent))
        elif via == "global":
            if not any(u == ("glob", None) for u in _state.get("undo", [])):
                config.GlobalStack().set("append_revisions_only", True)
                _state.setdefault("undo", []).append(("glob", None))
        # setup check through the documented mechanism (the branch's config stack), not through the
        # accessor under test
        if Branch_open(br.base).get_config_stack().get("append_revisions_only") is not True:
            raise AssertionError("append_revisions_only not visible in the branch config stack via %s" % via)
    br._rel = rel.split("/")[0]
    return br


def Branch_open(url):
    from breezy.branch import Branch
    return Branch.open(url)


def _undo_config():
    from breezy import config
    for kind, where in _state.pop("undo", []):
        stack = config.GlobalStack() if kind == "glob" else config.LocationStack(where)
        try:
            stack.remove("append_revisions_only")
        except KeyError:
            pass


def _drop(*branches):
    from breezy.transport import get_transport
    root = get_transport(_state["url"])
    for b in branches:
        if b is not None:
            root.delete_tree(b._rel)


def _info(br):
    revno, revid = br.last_revision_info()
    return [revno, idx(revid)]


EXPECTED = ("DivergedBranches", "AppendRevisionsOnlyViolation", "GhostRevisionsHaveNoRevno", "RevisionNotPresent")


def impl(inp):
    import breezy.bzr  # noqa: F401
    from breezy.branch import Branch
    from breezy import errors
    kind = inp["kind"]
    if kind == "rel":
        a, b, graph = rid(inp["a"]), rid(inp["b"]), _StubGraph({rid(x) for x in inp["h"]})
        try:
            if inp["fn"] == "rel":
                return Tag(Branch._revision_relations(None, a, b, graph))
            return bool(Branch._check_if_descendant_or_diverged(Branch.__new__(Branch), a, b, graph, None))
        except errors.DivergedBranches:
            return Err("DivergedBranches")
        except AssertionError:
            return Err("AssertionError")
    g = inp["g"]
    src = _source(g)
    if kind == "graph":
        import vcsgraph.errors
        from vcsgraph.errors import RevisionNotPresent
        r = rid(inp["r"])
        src.lock_read()
        try:
            gr = src.repository.get_graph()
            hs = sorted(idx(x) for x in gr.heads([rid(k) for k in inp["keys"]]))
            anc = sorted(idx(x) for x in gr.find_unique_ancestors(r, []) if x != b"null:")
            lh = []
            try:
                for x in gr.iter_lefthand_ancestry(r):
                    if x != b"null:":
                        lh.append(idx(x))
            except RevisionNotPresent as e:
                lh.append(idx(e.revision_id))     # the ghost the walk ran into
            try:
                dist = gr.find_distance_to_null(r, [])
            except vcsgraph.errors.GhostRevisionsHaveNoRevno:
                dist = None
        finally:
            src.unlock()
        return [hs, anc, lh, dist]
    if kind in ("setinfo", "genhist"):
        tgt = _new_branch(src.repository, g, inp["tgt"], False)
        tgt.repository.fetch(src.repository)          # the whole graph: the new revision must be present
        rel = tgt._rel
        if inp["tgt_ao"]:
            via = _via(inp, "tgt_ao_via")
            if via in ("branch", "init", "locations_parent"):
                tgt.set_append_revisions_only(True)     # (creation-time / parent-directory variants: op cases)
            else:
                from breezy import config
                stack = config.GlobalStack() if via == "global" else config.LocationStack(tgt.base)
                stack.set("append_revisions_only", True)
                _state.setdefault("undo", []).append(("glob", None) if via == "global" else ("loc", tgt.base))
            tgt = Branch.open(tgt.base)
            tgt._rel = rel
        new = inp["new"]
        try:
            if kind == "setinfo":
                tgt.set_last_revision_info(daglib.revno_of(g, new), b"null:" if new is None else rid(new))
            else:
                tgt.generate_revision_history(b"null:" if new is None else rid(new))
            out = [Tag("ok"), _info(Branch.open(tgt.base))]
        except Exception as e:
            if type(e).__name__ not in EXPECTED:
                raise
            out = [Err(type(e).__name__), _info(Branch.open(tgt.base))]
        finally:
            _undo_config()
        _drop(tgt)
        return out
    # kind == "op"
    _set_tip(src, g, inp["src"])
    master = None
    if inp["master"] is not None:
        master = _new_branch(src.repository, g, inp["master"]["tip"], inp["master"]["ao"], _via(inp["master"], "ao_via"))
    tgt = _new_branch(src.repository, g, inp["tgt"], inp["tgt_ao"], _via(inp, "tgt_ao_via"))
    if master is not None:
        tgt.set_bound_location(master.base)
    stop = None if inp["stop"] is None else b"null:" if inp["stop"] == "null" else rid(inp["stop"])
    overwrite = OVERWRITE[_ow(inp)][0]()
    status = Tag("ok")
    try:
        if inp["op"] == "pull":
            tgt.pull(src, overwrite=overwrite, stop_revision=stop)
        else:
            src.push(tgt, overwrite=overwrite, stop_revision=stop)
    except Exception as e:
        if type(e).__name__ not in EXPECTED:
            raise
        status = Err(type(e).__name__)
    finally:
        _undo_config()
    out = [status, _info(Branch.open(tgt.base)), None if master is None else _info(Branch.open(master.base))]
    _drop(tgt, master)      # the memory server keeps everything: drop this case's branches
    return out


# ---- model term ----------------------------------------------------------------------

def _coq_branch(g, tip):
    if tip is None:
        return "(mkB None 0)"
    return f"(mkB (Some {tip}) {daglib.revno_of(g, tip)})"


def model_term(inp):
    kind = inp["kind"]
    if kind == "rel":
        f = "run_rel" if inp["fn"] == "rel" else "run_check"
        return f"{f} {coq_list(inp['h'], str)} {inp['a']} {inp['b']}"
    g = daglib.coq_dag(inp["g"])
    if kind == "graph":
        return f"run_graph {g} {coq_list(inp['keys'], str)} {inp['r']}"
    if kind in ("setinfo", "genhist"):
        b, ao, new = _coq_branch(inp["g"], inp["tgt"]), coq_bool(inp["tgt_ao"]), coq_option(inp["new"], str)
        if kind == "setinfo":
            return f"run_setinfo {g} {b} {ao} {daglib.revno_of(inp['g'], inp['new'])} {new}"
        return f"run_genhist {g} {b} {ao} {new}"
    m = inp["master"]
    master = "None" if m is None else f"(Some ({_coq_branch(inp['g'], m['tip'])}, {coq_bool(m['ao'])}))"
    w = f"(mkW {_coq_branch(inp['g'], inp['tgt'])} {coq_bool(inp['tgt_ao'])} {master})"
    op = "Pull" if inp["op"] == "pull" else "Push"
    stop = "NoStop" if inp["stop"] is None else "StopNull" if inp["stop"] == "null" else f"(StopAt {inp['stop']})"
    return (f"run_case_x {op} {g} {w} {_coq_branch(inp['g'], inp['src'])} {stop} {OVERWRITE[_ow(inp)][1]}")


def impl_obs(inp, obs):
    if inp["kind"] in ("setinfo", "genhist") and not isinstance(obs, Err) and isinstance(obs[0], Err):
        return [obs[0]]      # the model's error carries no state; "unchanged" is the oracle's business
    return obs


# ---- the property itself, on the implementation's observation -----------------------------

def _expect_move(g, tip, ao, s):
    """Setting the tip of a branch at `tip` to s (None = null:): ('ok', s) or ('err', name)."""
    if s is None:
        if ao and tip is not None:
            return ("err", "AppendRevisionsOnlyViolation")   # a non-empty append-only branch never becomes empty
        return ("ok", None)
    if not daglib.lefthand_present(g, s):
        return ("err", "GhostRevisionsHaveNoRevno")
    if ao and tip is not None and tip not in daglib.lefthand(g, s):
        return ("err", "AppendRevisionsOnlyViolation")
    return ("ok", s)


def _expect_one(g, tip, ao, src, stop, ow):
    """What the property demands of one branch: ('ok', new_tip) or ('err', name).
    ow = may history be overwritten ("history" in the normalised overwrite argument)."""
    if stop is None and src is None:
        return ("ok", tip)                           # nothing to pull
    s = None if stop == "null" else stop if stop is not None else src
    if not ow:
        if s is None:
            return ("ok", tip)                       # null: is contained in every branch
        if tip is not None:
            if daglib.is_ancestor(g, s, tip):
                return ("ok", tip)                   # already contained: unchanged
            if not daglib.is_ancestor(g, tip, s):
                return ("err", "DivergedBranches")   # diverged: must fail
    return _expect_move(g, tip, ao, s)               # descendant (or overwrite): moves


def oracle(inp, obs):
    if isinstance(obs, Err) and str(obs).startswith("DRIVER:"):
        return "driver error " + str(obs)
    kind = inp["kind"]
    if kind == "rel":
        a, b, h = inp["a"], inp["b"], set(inp["h"])
        want = ("b_descends_from_a" if h == {b} else "diverged" if h == {a, b}
                else "a_descends_from_b" if h == {a} else None)
        if inp["fn"] == "rel":
            got = str(obs) if not isinstance(obs, Err) else None
            return None if got == want else f"heads={sorted(h)} a={a} b={b}: relation {obs!r}, expected {want!r}"
        wantc = {"b_descends_from_a": True, "a_descends_from_b": False}.get(want, Err("DivergedBranches") if want else Err("AssertionError"))
        return None if obs == wantc and type(obs) is type(wantc) else f"heads={sorted(h)} a={a} b={b}: check gave {obs!r}, expected {wantc!r}"
    if kind == "graph":
        return None
    g = inp["g"]
    if kind in ("setinfo", "genhist"):
        status, info = obs
        want = _expect_move(g, inp["tgt"], inp["tgt_ao"], inp["new"])
        if kind == "setinfo" and want == ("err", "GhostRevisionsHaveNoRevno"):
            want = ("ok", inp["new"])
        got = "ok" if not isinstance(status, Err) else str(status)
        if got != (want[1] if want[0] == "err" else "ok"):
            return f"{kind}({inp['new']}) on a branch at {inp['tgt']} (append_only={inp['tgt_ao']}) finished with {got}, the property demands {want}"
        want_tip = want[1] if want[0] == "ok" else inp["tgt"]
        if info != [daglib.revno_of(g, want_tip), want_tip]:
            return f"{kind}({inp['new']}): branch is at {info} after {got}, the property demands tip {want_tip} with revno {daglib.revno_of(g, want_tip)}"
        return None
    status, tinfo, minfo = obs
    ow = _ow_history(inp)
    m = inp["master"]
    # what should happen, master first
    want_status, want_t, want_m = "ok", inp["tgt"], (m["tip"] if m else None)
    if m is not None:
        r = _expect_one(g, m["tip"], m["ao"], inp["src"], inp["stop"], ow)
        if r[0] == "err":
            want_status = r[1]
        else:
            want_m = r[1]
    if want_status == "ok":
        r = _expect_one(g, inp["tgt"], inp["tgt_ao"], inp["src"], inp["stop"], ow)
        if r[0] == "err":
            want_status = r[1]
        else:
            want_t = r[1]
    got_status = "ok" if not isinstance(status, Err) else str(status)
    if got_status != want_status:
        return f"{inp['op']} finished with {got_status}, the property demands {want_status}"
    if tinfo[1] != want_t:
        return f"target tip is {tinfo[1]} after {got_status}, the property demands {want_t} (was {inp['tgt']})"
    if m is not None and minfo[1] != want_m:
        return f"master tip is {minfo[1]} after {got_status}, the property demands {want_m} (was {m['tip']})"
    for name, info, old, ao in (("target", tinfo, inp["tgt"], inp["tgt_ao"]),) + \
            ((("master", minfo, m["tip"], m["ao"]),) if m else ()):
        if info[0] != daglib.revno_of(g, info[1]):
            return f"{name} records revno {info[0]} for tip {info[1]} whose left-hand history has length {daglib.revno_of(g, info[1])}"
        if old is not None and not ow and (info[1] is None or not daglib.is_ancestor(g, old, info[1])):
            return f"{name}: old tip {old} is not in the ancestry of the new tip {info[1]} (history dropped without overwrite)"
        if ao and old is not None and (info[1] is None or old not in daglib.lefthand(g, info[1])):
            return f"{name} is append-only but its new tip {info[1]} lacks the old tip {old} on its left-hand history"
    return None


def finding_matches(fid, inp, obs, why):
    return False


def nontrivial(inp, obs):
    if inp["kind"] in ("setinfo", "genhist"):
        return inp["tgt"] is not None and inp["new"] != inp["tgt"]
    return inp["kind"] == "op" and inp["tgt"] is not None and inp["src"] is not None and \
        (inp["stop"] if inp["stop"] is not None else inp["src"]) != inp["tgt"]


def distribution(inputs, observations):
    d = {"rel": 0, "graph": 0, "op": 0, "setinfo": 0, "genhist": 0, "null_stop": 0, "overwrite_shape": {}, "pull": 0, "push": 0, "bound": 0, "append_only": 0, "overwrite": 0,
         "with_stop": 0, "graphs_with_ghosts": 0, "status": {}, "relation": {}, "graph_size": {}}
    for i, o in zip(inputs, observations):
        d[i["kind"]] += 1
        if i["kind"] != "op":
            continue
        g = i["g"]
        d[i["op"]] += 1
        d["bound"] += i["master"] is not None
        d["append_only"] += bool(i["tgt_ao"])
        if i["tgt_ao"]:
            d.setdefault("append_only_via", {})
            d["append_only_via"][_via(i, "tgt_ao_via")] = d["append_only_via"].get(_via(i, "tgt_ao_via"), 0) + 1
        d["overwrite"] += _ow_history(i)
        d["overwrite_shape"][_ow(i)] = d["overwrite_shape"].get(_ow(i), 0) + 1
        d["with_stop"] += i["stop"] is not None
        d["null_stop"] += i["stop"] == "null"
        d["graphs_with_ghosts"] += any(p >= len(g) for ps in g for p in ps)
        st = "ok" if not isinstance(o, Err) and not isinstance(o[0], Err) else str(o[0] if not isinstance(o, Err) else o)
        d["status"][st] = d["status"].get(st, 0) + 1
        s = None if i["stop"] == "null" else i["stop"] if i["stop"] is not None else i["src"]
        t = i["tgt"]
        rel = ("null" if s is None or t is None else "same" if s == t else
               "descendant" if daglib.is_ancestor(g, t, s) else "contained" if daglib.is_ancestor(g, s, t) else "diverged")
        d["relation"][rel] = d["relation"].get(rel, 0) + 1
        k = str(len(g))
        d["graph_size"][k] = d["graph_size"].get(k, 0) + 1
    return d


def shrink(inp, fails):
    if inp["kind"] != "op":
        return inp
    # the framework may call this after teardown(): then every candidate "fails" with a driver
    # error and shrinking would produce a misleading input -- detect that with a case that cannot fail
    if fails({"kind": "graph", "g": [[]], "keys": [0], "r": 0}):
        return inp
    cur = dict(inp)
    for key, val in (("master", None),):
        cand = dict(cur, **{key: val})
        if cand != cur and fails(cand):
            cur = cand
    # drop revisions from the tip of the graph while the failure persists
    while len(cur["g"]) > 1:
        n = len(cur["g"]) - 1
        used = [cur["tgt"], cur["src"], cur["stop"] if cur["stop"] != "null" else None] + ([cur["master"]["tip"]] if cur["master"] else [])
        if n in used:
            break
        cand = dict(cur, g=cur["g"][:-1])
        if not daglib.wf(cand["g"]) or any(p == n for ps in cand["g"] for p in ps):
            break
        if not fails(cand):
            break
        cur = cand
    return cur
