"""C06 -- Aborted and suspended write groups have no visible effect until committed (tie H).

Random write-group scripts (start / insert record / abort / suspend / resume tokens /
commit / reopen) are run through the REAL Repository API
(start_write_group, <vf>.insert_record_stream, abort_write_group, suspend_write_group,
resume_write_group, commit_write_group) on real 2a (plain and stacked) and pack-0.92
repositories in a scratch directory, and through coq/Model/WriteGroup.v.  After every
operation a FRESH repository object reads what is visible on disk.

Items (see Model/WriteGroup.v): revisions 1..4, inventories 11..14, chk id_to_entry roots
21..24, chk parent_id_basename root 30, texts 40..45, signatures 51,52 -- records of a fixed
source repository (r1; r2,r3 children of r1; r4 = merge(r2,r3)) copied with get_record_stream.
"""
import os
import re
import shutil

from vlib import Tag, Err, coq_N, coq_list

PROP = "C06"
COQ = {
    "property_file": "Properties/C06.v",
    "imports": "From BV Require Import Model.WriteGroup.",
}
META = {
    "level": "proof",
    "title": "Aborted and suspended write groups have no visible effect until committed",
    "technique": ("Coq theorems (induction over arbitrary insertion sequences, state invariant over arbitrary operation "
                  "sequences) about a hand model of the pack write-group state machine + machine-checked refutations + "
                  "differential run of random write-group scripts through the real Repository API on 2a / 2a-stacked / "
                  "pack-0.92 repositories"),
    "level_text": ("partial: proved for the state-machine core (start / insert / abort / suspend / resume tokens / commit with "
                   "the refusal checks get_missing_compression_parent_keys and _check_new_inventories / reopen): abort "
                   "leaves pack-names, upload/ and the visible keys unchanged for every insertion sequence; "
                   "suspend+reopen+resume+commit = commit for every group built on a fresh object (2a and knit), guarded otherwise; a refused commit "
                   "changes nothing on disk; an accepted commit yields compression-closed (knit) / inventory-chk-text "
                   "complete (2a) content; a faulting abort (deletes on upload/ fail) of any group leaves nothing visible. "
                   "Two statements stay refuted in the model and reproduce on the real code (finding "
                   "C06-knit-stale-missing-parents); the findings repaired by /repo 3775d0a and 8028393 are now theorems "
                   "and regression inputs. Pack file "
                   "formats, indices, autopack and the Rust knit/groupcompress code are covered only by the "
                   "correspondence run."),
    "level_note": ("Trusted: Coq kernel, vm_compute, the hand model's correspondence (bounded sampling of scripts), the "
                   "environment model of the knit index's missing-compression-parent memory and of Pack.finish's "
                   "reference check (both validated only by the correspondence run)."),
    "design_ref": "DESIGN.md §5 C06",
    "trusted_base": ["hand model coq/Model/WriteGroup.v of breezy/bzr/pack_repo.py write-group methods, "
                     "breezy/repository.py wrappers and groupcompress_repo._check_new_inventories",
                     "correspondence harness harness/props/c06.py"],
    "assumptions": [
        "pack names are content hashes of the inserted record sequence (equal name <=> equal sequence)",
        "bzrformats _KnitGraphIndex keeps a per-object set of missing compression parents: added when a delta whose basis "
        "is absent is inserted or (scan_unvalidated_index) a resumed pack holds one, removed when the key is inserted, "
        "never cleared (modelled field mcp)",
        "bzrformats Pack.finish/_check_references raises BzrCheckError when a knit pack has a delta whose basis is in no "
        "index of the repository; groupcompress packs have no external references",
        "CHK maps are single leaf pages (<= 3 entries); an inventory entry is identified by its text key",
        "groupcompress get_missing_compression_parent_keys() is always empty",
        "single writer: no concurrent process touches the repository (see C05)"],
    "rule": ("random scripts of 4-16 operations guided by a simulation (mostly-valid inserts, complete and incomplete "
             "revisions, bad/stale/extra tokens, misuse), plus twin scripts (suspend/resume removed, aborted group removed); "
             "non-trivial = a commit was refused or a write group was suspended/resumed/aborted after inserts"),
}
SHARD = 60

_state = {}
FMTS = {"2a": ("2a", 0, False), "2a-stacked": ("2a", 0, True), "knit": ("pack-0.92", 1, False)}

# ---- the catalog (mirror of cat_2a / cat_knit in Model/WriteGroup.v) ----
INVPAR = {12: [11], 13: [11], 14: [12, 13]}
ENTRIES = {21: [40, 41, 42], 22: [40, 43, 42], 23: [40, 41, 44], 24: [40, 45, 44]}
COMP_KNIT = {12: 11, 13: 11, 14: 12, 43: 41, 44: 42, 45: 43}
REV_TEXTS = {1: [40, 41, 42], 2: [43], 3: [44], 4: [45]}


def items_of(fmt):
    base = [1, 2, 3, 4, 11, 12, 13, 14, 41, 42, 43, 44, 45, 51, 52]
    return base + ([21, 22, 23, 24, 30, 40] if fmt != "knit" else [])


def is_rev(k):
    return k < 10


class Sim:
    """Python mirror of Model/WriteGroup.v [step]; used ONLY to guide generation and in finding predicates."""

    def __init__(self, fmt):
        self.gc = fmt != "knit"
        self.listed, self.upload = [], []
        self.wg = None           # [new, res]
        self.mcp, self.newrevs, self.broken = [], [], False

    def visible(self):
        return [k for p in self.listed for k in p]

    def view(self):
        v = self.visible()
        if self.wg:
            v = v + [k for p in self.wg[1] for k in p] + list(self.wg[0])
        return v

    def comp(self, k):
        return None if self.gc else COMP_KNIT.get(k)

    def check_inv(self):
        v = self.view()
        corr = [r + 10 for r in self.newrevs]
        if any(i not in v for i in corr):
            return False
        all0 = []
        for i in corr + [p for i in corr for p in INVPAR.get(i, [])]:
            if i not in all0:
                all0.append(i)
        al = [i for i in all0 if i in v]
        ponly = [i for i in al if i not in corr]
        if any(c not in v for i in al for c in (i + 10, 30)):
            return False
        un_roots = [i + 10 for i in ponly]
        in_roots = [i + 10 for i in corr if i + 10 not in un_roots]
        un_items = [t for c in un_roots for t in ENTRIES.get(c, [])]
        tk = [t for c in in_roots for t in ENTRIES.get(c, []) if t not in un_items]
        return all(t in v for t in tk)

    def refs_ok(self, v, p):
        return self.gc or all(self.comp(k) is None or self.comp(k) in v for k in p)

    def true_missing(self):
        v = self.view()
        w = self.wg or [[], []]
        its = [k for p in w[1] for k in p] + list(w[0])
        return sorted({self.comp(k) for k in its if self.comp(k) is not None and self.comp(k) not in v})

    def step(self, op):
        if self.broken:
            return "broken"
        o = op[0]
        if o == "start":
            if self.wg:
                return "BzrError"
            self.wg = [[], []]
            return "ok"
        if o == "ins":
            k = op[1]
            p = self.comp(k)
            if p is not None and p not in self.view() and p not in self.mcp:
                self.mcp.append(p)
            self.mcp = [x for x in self.mcp if x != k]
            self.wg[0].append(k)
            if is_rev(k):
                self.newrevs.append(k)
            return "ok"
        if o == "abort":
            if not self.wg:
                return "BzrError"
            self.upload = [n for n in self.upload if n not in self.wg[1]]
            self.wg, self.newrevs = None, []
            return "ok"
        if o == "suspend":
            new, res = self.wg
            toks = list(res) + ([tuple(new)] if new else [])
            if new and tuple(new) not in self.upload:
                self.upload.append(tuple(new))
            self.wg, self.newrevs = None, []
            return toks
        if o == "resume":
            if self.wg:
                return "BzrError"
            acc = []
            for t in op[1]:
                if not (isinstance(t, (list, tuple)) and tuple(t) in self.upload):
                    self.upload = [n for n in self.upload if n not in acc]
                    self.newrevs = []
                    return "UnresumableWriteGroup"
                if tuple(t) in acc:
                    self.broken = True
                    return "AssertionError"
                acc.append(tuple(t))
            self.wg = [[], acc]
            v = self.view()
            for k in [k for p in acc for k in p]:   # scan_unvalidated_index of all four indices
                c = self.comp(k)
                if c is not None and c not in v and c not in self.mcp:
                    self.mcp.append(c)
            self.newrevs = [k for p in acc for k in p if is_rev(k)]
            return "ok"
        if o == "commit":
            if not self.wg:
                return "BzrError"
            if self.mcp:
                return "BzrCheckError"
            if self.gc and not self.check_inv():
                return "BzrCheckError"
            new, res = self.wg
            v = self.view()
            if not (self.refs_ok(v, new) and all(self.refs_ok(v, p) for p in res)):
                self.broken = True
                return "BzrCheckError:finish"
            self.listed += ([tuple(new)] if new else []) + list(res)
            self.upload = [n for n in self.upload if n not in res]
            self.wg, self.newrevs = None, []
            return "ok"
        if o == "abortf":
            if not self.wg:
                return "BzrError"
            # all clean-up runs although no file could be deleted: resumed packs stay suspended in upload/
            self.wg, self.newrevs = None, []
            return "ok" if op[1] else "NoSuchFile"
        if o == "suspendf":
            self.broken = True
            return "NoSuchFile"
        if o == "reopen":
            if self.wg:
                return "BzrError"
            self.mcp, self.newrevs = [], []
            return "ok"
        raise ValueError(op)


# --------------------------------------------------------------------------
# real repositories
# --------------------------------------------------------------------------
F1 = b"".join(b"line %d of f\n" % i for i in range(40))
G1 = b"".join(b"line %d of g\n" % i for i in range(40))
F2, G3, F4 = F1 + b"f added in r2\n", G1 + b"g added in r3\n", F1 + b"f added in r2\n" + b"f added in r4\n"
SIG = b"-----BEGIN PSEUDO-SIGNED CONTENT-----\nsig of %s\n-----END PSEUDO-SIGNED CONTENT-----\n"


def _mkrepo(path, bzrfmt):
    from breezy import controldir
    os.makedirs(path)
    return controldir.format_registry.make_controldir(bzrfmt).initialize(path).create_repository()


def _open(path):
    from breezy import controldir
    return controldir.ControlDir.open(path).open_repository()


def _build_source(path, bzrfmt):
    from breezy import transport
    from breezy.branchbuilder import BranchBuilder
    os.makedirs(path)
    b = BranchBuilder(transport.get_transport(path), format=bzrfmt)
    b.start_series()
    b.build_snapshot(None, [("add", ("", b"root-id", "directory", None)),
                            ("add", ("f", b"f-id", "file", F1)), ("add", ("g", b"g-id", "file", G1))],
                     revision_id=b"r1")
    b.build_snapshot([b"r1"], [("modify", ("f", F2))], revision_id=b"r2")
    b.build_snapshot([b"r1"], [("modify", ("g", G3))], revision_id=b"r3")
    b.build_snapshot([b"r2", b"r3"], [("modify", ("f", F4)), ("modify", ("g", G3))], revision_id=b"r4")
    b.finish_series()
    repo = b.get_branch().repository
    repo.lock_write()
    repo.start_write_group()
    repo.add_signature_text(b"r1", SIG % b"r1")
    repo.add_signature_text(b"r2", SIG % b"r2")
    repo.commit_write_group()
    repo.unlock()
    return _open(path)


def _catalog(src, gc):
    """item id -> (vf name, key), checked against the tables the Coq model uses."""
    m = {}
    for i in (1, 2, 3, 4):
        m[i] = ("revisions", (b"r%d" % i,))
        m[10 + i] = ("inventories", (b"r%d" % i,))
    m.update({41: ("texts", (b"f-id", b"r1")), 42: ("texts", (b"g-id", b"r1")), 43: ("texts", (b"f-id", b"r2")),
              44: ("texts", (b"g-id", b"r3")), 45: ("texts", (b"f-id", b"r4")),
              51: ("signatures", (b"r1",)), 52: ("signatures", (b"r2",))})
    if gc:
        m[40] = ("texts", (b"root-id", b"r1"))
        pids = set()
        for i in (1, 2, 3, 4):
            inv = src.get_inventory(b"r%d" % i)
            m[20 + i] = ("chk_bytes", tuple(inv.id_to_entry.key()))
            pids.add(tuple(inv.parent_id_basename_to_file_id.key()))
        if len(pids) != 1:
            raise AssertionError("pid roots differ: %r" % (pids,))
        m[30] = ("chk_bytes", pids.pop())
    rev = {v: k for k, v in m.items()}
    # every record of the source is an item and vice versa
    for vf in ("revisions", "inventories", "texts", "signatures") + (("chk_bytes",) if gc else ()):
        for key in getattr(src, vf).keys():
            if (vf, tuple(key)) not in rev:
                raise AssertionError("source has unexpected record %s %r" % (vf, key))
    for k, (vf, key) in m.items():
        if key not in getattr(src, vf).keys():
            raise AssertionError("source lacks %s %r" % (vf, key))
    # inventory parents
    for i in (1, 2, 3, 4):
        pm = src.inventories.get_parent_map([m[10 + i][1]])[m[10 + i][1]]
        if [rev[("inventories", tuple(p))] for p in pm] != INVPAR.get(10 + i, []):
            raise AssertionError("inventory parents of r%d: %r" % (i, pm))
    if gc:
        for i in (1, 2, 3, 4):
            inv = src.get_inventory(b"r%d" % i)
            ents = sorted(rev[("texts", (ie.file_id, ie.revision))] for _p, ie in inv.iter_entries())
            if ents != sorted(ENTRIES[20 + i]):
                raise AssertionError("entries of r%d: %r" % (i, ents))
    else:
        for k, (vf, key) in m.items():
            if vf in ("revisions", "signatures"):
                cp = None
            else:
                cp = getattr(src, vf)._index.get_build_details([key])[key][1]
            got = None if cp is None else rev[(vf, tuple(cp))]
            if got != COMP_KNIT.get(k):
                raise AssertionError("compression parent of item %d is %r, catalog says %r" % (k, got, COMP_KNIT.get(k)))
    return m, rev


def setup(scratch):
    import breezy
    import breezy.bzr  # noqa
    os.environ.setdefault("BRZ_EMAIL", "C06 harness <c06@example.com>")
    _state.clear()
    _state["dir"] = scratch
    _state["n"] = 0
    for name, bzrfmt in (("gc", "2a"), ("knit", "pack-0.92")):
        src = _build_source(os.path.join(scratch, "src-" + name), bzrfmt)
        src.lock_read()
        _state["src-" + name] = src
        _state["cat-" + name] = _catalog(src, name == "gc")
    fb = _mkrepo(os.path.join(scratch, "fallback"), "2a")
    fb.fetch(_state["src-gc"], revision_id=b"r1")
    _state["fallback"] = os.path.join(scratch, "fallback")
    _state["live"] = True


def teardown():
    _state["live"] = False
    for k in ("src-gc", "src-knit"):
        try:
            _state[k].unlock()
        except Exception:
            pass


VFS = ("revisions", "inventories", "texts", "signatures", "chk_bytes")
_HEX = re.compile(r"^[0-9a-f]{32}$")


def _items(repo, rev, nofb):
    out = []
    for vf in VFS:
        v = getattr(repo, vf, None)
        if v is None:
            continue
        if nofb:
            v = v.without_fallbacks()
        for key in v.keys():
            out.append(rev[(vf, tuple(key))])
    return sorted(out)


class _Run:
    def __init__(self, fmt):
        bzrfmt, _n, self.stacked = FMTS[fmt]
        self.gc = fmt != "knit"
        self.src = _state["src-gc" if self.gc else "src-knit"]
        self.cat, self.rev = _state["cat-gc" if self.gc else "cat-knit"]
        _state["n"] += 1
        self.path = os.path.join(_state["dir"], "t%d" % _state["n"])
        _mkrepo(self.path, bzrfmt)
        self.repo = None
        self.open_writer()
        self.tok_name = {}     # real token -> model name (tuple of items)
        self.name_tok = {}
        self.tok_order = []
        self.new_seq = []      # items inserted into the current new pack
        self.res_names = []    # model names of the packs resumed into the current write group

    def open_writer(self):
        if self.repo is not None:
            self.repo.unlock()
        self.repo = _open(self.path)
        if self.stacked:
            self.repo.add_fallback_repository(_open(_state["fallback"]))
        self.repo.lock_write()

    def close(self):
        try:
            if self.repo.is_in_write_group():
                self.repo.abort_write_group(suppress_errors=True)
        except Exception:
            pass
        try:
            self.repo.unlock()
        except Exception:
            pass
        shutil.rmtree(self.path, ignore_errors=True)

    def disk(self):
        r = _open(self.path)
        r.lock_read()
        try:
            vis = _items(r, self.rev, False)
            names = sorted(r._pack_collection.names())
            # every record that is visible must be extractable (no dangling delta, no missing pack file)
            bad = []
            for vf in VFS:
                v = getattr(r, vf, None)
                if v is None:
                    continue
                keys = list(v.keys())
                try:
                    for rec in v.get_record_stream(keys, "unordered", True):
                        rec.get_bytes_as("fulltext")
                except Exception as e:   # noqa
                    bad.append("%s: %s" % (vf, type(e).__name__))
        finally:
            r.unlock()
        rp = os.path.join(self.path, ".bzr", "repository")
        missing_files = [n for n in names if not os.path.exists(os.path.join(rp, "packs", n + ".pack"))]
        return vis, names, bad, missing_files

    def upload(self):
        rp = os.path.join(self.path, ".bzr", "repository", "upload")
        stems, tmp, stray = {}, 0, []
        for f in os.listdir(rp):
            stem, _, ext = f.partition(".")
            if _HEX.match(stem):
                stems.setdefault(stem, set()).add(ext)
            elif ext == "pack" and len(stem) == 20:
                tmp += 1
            else:
                stray.append(f)
        need = {"pack", "rix", "iix", "tix", "six"} | ({"cix"} if self.gc else set())
        sus = []
        for t in self.tok_order:
            if t in stems:
                if stems.pop(t) != need:
                    stray.append(t + ".*incomplete")
                sus.append(list(self.tok_name[t]))
        stray += sorted(stems)
        return sus, tmp, stray

    def do(self, op):
        repo = self.repo
        o = op[0]
        if o == "start":
            repo.start_write_group()
            self.new_seq, self.res_names = [], []
            return Tag("ok")
        if o == "ins":
            vf, key = self.cat[op[1]]
            getattr(repo, vf).insert_record_stream(getattr(self.src, vf).get_record_stream([key], "unordered", False))
            self.new_seq.append(op[1])
            return Tag("ok")
        if o == "abort":
            repo.abort_write_group()
            return Tag("ok")
        if o in ("abortf", "suspendf"):
            # fault injection: every transport operation on upload/ fails while the call runs
            if not repo.is_in_write_group():
                repo.abort_write_group()     # raises the usual BzrError
            up = os.path.join(self.path, ".bzr", "repository", "upload")
            os.rename(up, up + ".away")
            try:
                if o == "abortf":
                    repo.abort_write_group(suppress_errors=bool(op[1]))
                else:
                    repo.suspend_write_group()
            finally:
                os.rename(up + ".away", up)
                if not repo.is_in_write_group():
                    for f in os.listdir(up):   # the temp file whose delete was made to fail
                        if f.endswith(".pack") and len(f) == 25:
                            os.unlink(os.path.join(up, f))
            return Tag("ok")
        if o == "commit":
            repo.commit_write_group()
            return Tag("ok")
        if o == "suspend":
            toks = repo.suspend_write_group()
            names = list(self.res_names) + ([tuple(self.new_seq)] if self.new_seq else [])
            if len(toks) != len(names):
                raise AssertionError("suspend returned %d tokens, expected %d" % (len(toks), len(names)))
            for t, n in zip(toks, names):
                if self.tok_name.setdefault(t, n) != n:
                    raise AssertionError("token %s names two different packs" % t)
                self.name_tok[n] = t
                if t not in self.tok_order:
                    self.tok_order.append(t)
            return [list(n) for n in names]
        if o == "resume":
            real, names = [], []
            for t in op[1]:
                if isinstance(t, list):
                    n = tuple(t)
                    real.append(self.name_tok.get(n, "0123456789abcdef0123456789abcde0"))
                    names.append(n)
                elif t == "malformed":
                    real.append("not-a-token")
                elif t == "ghost":
                    real.append("f" * 32)
                elif t == "trailing":
                    real.append((self.tok_order[0] if self.tok_order else "a" * 32) + "zz")
                else:
                    raise ValueError(t)
            repo.resume_write_group(real)
            self.new_seq, self.res_names = [], names
            return Tag("ok")
        if o == "reopen":
            self.open_writer()
            return Tag("ok")
        raise ValueError(op)

    def _classify(self, op, fn):
        """Run fn(); map the expected exception classes of operation op to a canonical result."""
        from breezy import errors
        from bzrformats.errors import BzrCheckError
        try:
            return fn()
        except BzrCheckError as e:
            return Err("BzrCheckError:finish" if "Newly created pack file" in str(e) else "BzrCheckError")
        except errors.UnresumableWriteGroup:
            return Err("UnresumableWriteGroup")
        except AssertionError as e:
            if op[0] == "start" and "writable index" in str(e):
                return Err("AssertionError:start")
            if op[0] != "resume" or "already in _packs_by_name" not in str(e):
                return Err("UNEXPECTED:AssertionError:%s" % str(e)[:80])
            return Err("AssertionError")
        except errors.BzrError as e:
            if type(e) is not errors.BzrError:
                return Err("UNEXPECTED:%s:%s" % (type(e).__name__, str(e)[:80]))
            return Err("BzrError")
        except Exception as e:
            if op[0] in ("abortf", "suspendf") and type(e).__name__ == "NoSuchFile":
                return Err("NoSuchFile")
            # never silent: the oracle reports it, after checking the operations before it
            return Err("UNEXPECTED:%s:%s" % (type(e).__name__, str(e)[:80]))

    def _with_block(self, op, record):
        """A real `with WriteGroup(repo, suppress_errors):` block: enter, insert, then leave normally or by raising
        an exception of the requested kind (optionally while every transport operation on upload/ fails).
        One trace entry per primitive step of _expand([op])."""
        from breezy.repository import WriteGroup
        _, ks, kind, sup, fault = op
        up = os.path.join(self.path, ".bzr", "repository", "upload")
        st = {"entered": False, "moved": False, "stop": False}
        propagated = None
        try:
            with WriteGroup(self.repo, suppress_errors=bool(sup)):
                st["entered"] = True
                self.new_seq, self.res_names = [], []
                record(["start"], Tag("ok"), None)
                for k in ks:
                    r = self._classify(["ins", k], lambda: self.do(["ins", k]))
                    record(["ins", k], r, None)
                    if str(r).startswith("UNEXPECTED:"):
                        st["stop"] = True
                        break
                if kind != "normal" and not st["stop"]:
                    if fault:
                        os.rename(up, up + ".away")
                        st["moved"] = True
                    raise WITH_EXC[kind]("raised inside the with block")
        except BaseException as e:      # noqa: the block is left by KeyboardInterrupt / SystemExit / GeneratorExit too
            propagated = e
        finally:
            if st["moved"]:
                os.rename(up + ".away", up)
                if not self.repo.is_in_write_group():
                    for f in os.listdir(up):
                        if f.endswith(".pack") and len(f) == 25:
                            os.unlink(os.path.join(up, f))
        if not st["entered"]:
            raise ValueError("with-block could not be entered: %r" % (propagated,))
        if st["stop"]:
            return
        last = _expand([op])[-1]
        if kind == "normal":
            res = Tag("ok") if propagated is None else self._classify(last, lambda: _reraise(propagated))
        else:
            want = "NoSuchFile" if (fault and not sup) else WITH_EXC[kind].__name__
            got = type(propagated).__name__ if propagated is not None else "nothing"
            if got != want:
                res = Err("UNEXPECTED:the with block was left by %s, expected %s" % (got, want))
            else:
                res = Err("NoSuchFile") if want == "NoSuchFile" else Tag("ok")
        record(last, res, {"raised": kind, "propagated": type(propagated).__name__ if propagated is not None else None})

    def run(self, ops):
        trace = []
        state = {"before": self.disk()}

        def record(op, res, extra):
            vis, names, bad, missing = self.disk()
            sus, tmp, stray = self.upload()
            inwg = self.repo.is_in_write_group()
            try:
                view = _items(self.repo, self.rev, self.stacked)
            except Exception as e:
                view = Err("view:" + type(e).__name__)
            tracked = sorted(set(list(self.new_seq) + [k for n in self.res_names for k in n])) if inwg else None
            ex = {"tmp": tmp, "stray": stray, "bad": bad, "missing_files": missing, "tracked": tracked}
            if extra:
                ex.update(extra)
            trace.append([res, vis, names != state["before"][1], sus, inwg, view, ex])
            state["before"] = (vis, names, bad, missing)

        for op in ops:
            if op[0] == "with":
                self._with_block(op, record)
            else:
                record(op, self._classify(op, lambda: self.do(op)), None)
            if trace and str(trace[-1][0]).startswith("UNEXPECTED:"):
                break
        return trace


def _reraise(e):
    raise e


WITH_EXC = {"Exception": ValueError, "KeyboardInterrupt": KeyboardInterrupt, "SystemExit": SystemExit,
            "GeneratorExit": GeneratorExit, "RuntimeError": RuntimeError}
WITH_KINDS = ["normal", "Exception", "KeyboardInterrupt", "SystemExit", "GeneratorExit", "RuntimeError"]


def _expand(ops):
    """["with", items, kind, suppress_errors, fault] = enter a WriteGroup block, insert, leave normally (commit) or by an
    exception of class kind (abort; abortf when the transport fails meanwhile).  Model, simulation and oracle work on
    the primitive steps."""
    out = []
    for op in ops:
        if op[0] == "with":
            _, ks, kind, sup, fault = op
            out.append(["start"])
            out += [["ins", k] for k in ks]
            out.append(["commit"] if kind == "normal" else (["abortf", bool(sup)] if fault else ["abort"]))
        else:
            out.append(op)
    return out


def _ensure_setup():
    """The framework shrinks / replays after teardown(): build a private scratch area then (removed at exit)."""
    d = _state.get("dir")
    if d and os.path.isdir(d) and _state.get("live"):
        return
    import atexit
    import tempfile
    late = tempfile.mkdtemp(prefix="verif-C06-late-", dir=os.environ.get("TMPDIR") or "/tmp")

    def _cleanup():
        teardown()
        shutil.rmtree(late, ignore_errors=True)
    atexit.register(_cleanup)
    setup(late)


def impl(inp):
    _ensure_setup()
    out = {}
    for which in ("ops", "twin"):
        if inp.get(which) is None:
            out[which] = None
            continue
        r = _Run(inp["fmt"])
        try:
            out[which] = r.run(inp[which])
        finally:
            r.close()
    return out


def impl_obs(inp, obs):
    if isinstance(obs, Err):
        return obs
    # where the MODEL stops making claims (its broken flag) only [result, visible, names changed] is compared
    out, sim = [], Sim(inp["fmt"])
    for op, e in zip(_expand(inp["ops"]), obs["ops"]):
        if sim.broken:
            out.append(Tag("broken"))
            continue
        if op[0] in ("ins", "suspend", "suspendf") and sim.wg is None:
            raise ValueError("script leaves the modelled domain: %r outside a write group" % (op,))
        sim.step(op)
        out.append(e[:3] if sim.broken else e[:6])
    return out


def _tok(t):
    return "TBad" if isinstance(t, str) else "(TName %s)" % coq_list(t, coq_N)


def _op(op):
    o = op[0]
    if o == "ins":
        return "(Ins %s)" % coq_N(op[1])
    if o == "resume":
        return "(Resume %s)" % coq_list(op[1], _tok)
    if o == "abortf":
        return "(AbortF %s)" % ("true" if op[1] else "false")
    return {"start": "Start", "abort": "Abort", "suspend": "Suspend", "commit": "Commit", "reopen": "Reopen",
            "suspendf": "SuspendF"}[o]


def model_term(inp):
    return "run_case %s %s" % (coq_N(FMTS[inp["fmt"]][1]), coq_list(_expand(inp["ops"]), _op))


# --------------------------------------------------------------------------
# the property itself, on the implementation
# --------------------------------------------------------------------------
FALLBACK_ITEMS = {1, 11, 21, 30, 40, 41, 42, 51}


def _unreadable(fmt, vis):
    """2a: every visible revision must be fully readable: inventory, both chk roots, and every text its inventory names
    -- except entries it shares with a present inventory whose revision is absent (a parent inventory kept for
    stacking; exactly the exception of theorem C06_accepts_only_complete_2a).  pack-0.92 has no such check."""
    if fmt == "knit":
        return None
    have = set(vis) | (FALLBACK_ITEMS if fmt == "2a-stacked" else set())
    for r in (1, 2, 3, 4):
        if r not in vis:
            continue
        for k in (10 + r, 20 + r, 30):
            if k not in have:
                return "revision %d is visible but its inventory / chk page %d is not" % (r, k)
        for t in ENTRIES[20 + r]:
            if t in have:
                continue
            if not any(q in have and (q - 10) not in have and t in ENTRIES[q + 10] for q in (11, 12, 13, 14) if q != 10 + r):
                return "revision %d is visible but text %d named by its inventory is not (cannot be read back)" % (r, t)
    return None


def _check_trace(fmt, ops, tr):
    prev_vis = []
    wgview = None
    prev_inwg = False
    for i, (op, e) in enumerate(zip(ops, tr)):
        res, vis, changed, sus, inwg, view, ex = e
        where = "after op %d %r: " % (i, op)
        if str(res).startswith("UNEXPECTED:"):
            return where + "unexpected exception " + str(res)[11:]
        if op[0] == "start" and not prev_inwg and isinstance(res, Err):
            return where + "the object cannot start a write group (%s)" % res
        prev_inwg = inwg
        u = _unreadable(fmt, vis)
        if u:
            return where + u
        if ex["bad"]:
            return where + "visible records cannot be extracted: %r" % (ex["bad"],)
        if ex["missing_files"]:
            return where + "pack-names lists packs that are not in packs/: %r" % (ex["missing_files"],)
        ok_commit = op[0] == "commit" and not isinstance(res, Err)
        if ex.get("raised") not in (None, "normal") and (vis != prev_vis or changed):
            return where + ("a `with WriteGroup(repo)` block left by %s COMMITTED its half-filled write group: "
                            "visible %r -> %r" % (ex["raised"], prev_vis, vis))
        if not ok_commit:
            if vis != prev_vis or changed:
                return where + "visible content / pack-names changed by a non-commit or refused operation (%r -> %r)" % (prev_vis, vis)
        else:
            exp = sorted(set(prev_vis) | set(wgview or []))
            if sorted(set(vis)) != exp:
                return where + "commit made %r visible; visible before + write group content is %r" % (vis, exp)
        if op[0] == "abortf" and str(res) in ("ok", "NoSuchFile") and inwg:
            return where + "abort left a write group open"
        if op[0] == "abort" and not isinstance(res, Err):
            if ex["tmp"] or ex["stray"] or inwg:
                return where + "abort left files in upload/ or a write group open: %r" % (ex,)
        if not inwg and view != vis:
            return where + "outside a write group the writer sees %r but %r is committed" % (view, vis)
        wgview = ex["tracked"]
        prev_vis = vis
    return None


def oracle(inp, obs):
    if isinstance(obs, Err):
        return "driver error " + str(obs)
    for which in ("ops", "twin"):
        if obs[which] is not None:
            v = _check_trace(inp["fmt"], _expand(inp[which]), obs[which])
            if v:
                return which + ": " + v
    if obs["twin"] is not None:
        n = inp["tail"]
        a, b = obs["ops"], obs["twin"]
        ra = [(e[0], e[1]) for e in a[len(a) - n:]]
        rb = [(e[0], e[1]) for e in b[len(b) - n:]]
        if ra != rb:
            return "%s twin differs: with %s the last %d operations give %r, without it %r" % (
                inp["twin_kind"], inp["twin_kind"], n, ra, rb)
    return None


def _sim_facts(ops, fmt):
    s = Sim(fmt)
    lost = stale = False
    for op in ops:
        if op[0] == "commit" and s.wg and not s.broken:
            tm = s.true_missing()
            if tm and not s.mcp:
                lost = True
            if sorted(s.mcp) != tm and s.mcp:
                stale = True
        if op[0] in ("ins", "suspend", "suspendf") and not s.wg:
            break
        s.step(op)
    return lost, stale


def finding_matches(fid, inp, obs, why):
    if inp["fmt"] != "knit":
        return False
    facts = [_sim_facts(_expand(inp[w]), inp["fmt"]) for w in ("ops", "twin") if inp.get(w) is not None]
    if fid == "C06-knit-stale-missing-parents":
        return any(f[1] for f in facts)
    return False


# --------------------------------------------------------------------------
# generation
# --------------------------------------------------------------------------
def _rev_items(fmt, r):
    its = [r, 10 + r] + ([20 + r, 30] if fmt != "knit" else []) + REV_TEXTS[r]
    if fmt == "knit":
        its = [k for k in its if k != 40]
    return its


def _gen_ops(rng, fmt, n, sim=None, allow_end=True):
    sim = sim or Sim(fmt)
    ops = []
    pending = []
    used_names = set()

    last = [None]

    def emit(op):
        ops.append(op)
        last[0] = sim.step(op)
        return last[0]

    while len(ops) < n:
        if sim.broken:
            # the model stops here; keep driving the real object so the oracle sees what leaks
            # (after the resume AssertionError the object cannot even start a write group: stop)
            if last[0] == "BzrCheckError:finish" or ops[-1][0] == "suspendf":
                for op in (["abort"], ["start"], ["ins", rng.choice([41, 42, 51])], ["commit"]):
                    ops.append(op)
            break
        if sim.wg is None:
            x = rng.random()
            if x < 0.12:
                w = _gen_with(rng, fmt, sim, used_names)
                if w:
                    ops.append(w)
                    for sub in _expand([w]):
                        last[0] = sim.step(sub)
            elif x < 0.55:
                emit(["start"])
            elif x < 0.80 and (sim.upload or rng.random() < 0.3):
                toks = [list(t) for t in rng.sample(sim.upload, rng.randint(1, len(sim.upload)))] if sim.upload else []
                y = rng.random()
                if y < 0.12:
                    toks.insert(rng.randint(0, len(toks)), rng.choice(["malformed", "ghost", "trailing"]))
                elif y < 0.2 and used_names:
                    toks.append(list(rng.choice(sorted(used_names))))
                if len({tuple(t) if isinstance(t, list) else t for t in toks}) != len(toks):
                    continue      # a token repeated in one list is a malformed request (see notes: limits)
                emit(["resume", toks])
            elif x < 0.90:
                emit(["reopen"])
            elif x < 0.95:
                emit([rng.choice(["commit", "abort"])])
            else:
                emit(["resume", []])
            continue
        view = sim.view()
        if pending:
            k = pending.pop(0)
            if k not in view:
                emit(["ins", k])
            continue
        x = rng.random()
        if x < 0.30:
            cand = [k for k in items_of(fmt) if k not in view]
            if cand:
                emit(["ins", rng.choice(cand)])
        elif x < 0.55:
            r = rng.choice([1, 2, 3, 4])
            its = [k for k in _rev_items(fmt, r) if k not in view]
            if fmt == "2a-stacked" or rng.random() < 0.3:
                its += [k for p in INVPAR.get(10 + r, []) for k in ([p] + ([p + 10, 30] if fmt != "knit" else []))
                        if k not in view and k not in its]
            rng.shuffle(its)
            if its and rng.random() < 0.45:
                its.pop(rng.randrange(len(its)))
            pending = its
        elif x < 0.57:
            emit(["start"])
        else:
            new = tuple(sim.wg[0])
            clash = new and (new in sim.upload or new in sim.listed or new in used_names)
            y = rng.random()
            if y < 0.42 and not clash:
                emit(["commit"])
            elif y < 0.74 and not clash:
                r = emit(["suspend"])
                used_names.update(tuple(t) for t in r)
            elif y < 0.77:
                emit(["suspendf"])
            elif y < 0.88:
                emit(["abortf", rng.random() < 0.6])
            else:
                emit(["abort"])
    return ops, sim


def _gen_with(rng, fmt, sim, used_names=()):
    """A `with WriteGroup(repo, suppress_errors)` block: some inserts, then normal exit or an exception of every kind
    that can leave a with block -- ordinary Exception subclasses and the BaseException-only ones (KeyboardInterrupt,
    SystemExit, GeneratorExit) -- optionally while the transport fails."""
    view = sim.view()
    if rng.random() < 0.5:
        r = rng.choice([1, 2, 3, 4])
        ks = [k for k in _rev_items(fmt, r) if k not in view]
        rng.shuffle(ks)
        if ks and rng.random() < 0.5:
            ks = ks[:rng.randint(1, len(ks))]       # interrupted half way
    else:
        ks = [k for k in rng.sample(items_of(fmt), rng.randint(0, 4)) if k not in view]
    kind = "normal" if rng.random() < 0.25 else rng.choice(WITH_KINDS[1:])
    if kind == "normal" and ks and (tuple(ks) in sim.upload or tuple(ks) in sim.listed or tuple(ks) in used_names):
        return None
    fault = kind != "normal" and rng.random() < 0.15
    return ["with", ks, kind, rng.random() < 0.5, fault]


def _gen_chain(rng, fmt):
    """One write group adding a CHAIN of new revisions that lacks a text / chk page of a NON-TIP revision
    (_check_new_inventories must treat a parent that is itself new as interesting), optionally split by a
    suspend / reopen / resume; then the missing record is supplied and the group committed."""
    chains = [(2, 4), (3, 4)] if fmt == "2a-stacked" else [(1, 2), (1, 3), (1, 2, 4), (1, 3, 4), (2, 4), (1, 2, 3, 4)]
    chain = rng.choice(chains)
    items = []
    for r in chain:
        items += [k for k in _rev_items(fmt, r) if k not in items]
    if fmt == "2a-stacked":
        items = [k for k in items if k not in FALLBACK_ITEMS or k == 30] + [11, 21]
    nontip = [k for r in chain[:-1] for k in REV_TEXTS[r] + ([20 + r] if fmt != "knit" and rng.random() < 0.3 else [])
              if k in items]
    drop = rng.choice(nontip) if nontip else None
    body = [k for k in items if k != drop]
    rng.shuffle(body)
    ops = [["start"]]
    cut = rng.randint(1, len(body) - 1) if rng.random() < 0.4 else None
    for i, k in enumerate(body):
        if i == cut:
            ops += [["suspend"]] + ([["reopen"]] if rng.random() < 0.6 else []) + [["resume", [body[:cut]]]]
        ops.append(["ins", k])
    ops.append(["commit"])
    if drop is not None and rng.random() < 0.7:
        ops += [["ins", drop], ["commit"]]
    else:
        ops.append(["abort"])
    s = Sim(fmt)
    for op in ops:            # keep only scripts inside the modelled domain
        if s.broken or (op[0] == "ins" and s.wg is None):
            return None
        s.step(op)
    return {"fmt": fmt, "ops": ops, "twin": None}


def _twin_sr(rng, fmt):
    """pre ; suspend ; [reopen] ; resume(all tokens) ; post   vs   pre ; post"""
    for _ in range(50):
        pre, sim = _gen_ops(rng, fmt, rng.randint(2, 8))
        if sim.wg is None or sim.broken:
            continue
        new = tuple(sim.wg[0])
        if new and (new in sim.upload or new in sim.listed):
            continue
        toks = list(sim.wg[1]) + ([new] if new else [])
        mid = [["suspend"]] + ([["reopen"]] if rng.random() < 0.5 else []) + [["resume", [list(t) for t in toks]]]
        post = []
        view = sim.view()
        for k in rng.sample(items_of(fmt), rng.randint(0, 3)):
            if k not in view and ["ins", k] not in post:
                post.append(["ins", k])
        post.append(["commit"])
        return {"fmt": fmt, "ops": pre + mid + post, "twin": pre + post, "tail": len(post), "twin_kind": "suspend/resume"}
    return None


def _twin_abort(rng, fmt):
    """pre ; start ; inserts ; [commit] ; abort ; post   vs   pre ; post   (same object, no reopen)"""
    for _ in range(50):
        pre, sim = _gen_ops(rng, fmt, rng.randint(0, 6))
        if sim.wg is not None or sim.broken:
            continue
        view = sim.view()
        ins = [["ins", k] for k in rng.sample(items_of(fmt), rng.randint(1, 4)) if k not in view]
        if not ins:
            continue
        s2 = Sim(fmt)
        for op in _expand(pre) + [["start"]] + ins:
            s2.step(op)
        mid = [["start"]] + ins
        if rng.random() < 0.4:
            if s2.step(["commit"]) != "BzrCheckError":
                continue
            mid.append(["commit"])
        mid.append(["abortf", rng.random() < 0.6] if rng.random() < 0.5 else ["abort"])
        if len(mid) == len(ins) + 2 and rng.random() < 0.4:
            # the aborted group as a with-block left by an exception
            mid = [["with", [o[1] for o in ins], rng.choice(WITH_KINDS[1:]), rng.random() < 0.5, rng.random() < 0.2]]
        post = [["start"]]
        for k in rng.sample(items_of(fmt), rng.randint(1, 3)):
            if k not in view and ["ins", k] not in post:
                post.append(["ins", k])
        post.append(["commit"])
        return {"fmt": fmt, "ops": pre + mid + post, "twin": pre + post, "tail": len(post), "twin_kind": "aborted group"}
    return None


def corpus():
    k = "knit"
    return [
        # repaired by /repo 8028393 (was finding C06-abort-fault-skips-resumed-packs): a faulting abort of a RESUMED
        # group drops the resumed packs from the object; the next commit publishes only its own content
        {"fmt": "2a", "ops": [["start"], ["ins", 51], ["suspend"], ["resume", [[51]]], ["ins", 41], ["abortf", True],
                              ["start"], ["ins", 52], ["commit"], ["resume", [[51]]], ["commit"]], "twin": None},
        {"fmt": k, "ops": [["start"], ["ins", 51], ["suspend"], ["resume", [[51]]], ["ins", 41], ["abortf", False],
                           ["start"], ["ins", 52], ["commit"]], "twin": None},
        # repaired by /repo 3775d0a (was finding C06-knit-resume-forgets-missing-parents): the resumed commit must be
        # a clean refusal, the group stays usable, nothing of it leaks; reverting the repair fails these two cases
        {"fmt": k, "ops": [["start"], ["ins", 43], ["suspend"], ["reopen"], ["resume", [[43]]], ["ins", 42], ["commit"],
                           ["ins", 41], ["commit"]], "twin": None},
        {"fmt": k, "ops": [["start"], ["ins", 43], ["suspend"], ["reopen"], ["resume", [[43]]], ["commit"]],
         "twin": [["start"], ["ins", 43], ["commit"]], "tail": 1, "twin_kind": "suspend/resume"},
        # finding C06-knit-stale-missing-parents: an aborted group makes the next, valid commit fail
        {"fmt": k, "ops": [["start"], ["ins", 43], ["abort"], ["start"], ["ins", 42], ["commit"]],
         "twin": [["start"], ["ins", 42], ["commit"]], "tail": 3, "twin_kind": "aborted group"},
        # repaired by /repo 8028393 (was finding C06-resume-again-on-same-object): the same object resumes a token again
        {"fmt": "2a", "ops": [["start"], ["ins", 41], ["suspend"], ["resume", [[41]]], ["suspend"], ["resume", [[41]]],
                              ["ins", 42], ["commit"]],
         "twin": [["start"], ["ins", 41], ["ins", 42], ["commit"]], "tail": 1, "twin_kind": "suspend/resume"},
        {"fmt": "2a", "ops": [["start"], ["ins", 41], ["suspend"], ["start"], ["ins", 42], ["suspend"], ["resume", [[42]]],
                              ["suspend"], ["resume", [[41], [42]]], ["commit"]], "twin": None},
        {"fmt": k, "ops": [["start"], ["ins", 41], ["suspend"], ["resume", [[41]]], ["abort"], ["resume", [[41]]],
                           ["start"], ["ins", 42], ["commit"]], "twin": None},
        # faulting abort (delete of the new pack fails), with and without suppress_errors: nothing stays visible,
        # the object starts its next group
        {"fmt": k, "ops": [["start"], ["ins", 41], ["ins", 42], ["abortf", True], ["start"], ["ins", 51], ["commit"]],
         "twin": [["start"], ["ins", 51], ["commit"]], "tail": 3, "twin_kind": "aborted group"},
        {"fmt": "2a", "ops": [["start"], ["ins", 1], ["commit"], ["abortf", False], ["start"], ["ins", 41], ["commit"]],
         "twin": None},
        {"fmt": "2a", "ops": [["start"], ["ins", 41], ["suspendf"], ["abort"], ["start"], ["ins", 42], ["commit"]], "twin": None},
        # chain of two new revisions lacking a text of the older one: must be refused
        {"fmt": "2a", "ops": [["start"]] + [["ins", x] for x in (1, 11, 21, 30, 40, 41, 2, 12, 22, 43)] + [["commit"], ["ins", 42],
                              ["commit"]], "twin": None},
        # `with WriteGroup(repo):` blocks (breezy.repository.WriteGroup): normal exit commits, EVERY exception aborts --
        # also the BaseException-only ones (Ctrl-C, SystemExit, GeneratorExit), also while the transport fails
        {"fmt": "2a", "ops": [["with", [41, 42], "KeyboardInterrupt", False, False], ["with", [51], "normal", False, False],
                              ["with", [1, 11], "SystemExit", True, False], ["with", [43], "GeneratorExit", False, True],
                              ["with", [52], "Exception", True, True], ["with", [1], "normal", False, False],
                              ["abort"]], "twin": None},
        {"fmt": k, "ops": [["with", [41, 1, 11], "KeyboardInterrupt", True, False], ["start"], ["ins", 42], ["commit"]],
         "twin": [["start"], ["ins", 42], ["commit"]], "tail": 3, "twin_kind": "aborted group"},
        {"fmt": "2a-stacked", "ops": [["with", [2, 12, 22, 30, 43, 11, 21], "SystemExit", False, False],
                                      ["with", [2, 12, 22, 30, 43, 11, 21], "normal", False, False]], "twin": None},
        # plain behaviour
        {"fmt": k, "ops": [["start"], ["ins", 43], ["commit"], ["ins", 41], ["commit"]], "twin": None},
        {"fmt": "2a", "ops": [["start"], ["ins", 1], ["commit"], ["ins", 11], ["commit"], ["ins", 21], ["ins", 30], ["commit"],
                              ["suspend"], ["reopen"], ["resume", [[1, 11, 21, 30]]], ["commit"], ["ins", 40], ["ins", 41],
                              ["ins", 42], ["commit"]], "twin": None},
        {"fmt": "2a-stacked", "ops": [["start"], ["ins", 2], ["ins", 12], ["ins", 22], ["ins", 30], ["ins", 43], ["commit"],
                                      ["ins", 11], ["ins", 21], ["commit"]], "twin": None},
        {"fmt": "2a", "ops": [["start"], ["ins", 41], ["suspend"], ["start"], ["ins", 42], ["suspend"],
                              ["resume", [[41], "malformed", [42]]], ["resume", [[42]]], ["commit"]], "twin": None},
    ]


def cases(rng, tier):
    n_rand, n_twin, n_chain = (220, 70, 50) if tier == "quick" else (2400, 700, 400)
    fm = ["2a", "2a-stacked", "knit"]
    for i in range(n_rand):
        fmt = fm[i % 3]
        ops, _ = _gen_ops(rng, fmt, rng.randint(4, 16))
        yield {"fmt": fmt, "ops": ops, "twin": None}
    for i in range(n_chain):
        c = _gen_chain(rng, fm[i % 3] if i % 4 else "2a")
        if c:
            yield c
    for i in range(n_twin):
        fmt = fm[i % 3]
        c = (_twin_sr if i % 2 == 0 else _twin_abort)(rng, fmt)
        if c:
            yield c


def nontrivial(inp, obs):
    if isinstance(obs, Err):
        return False
    kinds = {op[0] for op in _expand(inp["ops"])}
    refused = any(isinstance(e[0], Err) and str(e[0]).startswith("BzrCheckError") for e in obs["ops"])
    return refused or (("ins" in kinds) and bool(kinds & {"abort", "suspend", "resume"}))


def distribution(inputs, observations):
    d = {"by_fmt": {}, "ops": {}, "results": {}, "twins": {}, "accepted_commits_with_content": 0}
    for i, o in zip(inputs, observations):
        d["by_fmt"][i["fmt"]] = d["by_fmt"].get(i["fmt"], 0) + 1
        for op in i["ops"]:
            if op[0] == "with":
                d.setdefault("with_blocks", {})
                key = op[2] + ("+fault" if op[4] else "")
                d["with_blocks"][key] = d["with_blocks"].get(key, 0) + 1
        if i.get("twin") is not None:
            d["twins"][i["twin_kind"]] = d["twins"].get(i["twin_kind"], 0) + 1
        if isinstance(o, Err):
            continue
        for op, e in zip(_expand(i["ops"]), o["ops"]):
            d["ops"][op[0]] = d["ops"].get(op[0], 0) + 1
            r = str(e[0]) if isinstance(e[0], (Err, Tag)) else "tokens"
            key = op[0] + ":" + r
            d["results"][key] = d["results"].get(key, 0) + 1
            if op[0] == "commit" and r == "ok" and e[2]:
                d["accepted_commits_with_content"] += 1
    return d


def shrink(inp, fails):
    if inp.get("twin") is not None:
        return inp
    ops = list(inp["ops"])
    changed = True
    while changed:
        changed = False
        for i in range(len(ops)):
            cand = dict(inp, ops=ops[:i] + ops[i + 1:])
            s = Sim(inp["fmt"])
            ok = True
            for op in _expand(cand["ops"]):
                if op[0] in ("ins", "suspend", "suspendf") and s.wg is None or op[0] == "reopen" and s.wg is not None:
                    ok = False
                    break
                if op[0] == "ins" and op[1] in s.view():
                    ok = False
                    break
                s.step(op)
            if ok and fails(cand):
                ops, changed = cand["ops"], True
                break
    return dict(inp, ops=ops)
