"""C24 -- tag transfer never loses or silently rewrites tags.

Tie T: breezy/tag.py:_reconcile_tags is translated on every run by tools/py2coq_dictloop.py into
coq/Gen/ReconcileTags.v; the theorems of Properties/C24.v are re-checked against it.
Tie H: coq/Model/TagStore.v (bencode tag file, InterTags.merge / MemoryTags.merge_to glue) is compared
with the real code on native (2a BasicTags), in-memory (MemoryTags) and git (refs/tags) stores.
"""
import itertools
import os

from vlib import Err, coq_bytes, coq_list, coq_bool, load_known_findings
import py2coq_dictloop

PROP = "C24"
COQ = {
    "property_file": "Properties/C24.v",
    "imports": "From BV Require Import Lib.Bytes Lib.PyDict Gen.ReconcileTags Model.TagStore.",
}
META = {
    "level": "proof",
    "title": "Tag transfer never loses or silently rewrites tags",
    "technique": ("Coq theorems over a model of _reconcile_tags regenerated from tag.py on every run by a Python-ast translator "
                  "(py2coq_dictloop: one dict-items loop -> fold_left over an association list); hand model of the bencode tag "
                  "file with a machine-checked round trip; correspondence on real 2a, git and in-memory tag stores"),
    "level_text": ("_reconcile_tags is translated from the current source into Gallina on every run. For every key/value type with "
                   "decidable equality, every source dict with distinct keys (any size), every destination dict, every selector and "
                   "both overwrite settings: only-in-source added, only-in-destination kept, identical unchanged, differing -> "
                   "destination kept + conflict reported (or source value + update when overwrite), full frame condition, updates "
                   "and conflicts characterised exactly, result[name] in the conflict tuple never a KeyError. The bencode tag file "
                   "(hand model, byte-exact correspondence with _serialize_tag_dict) round-trips every finite map of byte-string "
                   "names to byte-string revision ids. Partial: the transport write/read of the tags file, git ref storage and the "
                   "duplicated reconcile loops in breezy/git/branch.py are covered only by the correspondence run."),
    "level_note": ("Trusted: Coq kernel; tools/py2coq_dictloop.py (validated on every run against the Python function on an exhaustive "
                   "small domain + random unicode dicts, ordered outputs); hand model Model/TagStore.v (correspondence, bounded sampling); "
                   "utf-8 encode/decode of names and fastbencode are environment."),
    "design_ref": "DESIGN.md §5 C24",
    "trusted_base": ["tools/py2coq_dictloop.py (translator; validated on this run against _reconcile_tags itself)",
                     "coq/Lib/PyDict.v as the meaning of Python dicts (insertion-ordered association lists, unique keys)",
                     "hand model coq/Model/TagStore.v of BasicTags._serialize_tag_dict/_deserialize_tag_dict and InterTags.merge",
                     "correspondence harness harness/props/c24.py"],
    "assumptions": ["Python == on tag names / revision ids is an equivalence decided by K_eqb / V_eqb (Section hypotheses)",
                    "dict keys are pairwise different (NoDup hypothesis); revision ids are never None",
                    "selector is None or a truthy callable returning a bool, without side effects",
                    "tag names enter the storage theorem as their utf-8 byte strings: str.encode/bytes.decode are injective inverse "
                    "built-ins (environment); lone surrogates cannot be encoded and are outside the domain",
                    "fastbencode (outside /repo) is the bencode codec modelled in Model/TagStore.v (validated byte-for-byte on this run)",
                    "git stores: names must be valid ref components without '/', revision ids must be commits of the repository "
                    "(per-store validity predicate; rejected share reported in input_distribution)"],
    "rule": ("exhaustive: all src/dst dicts over 2 (quick) or 3 (thorough) names x {absent,2 values} x selectors x overwrite on "
             "_reconcile_tags; random unicode dicts; serialise/deserialise/store; transfers over 10 store combinations incl. bound "
             "branches; non-trivial = source and destination share a name or the selector rejects something"),
}

SPEC = dict(qualname="_reconcile_tags", coq_name="reconcile_tags",
            params={"source_dict": "dict", "dest_dict": "dict", "overwrite": "bool", "selector": "optfn"})


def translate(repo, coqdir):
    return py2coq_dictloop.translate_dictloop(repo, "breezy/tag.py", SPEC, os.path.join(coqdir, "Gen", "ReconcileTags.v"))


# --------------------------------------------------------------------------- generators

NAME_POOL = ["v1.0", "release-2", "ü", "日本語", "tag with space", "a..b", "ä/ö", "",
             "emoji\U0001F600", "x~1", ".hidden", "end.lock", "a:b", "0", "1:a", "e", "d", "i1e", "line\nbreak", "A", "a",
             "é", "é", "tab\there", "\x7f", "@{", "star*", "а"]
REVID_POOL = [b"rev-1", b"rev-2", b"joe@example.com-20240101120000-abcdef0123456789", "rüv".encode(), b"", b"null:",
              b"x" * 40, b"\xff\x00\xfe", b"1:a", b"e", b"de", b"rev-1 "]
GIT_SYMS = [b"GITREV0", b"GITREV1", b"GITREV2", b"GITREV3"]
GHOSTS = [b"ghost-rev-1", b"not-in-the-git-repo"]
_stats = {"git_names_drawn": 0, "git_names_rejected": 0}
_state = {}


def _rand_name(rng):
    if rng.random() < 0.6:
        return rng.choice(NAME_POOL)
    alpha = "ab1.-_ ü日:/~"
    return "".join(rng.choice(alpha) for _ in range(rng.randint(1, 6)))


def git_name_ok(name):
    """Per-store validity predicate for git: what refs/tags/<name> can hold (dulwich check_ref_format),
    minus '/' (directory/file clashes between refs are a storage-layout matter, not modelled)."""
    from dulwich.refs import check_ref_format
    if name == "" or "/" in name:
        return False
    try:
        raw = name.encode("utf-8")
    except UnicodeEncodeError:
        return False
    return bool(check_ref_format(b"refs/tags/" + raw))


def _rand_dict(rng, maxn, names, revids, git=False):
    d = {}
    for _ in range(rng.randint(0, maxn)):
        for _try in range(20):
            n = rng.choice(names) if names and rng.random() < 0.7 else _rand_name(rng)
            if git:
                _stats["git_names_drawn"] += 1
                if not git_name_ok(n):
                    _stats["git_names_rejected"] += 1
                    continue
            break
        else:
            continue
        d[n] = rng.choice(revids)
    items = list(d.items())
    rng.shuffle(items)
    return [[k, v] for k, v in items]


def _rand_sel(rng, names):
    r = rng.random()
    if r < 0.4:
        return None
    k = rng.randint(0, min(3, len(names)))
    return {"neg": rng.random() < 0.4, "names": rng.sample(names, k) if names else []}


KINDS = {
    # kind: (source store, destination store, model merge_kind, native destination?)
    "mem-mem": ("mem", "mem", "MMem", False),
    "mem-native": ("mem", "native", "MMem", True),
    "mem-git": ("mem", "git", "MMem", False),
    "native-native": ("native", "native", "MInter", True),
    "native-bound": ("native", "bound", "MInter", True),
    "native-git": ("native", "git", "MInter", False),
    "git-git": ("git", "git", "MGitGit", False),
    "git-native": ("git", "native", "MInter", True),
    "git-bound": ("git", "bound", "MInter", True),
    # MemoryTags.merge_to towards a bound branch (master updated since commit b75814f)
    "mem-bound": ("mem", "bound", "MMem", True),
}


def _transfer_case(rng, kind):
    s_store, d_store, _inter, _native = KINDS[kind]
    git = "git" in (s_store, d_store)
    revids = GIT_SYMS if git else REVID_POOL
    shared = []
    for _ in range(4):
        n = _rand_name(rng)
        if git:
            _stats["git_names_drawn"] += 1
            if not git_name_ok(n):
                _stats["git_names_rejected"] += 1
                continue
        shared.append(n)
    src = _rand_dict(rng, 5, shared, revids, git)
    dst = _rand_dict(rng, 5, shared, revids, git)
    master = _rand_dict(rng, 5, shared, revids, git) if d_store == "bound" else None
    overwrite = rng.random() < 0.5
    sel = None
    if d_store == "git" and s_store != "git" and rng.random() < 0.3:
        # class "revision absent from the git repository" (known finding C24-git-ghost-tag-reported-not-stored):
        # some source tags, preferably ones the destination also has, point to ghosts; mostly with overwrite
        dnames = [k for k, _ in dst]
        for kv in src:
            if rng.random() < 0.5:
                kv[1] = rng.choice(GHOSTS)
        for n in rng.sample(dnames, min(len(dnames), rng.randint(1, 2))):
            src = [kv for kv in src if kv[0] != n] + [[n, rng.choice(GHOSTS)]]
        overwrite = rng.random() < 0.8
    elif d_store == "bound" and rng.random() < 0.35:
        # class "child already holds every source tag identically, the master does not" (e.g. after a
        # merge_to(child, ignore_master=True), or a master changed independently)
        have = {k for k, _ in src}
        dst = [list(kv) for kv in src] + [kv for kv in dst if kv[0] not in have]
        rng.shuffle(dst)
    else:
        names = sorted({k for k, _ in src} | {k for k, _ in dst})
        sel = _rand_sel(rng, names)
    return {"fn": "transfer", "kind": kind, "src": src, "dst": dst, "master": master,
            "ignore_master": d_store == "bound" and rng.random() < (0.1 if sel is None else 0.3),
            "overwrite": overwrite, "sel": sel}


def _exhaustive_reconcile(names, vals):
    sels = [None, {"neg": False, "names": [names[0]]}, {"neg": False, "names": []}, {"neg": True, "names": [names[-1]]}]
    opts = [None] + list(vals)
    for sv in itertools.product(opts, repeat=len(names)):
        for dv in itertools.product(opts, repeat=len(names)):
            src = [[n, v] for n, v in zip(names, sv) if v is not None]
            dst = [[n, v] for n, v in zip(reversed(names), reversed(dv)) if v is not None]
            for ov in (False, True):
                for sel in sels:
                    yield {"fn": "reconcile", "src": src, "dst": dst, "overwrite": ov, "sel": sel}


def corpus():
    out = [
        # DESIGN 2.10 counterexample shape and one case per branch of the loop
        {"fn": "reconcile", "src": [["a", b"1"]], "dst": [], "overwrite": False, "sel": None},
        {"fn": "reconcile", "src": [["a", b"1"], ["b", b"2"], ["c", b"3"], ["d", b"4"]],
         "dst": [["b", b"2"], ["c", b"31"], ["e", b"5"]], "overwrite": False, "sel": {"neg": True, "names": ["d"]}},
        {"fn": "reconcile", "src": [["c", b"3"]], "dst": [["c", b"31"]], "overwrite": True, "sel": None},
        {"fn": "ser", "d": [["b", b"x"], ["a", b"yy"], ["", b""]]},
        {"fn": "deser", "data": b""},
        {"fn": "deser", "data": b"d1:b1:x1:a1:ye"},
        {"fn": "deser", "data": b"d01:a1:be"},
        {"fn": "deser", "data": b"d1:a1:bex"},
        {"fn": "deser", "data": b"d1:ai5ee"},
        {"fn": "deser", "data": b"i5e"},
        {"fn": "store", "d": [["日本語", "rüv".encode()], ["", b""], ["1:a", b"\xff\x00"]]},
    ]
    # bound destination whose child is already up to date while the master is not: the master must still be reconciled
    for kind in ("native-bound", "git-bound", "mem-bound"):
        rv = GIT_SYMS if kind.startswith("git") else [b"rev-1", b"rev-2", b"rev-3"]
        out.append({"fn": "transfer", "kind": kind, "src": [["v1", rv[0]], ["v2", rv[1]]],
                    "dst": [["v2", rv[1]], ["v1", rv[0]]], "master": [["v2", rv[2]]],
                    "ignore_master": False, "overwrite": False, "sel": None})
        out.append({"fn": "transfer", "kind": kind, "src": [["v1", rv[0]], ["v2", rv[1]]],
                    "dst": [["v2", rv[1]], ["v1", rv[0]]], "master": [["v2", rv[2]]],
                    "ignore_master": False, "overwrite": True, "sel": None})
    known = {e["id"] for e in load_known_findings(PROP)}
    # regression witness of the repaired finding C24-memorytags-merge-ignores-master (commit b75814f): must PASS
    out.append({"fn": "transfer", "kind": "mem-bound", "src": [["v1", b"rev-1"]], "dst": [], "master": [],
                "ignore_master": False, "overwrite": False, "sel": None})
    if "C24-git-ghost-tag-reported-not-stored" in known:
        out.append({"fn": "transfer", "kind": "native-git", "src": [["ghost", b"not-in-the-git-repo"]], "dst": [],
                    "master": None, "ignore_master": False, "overwrite": False, "sel": None})
        # same class, the ghost overwrites / conflicts with a tag the git destination already has: the old tag must survive
        for kind in ("native-git", "mem-git"):
            for ov in (True, False):
                out.append({"fn": "transfer", "kind": kind,
                            "src": [["v1", b"not-in-the-git-repo"], ["v2", GIT_SYMS[1]], ["new", b"ghost-rev-1"]],
                            "dst": [["v1", GIT_SYMS[0]], ["v2", GIT_SYMS[2]], ["keep", GIT_SYMS[3]]],
                            "master": None, "ignore_master": False, "overwrite": ov, "sel": None})
    return out


def cases(rng, tier):
    quick = tier == "quick"
    # 1. translator validation: exhaustive small domain, then random unicode dicts (ordered outputs)
    if quick:
        yield from _exhaustive_reconcile(["a", "b"], [b"1", b"2"])
    else:
        yield from _exhaustive_reconcile(["a", "b", "ü"], [b"1", b"2"])
    for _ in range(300 if quick else 4000):
        shared = [_rand_name(rng) for _ in range(4)]
        src = _rand_dict(rng, 6, shared, REVID_POOL)
        dst = _rand_dict(rng, 6, shared, REVID_POOL)
        names = sorted({k for k, _ in src} | {k for k, _ in dst})
        yield {"fn": "reconcile", "src": src, "dst": dst, "overwrite": rng.random() < 0.5, "sel": _rand_sel(rng, names)}
    # 2. tag file: serialise (byte exact), deserialise (valid + damaged), store on a real branch
    for _ in range(150 if quick else 2000):
        yield {"fn": "ser", "d": _rand_dict(rng, 6, [], REVID_POOL)}
    for _ in range(100 if quick else 1200):
        yield {"fn": "store", "d": _rand_dict(rng, 6, [], REVID_POOL)}
    for _ in range(200 if quick else 3000):
        d = {k: v for k, v in _rand_dict(rng, 4, ["a", "b", "ab", "", "1:a", "e"], [b"x", b"", b"1:a", b"e", b"rev-1"])
             if all(ord(c) < 128 for c in k)}
        data = bytearray(_py_bencode(d))
        r = rng.random()
        if r < 0.3:
            pass
        elif r < 0.5:
            data = data[:rng.randint(0, len(data))]
        elif r < 0.8 and data:
            data[rng.randrange(len(data))] = rng.choice(b"0123456789:deil-ab ")
        elif data:
            i = rng.randrange(len(data) + 1)
            data[i:i] = bytes([rng.choice(b"0123456789:deab")])
        yield {"fn": "deser", "data": bytes(data)}
    # 3. transfers
    per = 60 if quick else 700
    for kind in KINDS:
        for _ in range(per):
            yield _transfer_case(rng, kind)


def _py_bencode(d):
    """reference encoder used only to BUILD deserialiser inputs (not an oracle)"""
    out = b"d"
    for k in sorted(x.encode("utf-8") for x in d):
        v = d[k.decode("utf-8")]
        out += b"%d:%s%d:%s" % (len(k), k, len(v), v)
    return out + b"e"


# --------------------------------------------------------------------------- implementation driver

def setup(scratch):
    import breezy
    import breezy.bzr  # noqa
    import breezy.git  # noqa
    from breezy.controldir import ControlDir, format_registry
    os.environ.setdefault("BRZ_EMAIL", "verif <verif@example.com>")
    _state.clear()
    _state["dir"] = scratch

    def mk(name, fmt):
        path = os.path.join(scratch, name)
        wt = ControlDir.create_standalone_workingtree(path, format=format_registry.make_controldir(fmt))
        return wt, path

    for nm in ("n_src", "n_dst", "n_master", "n_bdst"):
        _wt, _state[nm] = mk(nm, "2a")
    from breezy.branch import Branch
    Branch.open(_state["n_bdst"]).bind(Branch.open(_state["n_master"]))
    wt, _state["g_src"] = mk("g_src", "git")
    revs = [wt.commit("c%d" % i, allow_pointless=True) for i in range(len(GIT_SYMS))]
    _state["g_dst"] = os.path.join(scratch, "g_dst")
    wt.branch.controldir.sprout(_state["g_dst"])
    _state["sym2rev"] = dict(zip(GIT_SYMS, revs))
    _state["rev2sym"] = dict(zip(revs, GIT_SYMS))


def teardown():
    _state.pop("sym2rev", None)


def _real(v):
    return _state.get("sym2rev", {}).get(v, v)


def _sym(v):
    return _state.get("rev2sym", {}).get(v, v)


def _selector(sel):
    if sel is None:
        return None
    names, neg = set(sel["names"]), bool(sel["neg"])
    return lambda n: (n in names) != neg


def _open(which):
    from breezy.branch import Branch
    return Branch.open(_state[which])


def _symdict(d):
    return {k: _sym(v) for k, v in d.items()}


def _impl_transfer(inp):
    from breezy.tag import MemoryTags
    s_store, d_store, _inter, _native = KINDS[inp["kind"]]
    src = {k: _real(v) for k, v in inp["src"]}
    dst = {k: _real(v) for k, v in inp["dst"]}
    master = None if inp["master"] is None else {k: _real(v) for k, v in inp["master"]}
    s_path = {"native": "n_src", "git": "g_src"}.get(s_store)
    d_path = {"native": "n_dst", "bound": "n_bdst", "git": "g_dst"}.get(d_store)
    # 1 put the stores into the case's state (through objects that are then dropped)
    if s_path:
        _open(s_path).tags._set_tag_dict(dict(src))
    if d_path:
        _open(d_path).tags._set_tag_dict(dict(dst))
    if master is not None:
        _open("n_master").tags._set_tag_dict(dict(master))
    # 2 the transfer, on freshly opened branches
    s_tags = _open(s_path).tags if s_path else MemoryTags(dict(src))
    d_tags = _open(d_path).tags if d_path else MemoryTags(dict(dst))
    updates, conflicts = s_tags.merge_to(d_tags, overwrite=inp["overwrite"], ignore_master=inp["ignore_master"],
                                         selector=_selector(inp["sel"]))
    # 3 read back from fresh objects (native/git: from disk)
    after = _open(d_path).tags.get_tag_dict() if d_path else d_tags.get_tag_dict()
    m_after = _open("n_master").tags.get_tag_dict() if master is not None else None
    confs = sorted({(n.encode("utf-8"), _sym(a), _sym(b)) for n, a, b in conflicts})
    return [_symdict(after), None if m_after is None else _symdict(m_after), _symdict(updates),
            [[n, a, b] for n, a, b in confs]]


def impl(inp):
    """Exceptions of the anchored functions become an Err observation (class name only: vlib cannot encode
    non-ASCII exception texts); the oracle reports every such Err as a violation, so nothing is silenced."""
    try:
        return _impl(inp)
    except Exception as e:
        if inp["fn"] == "deser":
            raise
        return Err("RAISED-" + type(e).__name__)


def _impl(inp):
    from breezy.tag import _reconcile_tags
    from breezy.bzr.tag import BasicTags
    fn = inp["fn"]
    if fn == "reconcile":
        res, upd, conf = _reconcile_tags({k: v for k, v in inp["src"]}, {k: v for k, v in inp["dst"]},
                                         inp["overwrite"], _selector(inp["sel"]))
        return [[[k, v] for k, v in res.items()], [[k, v] for k, v in upd.items()], [[n, a, b] for n, a, b in conf]]
    if fn == "ser":
        return BasicTags(None)._serialize_tag_dict({k: v for k, v in inp["d"]})
    if fn == "deser":
        try:
            r = BasicTags(None)._deserialize_tag_dict(inp["data"])
        except (ValueError, AttributeError):
            # AttributeError: a well-formed bencode value that is not a dict (.items() missing)
            return Err("error")
        if not all(isinstance(v, bytes) for v in r.values()):
            return Err("error")          # ints / lists / nested dicts: outside the modelled tag-dict subset
        return [[k, v] for k, v in r.items()]
    if fn == "store":
        _open("n_dst").tags._set_tag_dict({k: v for k, v in inp["d"]})
        return _open("n_dst").tags.get_tag_dict()
    if fn == "transfer":
        return _impl_transfer(inp)
    raise ValueError(fn)


# --------------------------------------------------------------------------- model terms

def _cd(items):
    return coq_list([f"({coq_bytes(k)}, {coq_bytes(v)})" for k, v in items])


def _csel(sel):
    if sel is None:
        return "None"
    return f"(Some (mk_sel {coq_bool(sel['neg'])} {coq_list([coq_bytes(n) for n in sel['names']])}))"


def model_term(inp):
    fn = inp["fn"]
    if fn == "reconcile":
        return f"run_reconcile {_cd(inp['src'])} {_cd(inp['dst'])} {coq_bool(inp['overwrite'])} {_csel(inp['sel'])}"
    if fn == "ser":
        return f"run_ser {_cd(inp['d'])}"
    if fn == "deser":
        return f"run_deser {coq_bytes(inp['data'])}"
    if fn == "store":
        return f"run_store {_cd(inp['d'])}"
    _s, _d, inter, native = KINDS[inp["kind"]]
    master = "None" if inp["master"] is None else f"(Some {_cd(inp['master'])})"
    d_store = _d
    ds = ("DNative" if native else
          f"(DGit {coq_list([coq_bytes(g) for g in GIT_SYMS])})" if d_store == "git" else "DMem")
    return (f"run_transfer {inter} {ds} {_cd(inp['src'])} {_cd(inp['dst'])} {master} "
            f"{coq_bool(inp['ignore_master'])} {coq_bool(inp['overwrite'])} {_csel(inp['sel'])}")


# --------------------------------------------------------------------------- property oracle

def _expected(src, dst, overwrite, sel):
    """The property, pointwise, written independently of the code: (result, updates, conflicts-set)."""
    selector = _selector(sel)
    result, updates, conflicts = dict(dst), {}, set()
    for name, target in src.items():
        if selector is not None and not selector(name):
            continue                                   # not selected: destination state kept
        if name not in dst:
            result[name] = target                      # only in source: added
            updates[name] = target
        elif dst[name] == target:
            pass                                       # identical: unchanged
        elif overwrite:
            result[name] = target                      # differing + overwrite: source value
            updates[name] = target
        else:
            conflicts.add((name, target, dst[name]))   # differing: destination kept, conflict reported
    return result, updates, conflicts


def oracle(inp, obs):
    if isinstance(obs, Err) and str(obs).startswith("DRIVER:"):
        return "driver error " + str(obs)
    fn = inp["fn"]
    if isinstance(obs, Err) and fn != "deser":
        return f"the implementation raised {str(obs)[7:]} on a valid input"
    if fn == "reconcile":
        src, dst = dict(map(tuple, inp["src"])), dict(map(tuple, inp["dst"]))
        res, upd, conf = obs
        eres, eupd, econf = _expected(src, dst, inp["overwrite"], inp["sel"])
        res_d, upd_d = dict(map(tuple, res)), dict(map(tuple, upd))
        if len(res_d) != len(res) or len(upd_d) != len(upd):
            return "duplicate keys in an output dict"
        if res_d != eres:
            bad = sorted(set(res_d.items()) ^ set(eres.items()))[:3]
            return f"result dict differs from the two-way merge rules at {bad!r}"
        if upd_d != eupd:
            return f"updates {upd_d!r} are not exactly the changed names {eupd!r}"
        if len(conf) != len(set(map(tuple, conf))) or set(map(tuple, conf)) != econf:
            return f"conflicts {conf!r} differ from the expected {sorted(econf)!r}"
        if [k for k, _ in res][:len(dst)] != [k for k, _ in inp["dst"]]:
            return "destination tags were reordered or dropped"
        return None
    if fn == "ser":
        from breezy.bzr.tag import BasicTags
        back = BasicTags(None)._deserialize_tag_dict(bytes(obs))
        if back != dict(map(tuple, inp["d"])):
            return f"tag dict read back as {back!r}"
        return None
    if fn == "store":
        if isinstance(obs, Err) or obs != dict(map(tuple, inp["d"])):
            return f"stored tag dict read back as {obs!r}"
        return None
    if fn == "deser":
        return None
    # transfer
    s_store, d_store, inter, _native = KINDS[inp["kind"]]
    src, dst = dict(map(tuple, inp["src"])), dict(map(tuple, inp["dst"]))
    after, m_after, updates, conflicts = obs
    eres, eupd, econf = _expected(src, dst, inp["overwrite"], inp["sel"])
    if after != eres:
        bad = sorted(set(after.items()) ^ set(eres.items()), key=repr)[:3]
        return f"destination tags after the transfer differ from the two-way merge rules at {bad!r}"
    for name, target in eupd.items():
        if after.get(name) != target:
            return f"tag {name!r} reported/expected as updated is not stored in the destination"
    if inp["master"] is not None:
        master = dict(map(tuple, inp["master"]))
        if inp["ignore_master"]:
            if m_after != master:
                return "master changed although ignore_master was requested"
        else:
            mres, mupd, mconf = _expected(src, master, inp["overwrite"], inp["sel"])
            if m_after != mres:
                return f"master branch of the bound destination was not updated: {m_after!r} expected {mres!r}"
            eupd = dict(eupd, **mupd)
            econf = econf | mconf
    if updates != eupd:
        return f"reported updates {updates!r} differ from the changes made {eupd!r}"
    got = {(n.decode("utf-8"), a, b) for n, a, b in conflicts}
    if got != econf:
        return f"reported conflicts {sorted(got)!r} differ from {sorted(econf)!r}"
    return None


def finding_matches(fid, inp, obs, why):
    if inp.get("fn") != "transfer":
        return False
    if fid == "C24-git-ghost-tag-reported-not-stored":
        # exactly the known behaviour and nothing more: non-git source -> git destination, some merged tag points to a
        # revision that is not a commit of the repository; such a tag is reported but not stored, the name keeps its old
        # destination value (if any); every other name, the updates and the conflicts are as the rules demand
        if not (KINDS[inp["kind"]][1] == "git" and KINDS[inp["kind"]][0] != "git") or isinstance(obs, Err):
            return False
        src, dst = dict(map(tuple, inp["src"])), dict(map(tuple, inp["dst"]))
        eres, eupd, econf = _expected(src, dst, inp["overwrite"], inp["sel"])
        ghosts = {n for n, v in eres.items() if v not in GIT_SYMS}
        if not ghosts:
            return False
        known_after = {n: v for n, v in eres.items() if n not in ghosts}
        known_after.update({n: dst[n] for n in ghosts if n in dst})
        after, _m, updates, conflicts = obs
        return (after == known_after and updates == eupd
                and {(n.decode("utf-8"), a, b) for n, a, b in conflicts} == econf)
    return False


def search(hint_inputs, rng):
    """Complete search of the small domain on the implementation (after a proof/tie break)."""
    for inp in itertools.chain(hint_inputs, _exhaustive_reconcile(["a", "b"], [b"1", b"2"])):
        if inp.get("fn") != "reconcile":
            continue
        try:
            o = impl(inp)
        except Exception as e:
            return inp, Err("RAISED-" + type(e).__name__), f"_reconcile_tags raised {type(e).__name__}"
        v = oracle(inp, o)
        if v:
            return inp, o, v
    return None


def shrink(inp, fails):
    if inp.get("fn") not in ("reconcile", "transfer"):
        return inp
    cur = dict(inp)
    changed = True
    while changed:
        changed = False
        for key in ("src", "dst", "master"):
            items = cur.get(key)
            if not items:
                continue
            for i in range(len(items)):
                cand = dict(cur, **{key: items[:i] + items[i + 1:]})
                if fails(cand):
                    cur, changed = cand, True
                    break
            if changed:
                break
        if not changed and cur.get("sel") is not None:
            cand = dict(cur, sel=None)
            if fails(cand):
                cur, changed = cand, True
    return cur


def nontrivial(inp, obs):
    if inp["fn"] in ("reconcile", "transfer"):
        return bool({k for k, _ in inp["src"]} & {k for k, _ in inp["dst"]}) or inp["sel"] is not None
    return True


def distribution(inputs, observations):
    d = {}

    def bump(k, n=1):
        d[k] = d.get(k, 0) + n
    for i, o in zip(inputs, observations):
        fn = i["fn"]
        bump(fn if fn != "transfer" else "transfer:" + i["kind"])
        if fn in ("reconcile", "transfer") and not isinstance(o, Err):
            src, dst = dict(map(tuple, i["src"])), dict(map(tuple, i["dst"]))
            selector = _selector(i["sel"])
            for n, t in src.items():
                if selector is not None and not selector(n):
                    bump("branch:rejected-by-selector")
                elif n not in dst:
                    bump("branch:only-in-source")
                elif dst[n] == t:
                    bump("branch:identical")
                elif i["overwrite"]:
                    bump("branch:differing-overwritten")
                else:
                    bump("branch:differing-conflict")
            bump("branch:only-in-dest", len([n for n in dst if n not in src]))
            if i.get("master") is not None:
                bump("bound:ignore_master" if i["ignore_master"] else "bound:master-updated")
        if fn == "deser":
            bump("deser:error" if isinstance(o, Err) else "deser:ok")
    d["git_names_drawn"] = _stats["git_names_drawn"]
    d["git_names_rejected_by_validity_predicate"] = _stats["git_names_rejected"]
    return d
