"""C43 -- Incremental uploads keep the remote directory equal to the uploaded tree (tie H).

Input: {"revs": [rev, ...], "steps": [[full, k], ...]}
  rev  = {"ents": [[id, "a/b", kind, data, exec], ...]}   kind in "f" "d" "l"; data = file text / link target
         the ignore list of a revision is the content of its root file ".bzrignore-upload" (one plain name per line)
  step = upload revision k, full (upload_full_tree) or not (upload_tree: incremental from the marker's revision)
The driver commits the revisions into a real 2a branch (TreeTransform, explicit file ids), then drives
BzrUploader against a scratch directory transport and lists the directory after every upload.
"""
import io
import itertools
import os
import shutil
import stat as _stat

from vlib import Tag, Err, coq_bytes

PROP = "C43"
COQ = {
    "property_file": "Properties/C43.v",
    "imports": "From BV Require Import Lib.Bytes Lib.FS43 Model.Upload.",
}
META = {
    "level": "proof",
    "title": "Incremental uploads keep the remote directory equal to the uploaded tree",
    "technique": ("Coq theorems over a hand model of plugins/upload/cmds.py (compiler to uploader commands + interpreter over an "
                  "abstract remote file system) + correspondence on commit sequences uploaded by the real BzrUploader"),
    "level_text": ("Proved in Coq (unbounded, any remote): sequential renames realise the simultaneous move of sub-trees, so the "
                   "staging through fresh temporaries realises every swap/cycle/chain of files and of directories with their "
                   "content; with the deferred deletions, kind changes, additions and modifications the incremental upload turns "
                   "a remote equal to the old tree into one equal to the new tree, marker updated, whenever the executable guard "
                   "upload_guard holds (C43_incremental_exact_guarded), and so does any sequence of guarded uploads; full upload "
                   "onto an empty remote is exact; an upload changes nothing outside the sub-trees of the paths it names, which "
                   "are never ignored paths (up to renames across the ignore boundary), and writes the marker last. After the "
                   "repair round (46295b6 c541353 e87df2d 5c5eacc) the model is the repaired uploader and the guard covers "
                   "the repaired classes (rename+chmod/kind/target, rename onto a removed directory, kind change below a "
                   "renamed directory, symlinks below the root / modified); the unguarded statement is still REFUTED by 5 "
                   "machine-checked witnesses (residue of the rename ordering; full upload keeps stale files), all replayed "
                   "on the real uploader."),
    "level_note": ("Trusted: Coq kernel, vm_compute; the hand model's correspondence (bounded: sequences of <=6 commits over 6 "
                   "names); the LocalTransport/POSIX behaviour as modelled in Lib/FS43.v; fresh temporary names."),
    "design_ref": "DESIGN.md §5 C43",
    "trusted_base": ["hand model coq/Model/Upload.v of breezy/plugins/upload/cmds.py and delta.py:_compare_trees",
                     "environment model coq/Lib/FS43.v of dromedary LocalTransport (rename/put/delete/rmdir/mkdir/symlink/stat/delete_tree)",
                     "correspondence harness harness/props/c43.py"],
    "assumptions": ["temporary names .tmp.<time>.<pid>.<rand> are fresh and no tree path is named like them or like the marker",
                    "remote is a POSIX directory reached through dromedary LocalTransport; nobody else writes to it during an upload",
                    "ignore patterns are plain names (Globster matches a plain name against the basename of the path)",
                    "TreeDelta.kind_changed order (CHK hash order) is not modelled: a FAILED step with >=2 kind changes is compared only as 'order-dependent'",
                    "upload_revid_location has its default value; 2a branch; symlink targets are plain names different from the path names"],
    "rule": ("exhaustive id->name re-assignments of 3 entries over 4 root names (files, and a dir with a child) + structured "
             "scenario corpus + random op sequences (add/delete/rename/swap/cycle/modify/chmod/kind change/ignore) x upload "
             "schedules (incremental, full at random positions, out-of-order = overwrite) + directed ignore-boundary renames + "
             "kind 'cmd': the real cmd_upload().run on commit/uncommit/recommit scripts with --full/--overwrite/-r "
             "(refusal of a diverged marker, incremental delta from the marker's revision); non-trivial = some upload is incremental"),
}
SHARD = 100

IGN = ".bzrignore-upload"
MARK = ".bzr-upload.revid"
_state = {}


# ----------------------------------------------------------------------------
# abstract trees (pure Python; shared by generator, oracle, finding matcher)
# ----------------------------------------------------------------------------
def rev_map(rev):
    """id -> (path, kind, data(bytes), exec)"""
    return {int(e[0]): (e[1], e[2], _b(e[3]), int(e[4])) for e in rev["ents"]}


def _b(x):
    if isinstance(x, dict) and "hex" in x:
        return bytes.fromhex(x["hex"])
    return x.encode() if isinstance(x, str) else bytes(x)


def rev_ign(rev):
    for e in rev["ents"]:
        if e[1] == IGN and e[2] == "f":
            return [l for l in _b(e[3]).decode().split("\n") if l]
    return []


def ignored(ign, path):
    return any(seg in ign for seg in path.split("/"))


def dirname(p):
    return p.rsplit("/", 1)[0] if "/" in p else ""


def basename(p):
    return p.rsplit("/", 1)[-1]


def classify(old, new):
    """Mirror of delta.py:_compare_trees on abstract trees (dicts from rev_map)."""
    byp_old = {v[0]: i for i, v in old.items()}
    byp_new = {v[0]: i for i, v in new.items()}

    def pid(byp, p):
        d = dirname(p)
        return byp.get(d, 0) if d else 0
    d = {"removed": [], "added": [], "renamed": [], "kind_changed": [], "modified": []}
    for i, v in old.items():
        if i not in new:
            d["removed"].append(i)
            continue
        w = new[i]
        if basename(v[0]) != basename(w[0]) or pid(byp_old, v[0]) != pid(byp_new, w[0]):
            d["renamed"].append(i)
        elif v[1] != w[1]:
            d["kind_changed"].append(i)
        elif (v[1] != "d" and v[2] != w[2]) or v[3] != w[3]:
            d["modified"].append(i)
    d["added"] = [i for i in new if i not in old]
    return d


def is_prefix(a, b):
    return a == b or b.startswith(a + "/")


def patterns(old, new, ign, old_ign=None):
    """Which of the change patterns that the uploader mishandles occur in old -> new (sets of names).
    ign = ignore list of the uploaded tree (the one in force), old_ign = the one of the remote's revision."""
    d = classify(old, new)
    out = set()
    if old_ign is not None and old_ign != ign:
        # a path that was ignored when the remote revision was uploaded (so it is not on the remote) and is not now
        if any(ignored(old_ign, v[0]) and not ignored(ign, v[0]) for v in old.values()):
            out.add("unignored")
    ren = d["renamed"]
    o = {i: old[i][0] for i in ren}
    n = {i: new[i][0] for i in ren}
    rem_dirs = [old[i][0] for i in d["removed"] if old[i][1] == "d"]
    rem_all = {old[i][0] for i in d["removed"]}
    old_paths = {v[0]: v for v in old.values()}
    # renamed entries whose kind or symlink target changed are removed and re-created with the additions
    rec = {i for i in ren if old[i][1] != new[i][1] or (new[i][1] == "l" and old[i][2] != new[i][2])}
    for i in ren:
        # an entry below a directory that is staged away (renamed, not re-created) before it is handled
        if any(j != i and j not in rec and is_prefix(o[j], o[i]) for j in ren):
            out.add("nested-rename")
        if i in rec:
            # its deferred rmdir comes before the one of a removed, still non-empty sub-directory
            if old[i][1] == "d" and any(dd != o[i] and is_prefix(o[i], dd) and
                                        any(q != dd and is_prefix(dd, q) for q in old_paths) for dd in rem_dirs):
                out.add("recreated-dir-with-deferred-subdir")
        else:
            par = dirname(n[i])
            if par:
                pv = old_paths.get(par)
                if pv is None or pv[1] != "d" or par in rem_all or any(is_prefix(o[j], par) for j in ren):
                    out.add("rename-into-later-dir")
        # only these two ignore-boundary renames fail on the unchanged code: the old path was never uploaded, or
        # the directory of the new path was never uploaded.  (not ignored -> ignored works: the entry is moved
        # away; both ignored: skipped.)
        if ignored(ign, o[i]) and not ignored(ign, n[i]):
            out.add("rename-from-ignored")
        if not ignored(ign, o[i]) and dirname(n[i]) and ignored(ign, dirname(n[i])):
            out.add("rename-into-ignored-dir")
        # ... or the ignored new path is still occupied on the remote by an ignored entry (whose own removal /
        # rename was skipped because it is ignored)
        if not ignored(ign, o[i]) and ignored(ign, n[i]) and n[i] in old_paths:
            out.add("rename-onto-ignored-leftover")
    for i in d["removed"]:
        if old[i][1] == "d" and any(j not in rec and is_prefix(o[j], old[i][0]) for j in ren) and any(
                q != old[i][0] and is_prefix(old[i][0], q) for q in old_paths):
            out.add("removed-dir-under-rename")
        # an ignored entry is never deleted, so the directory around it cannot be removed
        if old[i][1] == "d" and not ignored(ign, old[i][0]) and any(
                q != old[i][0] and is_prefix(old[i][0], q) and ignored(ign, q) for q in old_paths):
            out.add("ignored-under-removed-dir")
    for i in d["kind_changed"]:
        if old[i][1] == "d" and not ignored(ign, new[i][0]) and any(
                q != old[i][0] and is_prefix(old[i][0], q) and ignored(ign, q) for q in old_paths):
            out.add("ignored-under-removed-dir")
    return out


# ----------------------------------------------------------------------------
# driver
# ----------------------------------------------------------------------------
def setup(scratch):
    import breezy
    import breezy.bzr  # noqa
    _state["dir"] = scratch
    _state["n"] = 0
    os.environ.setdefault("BRZ_EMAIL", "verif <verif@example.com>")


class _Proxy:
    """Delegating wrapper around the (compiled) LocalTransport; records the temporary names in creation order."""

    def __init__(self, t):
        self._t = t
        self.tmps = []

    def rename(self, a, b):
        if b.startswith(".tmp."):
            self.tmps.append(b)
        return self._t.rename(a, b)

    def __getattr__(self, name):
        return getattr(self._t, name)


def _realise(wt, old, new):
    tt = wt.transform()
    try:
        root = tt.root
        tid = {}
        for i in old:
            tid[i] = tt.trans_id_file_id(b"id%d" % i)
        for i in new:
            if i not in old:
                tid[i] = tt.create_path(basename(new[i][0]), root)
                tt.version_file(tid[i], file_id=b"id%d" % i)
        bypath = {new[i][0]: i for i in new}
        for i in old:
            if i not in new:
                tt.unversion_file(tid[i])
                tt.delete_contents(tid[i])
        for i in new:
            p, k, d, x = new[i]
            par = dirname(p)
            tt.adjust_path(basename(p), root if par == "" else tid[bypath[par]], tid[i])
            if i in old:
                if old[i][1:3] != (k, d):
                    tt.delete_contents(tid[i])
                else:
                    if k == "f" and old[i][3] != x:
                        tt.set_executability(bool(x), tid[i])
                    continue
            if k == "f":
                tt.create_file([d], tid[i])
                tt.set_executability(bool(x), tid[i])
            elif k == "d":
                tt.create_directory(tid[i])
            else:
                tt.create_symlink(d.decode(), tid[i])
        tt.apply()
    finally:
        tt.finalize()


def _listing(base):
    out = {}
    for dp, dns, fns in os.walk(base):
        for nme in list(dns) + fns:
            full = os.path.join(dp, nme)
            rel = os.path.relpath(full, base)
            st = os.lstat(full)
            if _stat.S_ISLNK(st.st_mode):
                out[rel] = ("l", os.readlink(full).encode(), 0)
            elif _stat.S_ISDIR(st.st_mode):
                out[rel] = ("d", b"", 0)
            else:
                with open(full, "rb") as f:
                    out[rel] = ("f", f.read(), 1 if st.st_mode & 0o100 else 0)
    return out


def _name_obs(seg, tmps):
    if seg == IGN:
        return (0, 0), Tag("ign")
    if seg == MARK:
        return (2, 0), Tag("mark")
    if seg.startswith(".tmp."):
        k = tmps.index(seg)
        return (3, k), [Tag("tmp"), k]
    if len(seg) == 1 and "a" <= seg <= "z":
        return (1, ord(seg) - 96), ord(seg) - 96
    raise ValueError("unexpected remote name %r" % seg)


def _obs_listing(ls, tmps, revids):
    rows = []
    # temporaries are numbered by their rank (creation order) among those that are still present
    heads = {p.split("/")[0] for p in ls if p.startswith(".tmp.")}
    tmps = [t for t in tmps if t in heads]
    for p, (k, data, x) in ls.items():
        segs = [_name_obs(s, tmps) for s in p.split("/")]
        key = [s[0] for s in segs]
        po = [s[1] for s in segs]
        if k == "f":
            if p == MARK:
                data = bytes([revids.index(data)]) if data in revids else b"?" + data
            no = [Tag("f"), data, bool(x)]
        elif k == "d":
            no = [Tag("d")]
        else:
            no = [Tag("l"), _name_obs(data.decode(), tmps)[1]]
        rows.append((key, [po, no]))
    rows.sort(key=lambda r: r[0])
    return [r[1] for r in rows]


def _commit_state(wt, cur, st):
    """make the working tree hold the abstract tree st (it holds cur), commit, check the committed revision tree"""
    _realise(wt, cur, st)
    rid = wt.commit("c", allow_pointless=True)
    tree = wt.branch.repository.revision_tree(rid)
    got = {}
    with tree.lock_read():
        for path, ie in tree.iter_entries_by_dir():
            if path == "":
                continue
            k = {"file": "f", "directory": "d", "symlink": "l"}[ie.kind]
            data = tree.get_file_text(path) if k == "f" else (ie.symlink_target.encode() if k == "l" else b"")
            got[int(ie.file_id[2:])] = (path, k, data, int(bool(ie.executable)) if k == "f" else 0)
    want = {i: (v[0], v[1], v[2] if v[1] != "d" else b"", v[3] if v[1] == "f" else 0) for i, v in st.items()}
    if got != want:
        raise RuntimeError("commit does not realise the requested tree: %r vs %r" % (got, want))
    return rid


def _scratch():
    _state["n"] = _state.get("n", 0) + 1
    root = _state.get("dir")
    own = None
    if not root or not os.path.isdir(root):
        # called outside setup()/teardown() (shrinking, replay): use and remove a scratch directory of our own
        import tempfile
        own = root = tempfile.mkdtemp(prefix="verif-C43-own-")
    os.environ.setdefault("BRZ_EMAIL", "verif <verif@example.com>")
    base = os.path.join(root, "s%d" % _state["n"])
    os.makedirs(base)
    return base, own


def _tmp_order(ls):
    """temporary names in creation order (stamp = time.pid.random)"""
    names = sorted({p.split("/")[0] for p in ls if p.startswith(".tmp.")},
                   key=lambda n: (float(".".join(n.split(".")[2:4])), n))
    return names


def _run_cmd(inp, want_raw=False):
    """kind "cmd": the real command object cmd_upload().run(...) on a branch whose tip is committed / uncommitted."""
    import breezy.bzr  # noqa
    from breezy import controldir, errors as berrors
    from breezy.plugins.upload import cmds
    from breezy.revisionspec import RevisionSpec
    from breezy.uncommit import uncommit
    from dromedary import errors as terrors
    base, own = _scratch()
    try:
        wt = controldir.ControlDir.create_standalone_workingtree(
            base + "/b", format=controldir.format_registry.make_controldir("2a"))
        os.mkdir(base + "/up")
        states = [rev_map(r) for r in inp["revs"]]
        trees, parents, steps = plan(inp)
        revids = []
        cur = {}
        tip = None
        marker = None
        out, raw = [], []
        for op in inp["script"]:
            if op[0] == "commit":
                revids.append(_commit_state(wt, cur, states[op[1]]))
                cur = states[op[1]]
                tip = len(revids) - 1
            elif op[0] == "uncommit":
                uncommit(wt.branch, tree=wt, revno=wt.branch.revno() - op[1] + 1)
                for _ in range(op[1]):
                    tip = parents[tip]
                if wt.branch.last_revision() != revids[tip]:
                    raise RuntimeError("uncommit did not rewind to the expected revision")
            else:
                o = op[1]
                k = tip if o.get("rev") is None else o["rev"]
                cmd = cmds.cmd_upload()
                cmd.outf = io.StringIO()
                kw = {}
                if o.get("rev") is not None:
                    kw["revision"] = [RevisionSpec.from_string("revid:" + revids[k].decode())]
                status = Tag("ok")
                try:
                    cmd.run(base + "/up", full=bool(o.get("full")), overwrite=bool(o.get("overwrite")),
                            directory=base + "/b", quiet=True, **kw)
                except cmds.DivergedUploadedTree:
                    status = Err("DivergedUploadedTree")
                except (terrors.TransportError, OSError, NotImplementedError) as e:
                    status = Err(type(e).__name__)
                ls = _listing(base + "/up")
                raw.append((str(status), ls))
                tmps = _tmp_order(ls)
                if status == "DivergedUploadedTree":
                    out.append([status, _obs_listing(ls, tmps, revids)])
                    continue
                if status != "ok":
                    if (not o.get("full")) and marker is not None and \
                            len(classify(rev_map(trees[marker]), rev_map(trees[k]))["kind_changed"]) >= 2:
                        out.append([Tag("order-dependent")])
                    else:
                        out.append([status, _obs_listing(ls, tmps, revids)])
                    break
                out.append([status, _obs_listing(ls, tmps, revids)])
                marker = k
        return (out, raw) if want_raw else out
    finally:
        shutil.rmtree(base, ignore_errors=True)
        if own:
            shutil.rmtree(own, ignore_errors=True)


def _run(inp, want_raw=False):
    import breezy.bzr  # noqa
    from breezy import controldir, transport
    from breezy.plugins.upload import cmds
    from dromedary import errors as terrors
    _state["n"] = _state.get("n", 0) + 1
    root = _state.get("dir")
    own = None
    if not root or not os.path.isdir(root):
        # called outside setup()/teardown() (shrinking, replay): use and remove a scratch directory of our own
        import tempfile
        own = root = tempfile.mkdtemp(prefix="verif-C43-own-")
    os.environ.setdefault("BRZ_EMAIL", "verif <verif@example.com>")
    base = os.path.join(root, "s%d" % _state["n"])
    os.makedirs(base)
    try:
        wt = controldir.ControlDir.create_standalone_workingtree(
            base + "/b", format=controldir.format_registry.make_controldir("2a"))
        os.mkdir(base + "/up")
        revs = [rev_map(r) for r in inp["revs"]]
        revids = []
        cur = {}
        for st in revs:
            revids.append(_commit_state(wt, cur, st))
            cur = st
        out = []
        raw = []
        uploaded = None     # index of the revision the marker names
        for full, k in inp["steps"]:
            t = _Proxy(transport.get_transport(base + "/up"))
            tree = wt.branch.repository.revision_tree(revids[k])
            up = cmds.BzrUploader(wt.branch, t, io.StringIO(), tree, revids[k], quiet=True)
            status = Tag("ok")
            try:
                if full:
                    up.upload_full_tree()
                else:
                    up.upload_tree()
            except (terrors.TransportError, OSError, NotImplementedError) as e:
                status = Err(type(e).__name__)
            ls = _listing(base + "/up")
            raw.append((str(status), ls))
            if status != "ok":
                if (not full) and uploaded is not None and len(classify(revs[uploaded], revs[k])["kind_changed"]) >= 2:
                    out.append([Tag("order-dependent")])
                else:
                    out.append([status, _obs_listing(ls, t.tmps, revids)])
                break
            out.append([status, _obs_listing(ls, t.tmps, revids)])
            uploaded = k
        return (out, raw) if want_raw else out
    finally:
        shutil.rmtree(base, ignore_errors=True)
        if own:
            shutil.rmtree(own, ignore_errors=True)


def impl(inp):
    return _run_cmd(inp) if inp.get("kind") == "cmd" else _run(inp)


def plan(inp):
    """Normal form of an input: (tree per commit, left-hand parent per commit, upload steps (commit, full, overwrite)).
    kind "cmd": {"revs": states, "script": [["commit", state] | ["uncommit", n] | ["upload", {full, overwrite, rev}]]}
    default kind: every revision is a commit on one line; BzrUploader is driven directly (= --overwrite)."""
    if inp.get("kind") == "cmd":
        trees, parents, steps = [], [], []
        tip = None
        for op in inp["script"]:
            if op[0] == "commit":
                trees.append(inp["revs"][op[1]])
                parents.append(tip)
                tip = len(trees) - 1
            elif op[0] == "uncommit":
                for _ in range(op[1]):
                    tip = parents[tip]
            else:
                o = op[1]
                steps.append((tip if o.get("rev") is None else o["rev"], bool(o.get("full")), bool(o.get("overwrite"))))
        return trees, parents, steps
    n = len(inp["revs"])
    return inp["revs"], [None] + list(range(n - 1)), [(k, bool(f), True) for f, k in inp["steps"]]


def is_ancestor(parents, j, k):
    while k is not None:
        if k == j:
            return True
        k = parents[k]
    return False


# ----------------------------------------------------------------------------
# model term
# ----------------------------------------------------------------------------
def _coq_name(seg):
    if seg == IGN:
        return "NIgn"
    if len(seg) == 1 and "a" <= seg <= "z":
        return "(Nm %d)" % (ord(seg) - 96)
    raise ValueError(seg)


def _coq_path(p):
    return "[" + "; ".join(_coq_name(s) for s in p.split("/")) + "]"


def _coq_tree(rev):
    es = []
    for i, (p, k, d, x) in sorted(rev_map(rev).items()):
        if k == "f":
            node = "(File %s %s)" % (coq_bytes(d), "true" if x else "false")
        elif k == "d":
            node = "Dir"
        else:
            node = "(Link %s)" % _coq_name(d.decode())
        es.append("mkent %d %s %s" % (i, _coq_path(p), node))
    ign = "[" + "; ".join(_coq_name(s) for s in rev_ign(rev)) + "]"
    return "(mktree [" + "; ".join(es) + "] " + ign + ")"


def model_term(inp):
    if inp.get("kind") == "cmd":
        trees, parents, steps = plan(inp)
        ts = "[" + "; ".join(_coq_tree(r) for r in trees) + "]"
        ps = "[" + "; ".join("None" if p is None else "Some %d%%nat" % p for p in parents) + "]"
        ss = "[" + "; ".join("(%d%%nat, %s, %s)" % (k, "true" if f else "false", "true" if o else "false")
                             for k, f, o in steps) + "]"
        return "run_cmd_case %s %s %s" % (ts, ps, ss)
    revs = "[" + "; ".join(_coq_tree(r) for r in inp["revs"]) + "]"
    steps = "[" + "; ".join("(%s, %d%%nat)" % ("true" if f else "false", k) for f, k in inp["steps"]) + "]"
    return "run_case %s %s" % (revs, steps)


# ----------------------------------------------------------------------------
# oracle: the property itself
# ----------------------------------------------------------------------------
def _expected(rev):
    ign = rev_ign(rev)
    exp = {}
    for i, (p, k, d, x) in rev_map(rev).items():
        if p == IGN or ignored(ign, p):
            continue
        exp[p] = (k, d if k != "d" else b"", x if k == "f" else 0)
    return exp, ign


def _step_failures(inp, raw):
    """[(step index, message)] -- first violated step only."""
    trees, parents, steps = plan(inp)
    marker = None
    prev = {}
    for si, ((k, full, ow), (status, ls)) in enumerate(zip(steps, raw)):
        what = "%s%s upload of revision %d" % ("full" if full else "incremental", " --overwrite" if ow and inp.get("kind") == "cmd" else "", k)
        if marker is not None and not ow and not is_ancestor(parents, marker, k):
            # the remote holds a revision that is not an ancestor: the command has to refuse and touch nothing
            if status != "DivergedUploadedTree":
                return [(si, "step %d (%s): the remote revision %d is not an ancestor and --overwrite was not given, "
                             "but the upload was not refused (%s)" % (si, what, marker, status))]
            if ls != prev:
                return [(si, "step %d (%s): refused upload changed the remote" % (si, what))]
            continue
        exp, ign = _expected(trees[k])
        if status != "ok":
            return [(si, "step %d (%s) raised %s" % (si, what, status))]
        # every remote path that is not ignored (ignore list in force = the uploaded tree's), not the ignore file and
        # not the marker must be in the uploaded tree with the same kind/content/exec bit, and vice versa
        got = {p: v for p, v in ls.items() if p not in (MARK, IGN) and not ignored(ign, p)}
        if got != exp:
            extra = sorted(set(got) - set(exp))
            missing = sorted(set(exp) - set(got))
            diff = sorted(p for p in set(got) & set(exp) if got[p] != exp[p])
            return [(si, "step %d (%s): remote differs from the tree: extra=%r missing=%r different=%r"
                     % (si, what, extra, missing, [(p, got[p], exp[p]) for p in diff]))]
        if MARK not in ls:
            return [(si, "step %d: marker missing" % si)]
        marker = k
        prev = ls
    return []


def _decode_obs(obs):
    """listing observation -> raw form used by the oracle"""
    raw = []
    for st in obs:
        if len(st) == 1:
            raw.append(("order-dependent-error", {}))
            continue
        status, rows = st
        ls = {}
        for po, no in rows:
            segs = []
            for s in po:
                if isinstance(s, list):
                    segs.append(".tmp.%d" % s[1])
                elif s == "ign":
                    segs.append(IGN)
                elif s == "mark":
                    segs.append(MARK)
                else:
                    segs.append(chr(96 + s))
            p = "/".join(segs)
            if no[0] == "f":
                ls[p] = ("f", bytes(no[1]), int(bool(no[2])))
            elif no[0] == "d":
                ls[p] = ("d", b"", 0)
            else:
                t = no[1]
                ls[p] = ("l", (chr(96 + t) if isinstance(t, int) else str(t)).encode(), 0)
        raw.append((str(status), ls))
    return raw


def oracle(inp, obs):
    if isinstance(obs, Err):
        return "driver error " + str(obs)
    fails = _step_failures(inp, _decode_obs(obs))
    return fails[0][1] if fails else None


# ----------------------------------------------------------------------------
# known findings: which (old, new) change patterns the failing step contains
# ----------------------------------------------------------------------------
FINDINGS = {
    # residue after the partial repair 46295b6
    "C43-rename-staging-order": {"nested-rename", "rename-into-later-dir", "removed-dir-under-rename",
                                 "recreated-dir-with-deferred-subdir"},
    # residue after the partial repair 5c5eacc (by design)
    "C43-full-keeps-stale": {"full-stale"},
    "C43-ignore-boundary": {"rename-from-ignored", "rename-into-ignored-dir", "rename-onto-ignored-leftover", "unignored",
                            "ignored-under-removed-dir"},
}


def failing_step_patterns(inp, why):
    import re
    m = re.match(r"step (\d+)", why or "")
    if not m:
        return set()
    si = int(m.group(1))
    trees, parents, steps = plan(inp)
    marker = None       # the revision the remote holds before step si (earlier steps behaved as the oracle demands)
    for j, (k, full, ow) in enumerate(steps):
        refused = marker is not None and not ow and not is_ancestor(parents, marker, k)
        if j == si:
            if refused:
                return set()
            new = rev_map(trees[k])
            ign = rev_ign(trees[k])
            if full or marker is None:
                out = set()
                if marker is not None:
                    oldp = {v[0]: v for v in rev_map(trees[marker]).values()}
                    newp = {v[0]: v for v in new.values()}
                    if any(p not in newp or any(is_prefix(q, p) and newp[q][1] != "d" and q != p for q in newp) for p in oldp):
                        out.add("full-stale")
                return out
            return patterns(rev_map(trees[marker]), new, ign, rev_ign(trees[marker]))
        if not refused:
            marker = k
    return set()


def finding_matches(fid, inp, obs, why):
    pats = FINDINGS.get(fid)
    if not pats:
        return False
    return bool(pats & failing_step_patterns(inp, why))


# ----------------------------------------------------------------------------
# generator
# ----------------------------------------------------------------------------
NAMES = "abcdef"


def F(i, p, d="x", x=0):
    return [i, p, "f", d, x]


def D(i, p):
    return [i, p, "d", "", 0]


def L(i, p, t):
    return [i, p, "l", t, 0]


def seq(*states, steps=None):
    revs = [{"ents": list(s)} for s in states]
    if steps is None:
        steps = [[False, k] for k in range(len(revs))]
    return {"revs": revs, "steps": [list(s) for s in steps]}


def corpus():
    out = []
    # guard-satisfying scenarios
    out.append(seq([F(1, "a", "A"), F(2, "b", "B")], [F(1, "b", "A"), F(2, "a", "B")]))                       # swap
    out.append(seq([F(1, "a", "A"), F(2, "b", "B"), F(3, "c", "C")], [F(1, "b", "A"), F(2, "c", "B"), F(3, "a", "C")]))
    out.append(seq([D(1, "a"), F(2, "a/x", "1"), D(3, "b"), F(4, "b/y", "2")],
                   [D(1, "b"), F(2, "b/x", "1"), D(3, "a"), F(4, "a/y", "2")]))                              # dir swap
    out.append(seq([D(1, "a"), F(2, "b", "B"), F(3, "a/c", "C")], [D(1, "b"), F(2, "a", "B"), F(3, "b/c", "C")]))
    out.append(seq([D(1, "d"), F(2, "d/f"), D(3, "d/e"), F(4, "d/e/c")], []))                                  # deferred deletions
    out.append(seq([D(1, "d"), F(2, "d/f", "F")], [F(1, "d", "now"), F(2, "f", "F")]))
    out.append(seq([F(1, "a", "A", 0)], [L(1, "a", "t")], [D(1, "a")], [F(1, "a", "Q", 1)]))
    out.append(seq([F(1, "a", "A")], [F(1, "b", "B", 1)]))
    out.append(seq([F(1, "a", "1"), F(2, "b", "2")], [F(1, "b", "1")]))
    out.append(seq([D(1, "d")], [D(1, "e"), F(2, "e/f", "B", 1), D(3, "e/c"), F(4, "e/c/a", "B", 1)]))
    # the witnesses of the defects found (those repaired in the repair round must now PASS; the others are the
    # residue that is still a known finding)
    out.append(seq([D(1, "d"), F(2, "d/f", "A")], [D(1, "e"), F(2, "e/a", "A")]))                           # nested rename
    out.append(seq([F(1, "f", "A")], [F(1, "e/f", "A"), D(2, "e")]))                                          # into new dir
    out.append(seq([F(1, "f", "A")], [D(1, "e")]))                                                            # rename + kind
    out.append(seq([L(1, "a", "t")], [L(1, "b", "u")]))                                                       # rename + retarget
    out.append(seq([F(1, "a", "A", 0)], [F(1, "b", "A", 1)]))                                                 # rename + chmod
    out.append(seq([D(1, "d"), F(2, "d/f"), D(3, "e")], [D(3, "d")]))                                         # onto removed dir
    out.append(seq([D(1, "d"), F(2, "d/f", "A")], [D(1, "e"), L(2, "e/f", "t")]))                           # kind change under rename
    out.append(seq([D(1, "d"), D(2, "d/c"), F(3, "d/c/f")], [D(1, "e")]))                                     # removed subdir under rename
    out.append(seq([D(1, "d"), D(2, "d/c"), F(3, "d/c/a", "A")], [F(1, "e", "B", 1), F(3, "a", "A")]))         # re-created dir, deferred subdir
    out.append(seq([D(1, "d")], [D(1, "d"), L(2, "d/a", "t")]))                                               # symlink in subdir
    out.append(seq([L(1, "a", "t")], [L(1, "a", "u")]))                                                       # modified symlink
    out.append(seq([D(1, "d"), F(2, "a", "X")], [D(1, "e"), F(2, "e/a", "X")]))                             # into later renamed dir
    out.append(seq([D(1, "a"), D(2, "a/b")], [D(2, "b"), D(1, "b/a")]))                                       # dir into former child
    out.append(seq([F(1, "a", "A")], [], steps=[[False, 0], [True, 1]]))                                       # full keeps stale
    out.append(seq([F(1, "a", "A")], [L(1, "a", "t")], steps=[[False, 0], [True, 1]]))                        # full symlink over file
    # ignore scenarios
    out.append(seq([F(9, IGN, "c\n"), F(1, "a", "A")], [F(9, IGN, "c\n"), F(1, "a", "A"), F(2, "c", "C"), D(3, "d"), F(4, "d/c", "x")]))
    out.append(seq([F(9, IGN, "c\n"), D(1, "c"), F(2, "c/a", "A"), F(3, "b")], [F(9, IGN, "c\n"), D(1, "c"), F(2, "c/a", "B"), F(3, "a")]))
    out.append(seq([F(1, "a", "A")], [F(9, IGN, "a\n"), F(1, "a", "B")], [F(9, IGN, "a\nb\n"), F(1, "b", "B")]))
    # an entry moved to an ignored name is never deleted again: its directory cannot be removed
    out.append(seq([F(9, IGN, "c\n"), D(1, "d"), F(2, "d/a", "A")], [F(9, IGN, "c\n"), D(1, "d"), F(2, "d/c", "A")],
                   [F(9, IGN, "c\n")]))
    return out


def _free_names(paths, parent):
    return [n for n in NAMES if (parent + "/" + n if parent else n) not in paths]


def _mutate(rng, st, nextid, allow):
    """one random tree operation on st (id -> [path, kind, data, exec]); returns new nextid"""
    paths = {v[0]: i for i, v in st.items()}
    dirs = [""] + [v[0] for v in st.values() if v[1] == "d" and v[0].count("/") < 2]

    def subtree(p):
        return [i for i, v in st.items() if is_prefix(p, v[0])]

    def move(i, newp):
        oldp = st[i][0]
        for j in subtree(oldp):
            st[j][0] = newp + st[j][0][len(oldp):]
    op = rng.choice(allow)
    ids = [i for i in st if st[i][0] != IGN]
    if op == "add":
        par = rng.choice(dirs)
        fr = _free_names(paths, par)
        if not fr:
            return nextid
        p = (par + "/" if par else "") + rng.choice(fr)
        k = rng.choice("ffdddl" if par == "" else "ffddl")
        st[nextid] = [p, k, rng.choice("ABC") if k == "f" else ("" if k == "d" else rng.choice("tu")), rng.randint(0, 1) if k == "f" else 0]
        return nextid + 1
    if not ids:
        return nextid
    i = rng.choice(ids)
    p, k, d, x = st[i]
    if op == "delete":
        for j in subtree(p):
            del st[j]
    elif op == "rename":
        cand = [q for q in dirs if not is_prefix(p, q)]
        par = rng.choice(cand)
        fr = _free_names(paths, par)
        if fr:
            move(i, (par + "/" if par else "") + rng.choice(fr))
    elif op == "swap":
        others = [j for j in ids if j != i and not is_prefix(p, st[j][0]) and not is_prefix(st[j][0], p)]
        if others:
            j = rng.choice(others)
            q = st[j][0]
            move(i, "\0")
            move(j, p)
            move(i, q)
    elif op == "cycle":
        others = [j for j in ids if j != i and not is_prefix(p, st[j][0]) and not is_prefix(st[j][0], p)]
        rng.shuffle(others)
        if len(others) >= 2:
            j, l = others[:2]
            q, r = st[j][0], st[l][0]
            if not is_prefix(q, r) and not is_prefix(r, q):
                move(i, "\0")
                move(l, p)
                move(j, r)
                move(i, q)
    elif op == "modify":
        if k == "f":
            st[i][2] = rng.choice([c for c in "ABCD" if c != d])
        elif k == "l":
            st[i][2] = "u" if d == "t" else "t"
    elif op == "chmod":
        if k == "f":
            st[i][3] = 1 - x
    elif op == "kind":
        nk = rng.choice([c for c in "fdl" if c != k])
        if k == "d":
            kids = [j for j in subtree(p) if j != i]
            if kids and rng.random() < 0.5:
                # move the children out to the root when possible
                for j in kids:
                    if dirname(st[j][0]) == p:
                        fr = _free_names({v[0] for v in st.values()}, "")
                        if fr:
                            move(j, rng.choice(fr))
            for j in [j for j in subtree(p) if j != i]:
                del st[j]
        st[i][1] = nk
        st[i][2] = rng.choice("ABC") if nk == "f" else ("" if nk == "d" else rng.choice("tu"))
        st[i][3] = 0
    return nextid


SAFE_OPS = ["add", "add", "delete", "rename", "swap", "cycle", "modify", "chmod", "kind"]


def _random_seq(rng, tier):
    n = rng.randint(2, 6 if tier == "thorough" else 5)
    st = {}
    nextid = 1
    use_ign = rng.random() < 0.2
    if use_ign:
        st[90] = [IGN, "f", rng.choice(["c\n", "a\n", "b\nc\n"]), 0]
    states = []
    for r in range(n):
        nops = rng.randint(2, 4) if r == 0 else rng.choice([1, 1, 1, 2, 2, 3])
        for _ in range(nops):
            nextid = _mutate(rng, st, nextid, ["add"] if r == 0 else SAFE_OPS)
        if use_ign and r > 0 and rng.random() < 0.1 and 90 in st:
            st[90][2] = st[90][2] + rng.choice("de") + "\n"
        states.append([[i] + list(v) for i, v in sorted(st.items())])
    mode = rng.random()
    if mode < 0.6:
        steps = [[False, k] for k in range(n)]
    elif mode < 0.8:
        steps = [[rng.random() < 0.3, k] for k in range(n)]
    else:
        order = list(range(n))
        rng.shuffle(order)
        steps = [[rng.random() < 0.15, k] for k in order]
    return seq(*states, steps=steps)


def _exhaustive_flat():
    """3 entries on root names a,b,c re-assigned to names in {a,b,c,d} or deleted (all injective assignments)."""
    base = [F(1, "a", "A"), F(2, "b", "B", 1), D(3, "c")]
    names = ["a", "b", "c", "d", None]
    for asg in itertools.product(names, repeat=3):
        used = [a for a in asg if a]
        if len(set(used)) != len(used):
            continue
        new = []
        for e, a in zip(base, asg):
            if a:
                new.append([e[0], a] + e[2:])
        yield seq(base, new)


def _exhaustive_dir():
    """a directory with a child and a sibling file: every re-assignment of the three over root names / inside the dir."""
    base = [D(1, "a"), F(2, "a/c", "C"), F(3, "b", "B")]
    for dn in ["a", "b", "d", None]:
        for cn in ["c", "e", "^c", "^b", None]:       # ^x = moved to the root as x
            for fn in ["b", "a", "d", "/b", "/c", None]:  # /x = moved into the dir as x
                new = []
                if dn:
                    new.append(D(1, dn))
                if cn:
                    if cn.startswith("^"):
                        new.append(F(2, cn[1:], "C"))
                    elif dn:
                        new.append(F(2, dn + "/" + cn, "C"))
                    else:
                        continue
                if fn:
                    if fn.startswith("/"):
                        if not dn:
                            continue
                        new.append(F(3, dn + fn, "B"))
                    else:
                        new.append(F(3, fn, "B"))
                ps = [e[1] for e in new]
                if len(set(ps)) != len(ps):
                    continue
                yield seq(base, new)


def cmdseq(states, script):
    return {"kind": "cmd", "revs": [{"ents": list(x)} for x in states], "script": script}


def UP(full=0, overwrite=0, rev=None):
    return ["upload", {"full": full, "overwrite": overwrite, "rev": rev}]


def _ignore_boundary_cases():
    """renames across / inside / outside the ignore list, .bzrignore-upload present from the first upload"""
    I = F(9, IGN, "c\ne\n")
    for k in ("f", "d"):
        def E(i, p):
            return [F(i, p, "A")] if k == "f" else [D(i, p), F(i + 1, p + "/b", "B")]
        yield seq([I] + E(1, "a"), [I] + E(1, "c"))                       # not ignored -> ignored
        yield seq([I] + E(1, "c"), [I] + E(1, "a"))                       # ignored -> not ignored (never uploaded)
        yield seq([I] + E(1, "c"), [I] + E(1, "e"))                       # ignored -> ignored
        yield seq([I] + E(1, "a"), [I] + E(1, "d"))                       # not ignored -> not ignored
        yield seq([I] + E(1, "a"), [I] + E(1, "c"), [I] + E(1, "b"))      # ... and back (the remote has it)
        yield seq([I] + E(1, "a"), [I] + E(1, "c"), [I] + E(1, "e"), [I])  # moved between ignored names, removed
        yield seq([I, D(5, "d")] + E(1, "a"), [I, D(5, "d")] + E(1, "d/c"))   # into a directory, ignored name
        yield seq([I, D(5, "c")] + E(1, "a"), [I, D(5, "c")] + E(1, "c/a"))   # into an ignored directory
        yield seq([I, F(5, "b", "X")] + E(1, "a"), [I, F(5, "a", "X")] + E(1, "c"))  # chain a->c, b->a


def _cmd_corpus():
    s0 = [F(1, "a", "A")]
    s1 = [F(1, "a", "A"), F(2, "b", "B"), D(3, "d"), F(4, "d/c", "C")]
    s1b = [F(1, "a", "A2"), F(5, "e", "E")]
    # upload r1, uncommit, commit r1', upload -> refused; --overwrite -> incremental delta from r1 (deletes b, d, d/c)
    yield cmdseq([s0, s1, s1b], [["commit", 0], UP(), ["commit", 1], UP(), ["uncommit", 1], ["commit", 2], UP(), UP(overwrite=1)])
    # ... --full --overwrite keeps the stale paths (known: full never deletes)
    yield cmdseq([s0, s1, s1b], [["commit", 0], UP(), ["commit", 1], UP(), ["uncommit", 1], ["commit", 2], UP(full=1, overwrite=1)])
    # an older mainline revision: refused without --overwrite, incremental backwards with it; then forwards again
    yield cmdseq([s0, s1, s1b], [["commit", 0], ["commit", 1], ["commit", 2], UP(), UP(rev=1), UP(rev=1, overwrite=1), UP()])
    # --overwrite when nothing diverged; --full first; same revision twice
    yield cmdseq([s0, s1], [["commit", 0], UP(full=1), UP(), ["commit", 1], UP(overwrite=1), UP()])
    # two revisions replaced
    yield cmdseq([s0, s1, s1b, s0], [["commit", 0], ["commit", 1], ["commit", 2], UP(), ["uncommit", 2], ["commit", 3], UP(), UP(overwrite=1)])


def _random_cmd(rng, tier):
    st = {}
    nextid = 1
    states = []
    script = []
    depth = 0
    uploaded_once = False
    for r in range(rng.randint(3, 6)):
        for _ in range(rng.randint(2, 3) if r == 0 else rng.choice([1, 1, 2])):
            # only changes the uploader handles (no renames of nested things etc. are excluded by nothing: all ops)
            nextid = _mutate(rng, st, nextid, ["add"] if r == 0 else ["add", "add", "delete", "modify", "chmod", "rename", "swap"])
        states.append([[i] + list(v) for i, v in sorted(st.items())])
        script.append(["commit", len(states) - 1])
        depth += 1
        if rng.random() < 0.7:
            script.append(UP(full=int(rng.random() < 0.1), overwrite=int(rng.random() < 0.3)))
            uploaded_once = True
        if uploaded_once and depth >= 2 and rng.random() < 0.45:
            n = 1 if depth == 2 or rng.random() < 0.7 else 2
            script.append(["uncommit", n])
            depth -= n
            nextid = _mutate(rng, st, nextid, ["add", "delete", "modify", "rename"])
            states.append([[i] + list(v) for i, v in sorted(st.items())])
            script.append(["commit", len(states) - 1])
            depth += 1
            script.append(UP())
            script.append(UP(overwrite=1))
    if script[-1][0] != "upload":
        script.append(UP(overwrite=int(rng.random() < 0.5)))
    return {"kind": "cmd", "revs": [{"ents": x} for x in states], "script": script}


def cases(rng, tier):
    yield from _exhaustive_flat()
    yield from _exhaustive_dir()
    yield from _ignore_boundary_cases()
    yield from _cmd_corpus()
    for _ in range(200 if tier == "quick" else 1300):
        yield _random_seq(rng, tier)
    for _ in range(60 if tier == "quick" else 400):
        yield _random_cmd(rng, tier)


def nontrivial(inp, obs):
    steps = plan(inp)[2]
    return len(steps) >= 2 and not all(f for _, f, _ in steps[1:])


def distribution(inputs, observations):
    d = {"sequences": 0, "cmd_sequences": 0, "uploads": 0, "uploads_ok": 0, "uploads_failed": 0, "uploads_refused": 0,
         "full_steps": 0, "overwrite_diverged": 0,
         "patterns": {}, "classes": {"removed": 0, "added": 0, "renamed": 0, "kind_changed": 0, "modified": 0},
         "with_ignore": 0, "out_of_order": 0}
    for inp, obs in zip(inputs, observations):
        d["sequences"] += 1
        if isinstance(obs, Err):
            continue
        trees, parents, steps = plan(inp)
        if inp.get("kind") == "cmd":
            d["cmd_sequences"] += 1
        if any(rev_ign(r) for r in trees):
            d["with_ignore"] += 1
        if [k for k, _, _ in steps] != sorted(k for k, _, _ in steps):
            d["out_of_order"] += 1
        marker = None
        for (k, full, ow), st in zip(steps, obs):
            d["uploads"] += 1
            if len(st) == 2 and st[0] == "DivergedUploadedTree":
                d["uploads_refused"] += 1
                continue
            ok = len(st) == 2 and st[0] == "ok"
            d["uploads_ok" if ok else "uploads_failed"] += 1
            if marker is not None and not is_ancestor(parents, marker, k):
                d["overwrite_diverged"] += 1
            if full:
                d["full_steps"] += 1
            elif marker is not None:
                c = classify(rev_map(trees[marker]), rev_map(trees[k]))
                for key in d["classes"]:
                    d["classes"][key] += len(c[key])
                for p in patterns(rev_map(trees[marker]), rev_map(trees[k]), rev_ign(trees[k]), rev_ign(trees[marker])):
                    d["patterns"][p] = d["patterns"].get(p, 0) + 1
            marker = k
    return d


def shrink(inp, fails):
    cur = inp
    if inp.get("kind") == "cmd":
        # drop trailing script operations
        while len(cur["script"]) > 2:
            cand = dict(cur, script=cur["script"][:-1])
            try:
                if not fails(cand):
                    break
            except Exception:
                break
            cur = cand
        return cur
    changed = True
    while changed:
        changed = False
        # drop trailing steps, then single entries
        if len(cur["steps"]) > 1:
            cand = dict(cur, steps=cur["steps"][:-1])
            if fails(cand):
                cur, changed = cand, True
                continue
        for ri, r in enumerate(cur["revs"]):
            for ei, e in enumerate(r["ents"]):
                if any(is_prefix(e[1], o[1]) and o is not e for o in r["ents"]):
                    continue
                nr = {"ents": r["ents"][:ei] + r["ents"][ei + 1:]}
                cand = dict(cur, revs=cur["revs"][:ri] + [nr] + cur["revs"][ri + 1:])
                try:
                    if fails(cand):
                        cur, changed = cand, True
                        break
                except Exception:
                    pass
            if changed:
                break
    return cur
