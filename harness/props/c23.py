"""C23 -- Checkouts and their master branches stay in step (tie H).

One real 2a master branch (with its own working tree = checkout 0), plus
heavyweight and lightweight checkouts of it on disk.  A case is a sequence of
operations (<= 12): commit through a checkout (optionally --local, optionally
with a fault injected at the k-th tip/tree write of the commit), update, pull
(from the master or from another checkout's branch), bind, unbind.  After every
operation the driver re-opens everything and records the master's
last_revision_info and, per checkout, tree.branch.last_revision_info(), whether
the branch is bound, and tree.get_parent_ids().  The same sequence is run by
the Coq model (Model/Bound.v run_case) and compared observation by observation.

Revision ids are b"r<n>" with n = number of revisions created so far, which is
the id the model gives the revision (its index in the shared Lib/Dag graph).
"""
import atexit
import contextlib
import os
import shutil
import tempfile

import daglib
from vlib import Tag, Err, coq_bool, coq_list, coq_nat

PROP = "C23"
COQ = {
    "property_file": "Properties/C23.v",
    "imports": "From BV Require Import Model.Bound.",
}
META = {
    "level": "proof",
    "title": "Checkouts and their master branches stay in step",
    "technique": ("Coq theorems over a hand model of Commit._check_bound_branch/_check_out_of_date_tree/_update_branches, "
                  "BzrBranch.update/bind/unbind, WorkingTree.update/_update_tree/pull and GenericInterBranch.pull on a system of "
                  "one master and any number of heavyweight/lightweight checkouts over a shared Lib/Dag revision graph "
                  "(arbitrary operation sequences, induction over the sequence) + correspondence on real 2a branches and trees"),
    "level_text": ("partial (P-core): for every state and every operation sequence of the model: a successful bound commit leaves "
                   "master and local branch on the new revision; a moved/diverged master refuses the commit with the state unchanged; "
                   "the commit writes master, local branch, tree in that order so a fault after any prefix never leaves the local "
                   "branch ahead; update equalises local and master when the master is not empty (refuted for an empty master: a "
                   "candidate finding) and never drops unmerged local commits (they stay in the ancestry of the tree's parents, also for a tree left "
                   "behind its branch -- repaired in /repo b71bd73); pull from the master equalises, any pull keeps an in-step pair in step; a --local commit "
                   "changes only that checkout; without --local commits and unbind every local tip stays an ancestor-or-equal of the "
                   "master tip in all reachable states.  Contents, fetch between repositories, tags and hooks are not modelled."),
    "level_note": ("Trusted: Coq kernel, vm_compute, the hand model's correspondence (bounded sampling of operation sequences), "
                   "vcsgraph heads/is_ancestor as modelled by Lib/Dag.  Only local bzr 2a branches with dirstate trees; content-free "
                   "commits (no merge conflicts); RemoteBranch masters and git are not exercised."),
    "design_ref": "DESIGN.md §5 C23",
    "trusted_base": ["hand model coq/Model/Bound.v of breezy/commit.py, breezy/bzr/branch.py, breezy/bzr/workingtree.py, breezy/bzr/workingtree_4.py",
                     "coq/Model/BranchUpdate.v (C21) for GenericInterBranch._update_revisions",
                     "coq/Lib/Dag.v as a model of vcsgraph (heads, is_ancestor)",
                     "correspondence harness harness/props/c23.py"],
    "assumptions": ["vcsgraph Graph.heads / Graph.is_ancestor behave like Lib/Dag heads / is_ancestor (validated through the tree-parent and update observations of every run; also C21 kind=graph)",
                    "all repositories hold every revision they are asked for (fetch succeeds; one shared graph in the model)",
                    "commits are content-free, so the merges done by update/pull never conflict",
                    "the master branch is never itself bound; no ghosts; no uncommit / direct set_last_revision_info from outside",
                    "a fault is an exception raised on entry to BzrBranch.set_last_revision_info / DirStateWorkingTree.update_basis_by_delta"],
    "rule": ("cases = operation sequences; non-trivial = at least one successful bound commit or update/pull that moved a tip, "
             "or a refusal / injected fault; distinct = distinct (input, observation)"),
}
SHARD = 60

_state = {}


class InjectedFault(Exception):
    pass


def _ensure():
    if "dir" in _state and os.path.isdir(_state["dir"]):
        return
    import breezy
    import breezy.bzr  # noqa: F401
    from breezy import lockdir, trace, ui
    sd = os.environ.get("VERIF_SCRATCH")
    d = tempfile.mkdtemp(prefix="verif-c23-", dir=sd if sd and os.path.isdir(sd) else None)
    if not os.path.isdir(os.environ.get("BRZ_HOME", "")):
        os.environ["BRZ_HOME"] = d       # replay / shrink outside setup(): the scratch home is gone
    atexit.register(shutil.rmtree, d, True)    # shrink/replay run after teardown(): nobody else removes it
    _state.update(dir=d, own=True, n=0, lock_timeout=lockdir._DEFAULT_TIMEOUT_SECONDS)
    lockdir._DEFAULT_TIMEOUT_SECONDS = 0
    ui.ui_factory = ui.SilentUIFactory()
    trace.be_quiet(True)


def setup(scratch):
    import breezy
    import breezy.bzr  # noqa: F401
    from breezy import lockdir, trace, ui
    _state.update(dir=scratch, own=False, n=0, lock_timeout=lockdir._DEFAULT_TIMEOUT_SECONDS)
    lockdir._DEFAULT_TIMEOUT_SECONDS = 0
    ui.ui_factory = ui.SilentUIFactory()
    trace.be_quiet(True)


def teardown():
    if "lock_timeout" in _state:
        from breezy import lockdir
        lockdir._DEFAULT_TIMEOUT_SECONDS = _state["lock_timeout"]
    if _state.get("own") and _state.get("dir"):
        shutil.rmtree(_state["dir"], ignore_errors=True)
    _state.clear()


# ---- inputs ------------------------------------------------------------------------
# {"kinds": [bool...], "root": bool, "ops": [...]}; kinds[0] is always False (the master's own tree).
# ops: ["c", i, local, fault]  fault = -1 (none) or k;  ["u", i];  ["p", i, j, k]  j = -1: the master; k (optional) = -1: no stop revision,
#      k >= 0: pull -r <k-th left-hand ancestor of the source tip>;
#      ["b", i];  ["U", i];  ["r", i, j]: checkout i's commit with checkout j's whole commit running just before
#      i first write-locks the master (after i's unlocked comparison of the local and master tips)

STD = [False, True, False]


def _case(kinds, root, ops):
    return {"kinds": list(kinds), "root": bool(root), "ops": [list(o) for o in ops]}


def corpus():
    return [
        # the empty-master update (candidate finding C23-update-empty-master)
        _case(STD, False, [["c", 1, 1, -1], ["u", 1], ["c", 1, 0, -1]]),
        # local tip written, tree not (fault), then update: regression input of the repaired C23-update-stale-tree-drops-old-tip (must pass)
        _case(STD, True, [["c", 1, 1, 1], ["u", 1]]),
        # bound commit; stale light tree refused; update; commit
        _case(STD, True, [["c", 1, 0, -1], ["c", 2, 0, -1], ["u", 2], ["c", 2, 0, -1], ["c", 1, 0, -1], ["u", 1], ["c", 1, 0, -1]]),
        # local commits, master moves, update pivots them into a pending merge, merge commit
        _case(STD, True, [["c", 1, 1, -1], ["c", 1, 1, -1], ["c", 0, 0, -1], ["c", 1, 0, -1], ["u", 1], ["c", 1, 0, -1], ["u", 0], ["u", 2]]),
        # every fault position of a bound commit, then recovery by update
        _case(STD, True, [["c", 1, 0, 0], ["c", 1, 0, 1], ["c", 1, 0, -1], ["u", 1], ["c", 1, 0, 2], ["c", 1, 0, -1], ["u", 1], ["c", 1, 0, 3]]),
        # faults of unbound / light / local commits
        _case(STD, True, [["c", 2, 0, 0], ["c", 2, 0, 1], ["u", 2], ["c", 1, 1, 0], ["c", 1, 1, 1], ["U", 1], ["c", 1, 0, 0], ["c", 1, 0, 1]]),
        # pulls: master first, divergence, source is master
        _case(STD, True, [["c", 2, 0, -1], ["p", 1, -1], ["c", 1, 1, -1], ["p", 0, 1], ["p", 2, 1], ["c", 0, 0, -1], ["c", 1, 1, -1], ["p", 1, -1], ["p", 1, 2], ["p", 2, 1]]),
        # unbind, commit, rebind, out of date, update
        _case(STD, True, [["U", 1], ["c", 1, 0, -1], ["c", 1, 1, -1], ["c", 0, 0, -1], ["b", 1], ["c", 1, 0, -1], ["u", 1], ["c", 1, 0, -1]]),
        # two heavy checkouts: pull between them goes through the master
        _case([False, True, True, False], True, [["c", 1, 1, -1], ["p", 2, 1], ["c", 2, 0, -1], ["u", 1], ["c", 1, 1, -1], ["p", 2, 1], ["c", 3, 0, -1], ["p", 2, 1]]),
        # pull -r from a third branch into a bound checkout: master and local both stop at the requested revision
        _case([False, True, True], True, [["c", 2, 1, -1], ["c", 2, 1, -1], ["c", 2, 1, -1], ["p", 1, 2, 1], ["c", 1, 0, -1], ["p", 1, 2, 0], ["p", 0, 2, 5]]),
        _case([False, True, True, False], True, [["c", 2, 1, -1], ["c", 2, 1, -1], ["p", 1, 2, 2], ["p", 1, 2, 1], ["p", 3, 2, 1], ["p", 1, -1, 1], ["u", 1], ["p", 1, 2, -1]]),
        _case([False, True, True], False, [["c", 2, 1, -1], ["c", 2, 1, -1], ["p", 1, 2, 1], ["p", 1, 2, 3], ["U", 1], ["p", 1, 2, 0]]),
        # two committers: the other commit lands between the tip comparison and the master lock
        _case([False, True, True], True, [["r", 1, 2], ["u", 1], ["r", 1, 0], ["u", 1], ["u", 0], ["c", 2, 1, -1], ["r", 1, 2], ["r", 2, 1]]),
        _case(STD, True, [["r", 1, 2], ["r", 1, 2], ["u", 1], ["u", 2], ["r", 1, 2], ["U", 1], ["r", 1, 2], ["r", 1, 1]]),
        _case([False, True, True, False], False, [["r", 2, 1], ["u", 2], ["r", 2, 3], ["r", 1, 2], ["u", 1], ["u", 2], ["r", 1, 2]]),
        _case([False, True, True], False, [["c", 1, 0, -1], ["c", 2, 0, -1], ["u", 2], ["c", 2, 1, -1], ["p", 1, 2], ["u", 0], ["c", 0, 0, -1]]),
    ]


def _gen_ops(rng, kinds, n):
    heavy = [i for i, h in enumerate(kinds) if h]
    allc = list(range(len(kinds)))
    ops = []
    for _ in range(n):
        x = rng.random()
        if x < 0.34:
            ops.append(["c", rng.choice(allc) if rng.random() < 0.6 else rng.choice(heavy or allc), 0, -1])
        elif x < 0.46:
            ops.append(["c", rng.choice(heavy) if heavy and rng.random() < 0.9 else rng.choice(allc), 1, -1])
        elif x < 0.58:
            i = rng.choice(heavy) if heavy and rng.random() < 0.7 else rng.choice(allc)
            ops.append(["c", i, 1 if rng.random() < 0.2 else 0, rng.randrange(0, 4)])
        elif x < 0.78:
            ops.append(["u", rng.choice(heavy) if heavy and rng.random() < 0.6 else rng.choice(allc)])
        elif x < 0.93:
            i = rng.choice(allc)
            if kinds[i]:
                srcs = [-1] + [j for j in allc if j != i]
            else:
                srcs = [j for j in heavy]
            if not srcs:
                ops.append(["u", i])
            else:
                j = rng.choice(srcs)
                if kinds[i] and rng.random() < 0.5:
                    hs = [x for x in heavy if x != i]       # a third branch as source (goes through the master)
                    if hs:
                        j = rng.choice(hs)
                ops.append(["p", i, j, rng.choice([0, 1, 1, 2, 3]) if rng.random() < 0.45 else -1])
        elif x < 0.96 and heavy:
            i = rng.choice(heavy)
            ops.append(["r", i, rng.choice([j for j in allc if j != i])])
        elif heavy:
            ops.append([rng.choice(["b", "U"]), rng.choice(heavy)])
        else:
            ops.append(["u", rng.choice(allc)])
    return ops


def cases(rng, tier):
    # exhaustive: every single operation and every pair (first op, second op) from a small alphabet
    alpha = [["c", 0, 0, -1], ["c", 1, 0, -1], ["c", 2, 0, -1], ["c", 1, 1, -1], ["c", 1, 0, 1], ["u", 1], ["u", 2],
             ["p", 1, -1], ["p", 0, 1], ["p", 0, 1, 1], ["U", 1], ["r", 1, 2], ["r", 1, 0]]
    for root in (True, False):
        for a in alpha:
            yield _case(STD, root, [a])
    pairs = [(a, b) for a in alpha for b in alpha]
    if tier == "quick":
        pairs = rng.sample(pairs, 24)
    for a, b in pairs:
        yield _case(STD, True, [a, b, ["c", 1, 0, -1], ["u", 1]])
    # pull -r scenarios: a second heavyweight checkout gets ahead (local or unbound commits), then a bound
    # checkout pulls from it with a stop revision; random operations before and after
    for _ in range(20 if tier == "quick" else 150):
        kinds = rng.choice([[False, True, True], [False, True, True, False]])
        a, b = rng.sample([1, 2], 2)
        pre = _gen_ops(rng, kinds, rng.randrange(0, 3))
        if rng.random() < 0.25:
            pre.append(["U", a])
        na = rng.randrange(2, 6)
        ahead = [["c", a, 1 if rng.random() < 0.8 else 0, -1] for _ in range(na)]
        mid = rng.choice([[], [], [["u", b]], [["u", b]], [["c", 0, 0, -1], ["u", b]], [["c", b, 0, -1]]])
        pulls = [["p", rng.choice([b, b, b, 0, len(kinds) - 1]), a,
                  rng.randrange(1, na) if rng.random() < 0.8 else rng.randrange(0, 5)] for _ in range(rng.randrange(1, 3))]
        post = _gen_ops(rng, kinds, rng.randrange(0, 3))
        yield _case(kinds, rng.random() < 0.85, (pre + ahead + mid + pulls + post)[:12])
    n = 90 if tier == "quick" else 900
    for _ in range(n):
        x = rng.random()
        if x < 0.55:
            kinds = STD
        elif x < 0.8:
            kinds = [False, True, True, False]
        elif x < 0.93:
            kinds = [False, True, True]
        else:
            kinds = [False, True]
        root = rng.random() < 0.85
        yield _case(kinds, root, _gen_ops(rng, kinds, rng.randrange(3, 13)))


# ---- implementation driver ------------------------------------------------------------

def _path(base, i):
    return os.path.join(base, "c%d" % i)


def _info(b):
    revno, revid = b.last_revision_info()
    return [revno, daglib.idx(revid)]


def _observe(base, nk):
    from breezy.branch import Branch
    from breezy.workingtree import WorkingTree
    cos = []
    for i in range(nk):
        t = WorkingTree.open(_path(base, i))
        cos.append([_info(t.branch), t.branch.get_bound_location() is not None,
                    [daglib.idx(p) for p in t.get_parent_ids()]])
    return [_info(Branch.open(_path(base, 0))), cos]


@contextlib.contextmanager
def _fault_at(k):
    """The k-th call (from 0) of a tip write / tree basis write raises InjectedFault on entry."""
    from breezy.bzr import branch as bb, workingtree_4 as wt4
    if k < 0:
        yield
        return
    count = [0]
    orig_set = bb.BzrBranch.set_last_revision_info
    orig_upd = wt4.DirStateWorkingTree.update_basis_by_delta

    def tick():
        c = count[0]
        count[0] += 1
        if c == k:
            raise InjectedFault()

    def set_last_revision_info(self, revno, revision_id):
        tick()
        return orig_set(self, revno, revision_id)

    def update_basis_by_delta(self, new_revid, delta):
        tick()
        return orig_upd(self, new_revid, delta)

    bb.BzrBranch.set_last_revision_info = set_last_revision_info
    wt4.DirStateWorkingTree.update_basis_by_delta = update_basis_by_delta
    try:
        yield
    finally:
        bb.BzrBranch.set_last_revision_info = orig_set
        wt4.DirStateWorkingTree.update_basis_by_delta = orig_upd


def _back(op):
    return op[3] if len(op) > 3 else -1


def _stop_revision(src, k):
    """The k-th left-hand ancestor of the source tip (the oldest when the history is shorter)."""
    if k < 0:
        return None
    src.lock_read()
    try:
        tip = src.last_revision()
        if tip == b"null:":
            return None
        lh = [r for r in src.repository.get_graph().iter_lefthand_ancestry(tip, (b"null:",)) if r != b"null:"]
    finally:
        src.unlock()
    return lh[min(k, len(lh) - 1)]


EXPECTED = ("BoundBranchOutOfDate", "OutOfDateTree", "LocalRequiresBoundBranch", "DivergedBranches", "InjectedFault")


@contextlib.contextmanager
def _before_master_lock(master_base, fire):
    """Run fire() once, just before the first write lock of the master taken inside the block."""
    from breezy.bzr import branch as bb
    orig = bb.BzrBranch.lock_write
    armed = [True]

    def lock_write(self, *args, **kwargs):
        if armed[0] and self.base.rstrip("/") == master_base.rstrip("/"):
            armed[0] = False
            fire()
        return orig(self, *args, **kwargs)

    bb.BzrBranch.lock_write = lock_write
    try:
        yield
    finally:
        bb.BzrBranch.lock_write = orig


def _do_race(base, op, nrev):
    """Checkout op[1] commits; checkout op[2]'s whole commit runs at the race point.  Returns (status, ids used)."""
    from breezy.branch import Branch
    from breezy.commit import NullCommitReporter
    from breezy.workingtree import WorkingTree
    t = WorkingTree.open(_path(base, op[1]))
    fired = []

    def fire():
        fired.append(_do(base, ["c", op[2], 0, -1], nrev + 1)[1])

    heavy_other = t.branch.base.rstrip("/") != Branch.open(_path(base, 0)).base.rstrip("/") and op[1] != op[2]
    try:
        with (_before_master_lock(Branch.open(_path(base, 0)).base, fire) if heavy_other else contextlib.nullcontext()):
            t.commit("m", rev_id=daglib.rid(nrev), allow_pointless=True, local=False,
                     committer="t <t@example.com>", timestamp=1000000000.0 + nrev, timezone=0,
                     reporter=NullCommitReporter())
        st, created = Tag("ok"), 1
    except Exception as e:
        name = type(e).__name__
        if name not in EXPECTED:
            raise
        st, created = Err(name), 0
    if fired:
        return st, 1 + fired[0]       # this commit's id is reserved whether or not it was used
    return st, created


def _do(base, op, nrev):
    """Run one operation; returns (status, revisions created)."""
    from breezy.branch import Branch
    from breezy.commit import NullCommitReporter
    from breezy.workingtree import WorkingTree
    kind = op[0]
    if kind == "r":
        return _do_race(base, op, nrev)
    t = WorkingTree.open(_path(base, op[1]))
    try:
        if kind == "c":
            created = 0
            try:
                with _fault_at(op[3]):
                    t.commit("m", rev_id=daglib.rid(nrev), allow_pointless=True, local=bool(op[2]),
                             committer="t <t@example.com>", timestamp=1000000000.0 + nrev, timezone=0,
                             reporter=NullCommitReporter())
                created = 1
            except InjectedFault:
                return Err("InjectedFault"), 1
            return Tag("ok"), created
        if kind == "u":
            t.update()
        elif kind == "p":
            src = Branch.open(_path(base, 0)) if op[2] < 0 else WorkingTree.open(_path(base, op[2])).branch
            t.pull(src, stop_revision=_stop_revision(src, _back(op)))
        elif kind == "b":
            t.branch.bind(Branch.open(_path(base, 0)))
        elif kind == "U":
            t.branch.unbind()
        else:
            raise ValueError(op)
        return Tag("ok"), 0
    except Exception as e:
        name = type(e).__name__
        if name in EXPECTED:
            return Err(name), 0
        raise


def impl(inp):
    _ensure()
    from breezy import controldir
    from breezy.commit import NullCommitReporter
    _state["n"] += 1
    base = os.path.join(_state["dir"], "k%d" % _state["n"])
    os.mkdir(base)
    try:
        kinds = inp["kinds"]
        fmt = controldir.format_registry.make_controldir("2a")
        mt = controldir.ControlDir.create_standalone_workingtree(_path(base, 0), format=fmt)
        nrev = 0
        if inp["root"]:
            mt.commit("root", rev_id=daglib.rid(0), allow_pointless=True, committer="t <t@example.com>",
                      timestamp=1000000000.0, timezone=0, reporter=NullCommitReporter())
            nrev = 1
        for i, h in enumerate(kinds):
            if i == 0:
                continue
            mt.branch.create_checkout(_path(base, i), lightweight=not h)
        out = [_observe(base, len(kinds))]
        for op in inp["ops"]:
            st, created = _do(base, op, nrev)
            nrev += created
            out.append([st, _observe(base, len(kinds))])
        return out
    finally:
        shutil.rmtree(base, ignore_errors=True)


# ---- model term ---------------------------------------------------------------------------

def _coq_op(op):
    k = op[0]
    if k == "c":
        f = "None" if op[3] < 0 else "(Some %d)" % op[3]
        return "Commit %d %s %s" % (op[1], coq_bool(bool(op[2])), f)
    if k == "u":
        return "Update %d" % op[1]
    if k == "p":
        return "Pull %d %s %s" % (op[1], "SMaster" if op[2] < 0 else "(SCo %d)" % op[2],
                                  "None" if _back(op) < 0 else "(Some %d)" % _back(op))
    if k == "b":
        return "Bind %d" % op[1]
    if k == "U":
        return "Unbind %d" % op[1]
    if k == "r":
        return "CommitRace %d %d" % (op[1], op[2])
    raise ValueError(op)


def model_term(inp):
    return "run_case %s %s %s" % (coq_list([coq_bool(h) for h in inp["kinds"]]), coq_bool(inp["root"]),
                                  coq_list([_coq_op(o) for o in inp["ops"]]))


# ---- property oracle -------------------------------------------------------------------------

def _is_err(st, name=None):
    return isinstance(st, Err) and (name is None or str(st) == name)


def _anc_opt(g, a, b):
    """a ancestor-or-equal of b, None = null:"""
    if a is None:
        return True
    if b is None:
        return False
    return daglib.is_ancestor(g, a, b)


def oracle(inp, obs):
    if isinstance(obs, Err):
        return None     # driver error: reported by the framework
    kinds = inp["kinds"]
    g = [[]] if inp["root"] else []
    before = obs[0]
    clean = True        # no --local commit, no unbind so far
    for n, (op, (st, after)) in enumerate(zip(inp["ops"], obs[1:])):
        where = "op %d %r: " % (n, op)
        m0, cos0 = before
        m1, cos1 = after
        i = op[1]
        heavy = kinds[i]
        b0, bound0, ps0 = cos0[i]
        b1, bound1, ps1 = cos1[i]
        if op[0] == "r":
            j = op[2]
            if not (heavy and bound0 and b0[1] == m0[1] and i != j):
                op = ["c", i, 0, -1]          # never reached the master lock: a plain commit, the other committer did nothing
            else:
                # i's id is reserved, then the other committer's revision
                n_i = len(g)
                g.append(list(ps0))
                j_created = cos1[j][2] == [n_i + 1]
                if j_created:
                    g.append(list(cos0[j][2]))
                if kinds[j] and not cos0[j][1]:
                    clean = False             # the other committer's branch is not bound: its commit is local
                if j_created and (not kinds[j] or cos0[j][1]) and cos1[j][0][1] == n_i + 1 and not _anc_opt(g, n_i + 1, m1[1]):
                    return where + ("the other committer's revision %d, recorded in the master while this commit was between its "
                                    "tip comparison and the master lock, is gone from the master's history (master %r)" % (n_i + 1, m1))
                if j_created and (not kinds[j] or cos0[j][1]) and cos1[j][0][1] == n_i + 1 and st == Tag("ok"):
                    return where + "the master moved before it was locked, yet the bound commit was not refused"
                if _is_err(st) and (b1 != b0 or ps1 != ps0):
                    return where + "refused commit changed its own checkout"
                if st == Tag("ok") and (m1 != b1 or b1[1] != n_i or ps1 != [n_i]):
                    return where + "successful bound commit: master %r, local %r, tree %r" % (m1, b1, ps1)
                if not _anc_opt(g, m0[1], m1[1]):
                    return where + "the master moved backwards: %r -> %r" % (m0, m1)
                before = after
                continue
        others_same = all(cos0[j] == cos1[j] for j in range(len(kinds)) if j != i and kinds[j]) and \
            all(cos0[j][2] == cos1[j][2] for j in range(len(kinds)) if j != i)
        if op[0] == "c":
            new = len(g)
            if st == Tag("ok") or _is_err(st, "InjectedFault"):
                g.append(list(ps0))
            if op[2]:
                clean = clean and not (st == Tag("ok") or _is_err(st, "InjectedFault"))
            is_bound = heavy and bound0
            via_master = is_bound and not op[2]
            if via_master and b0[1] != m0[1] and not _is_err(st, "BoundBranchOutOfDate"):
                return where + "master and local tips differ but the bound commit was not refused with BoundBranchOutOfDate (%s)" % (st,)
            if _is_err(st) and not _is_err(st, "InjectedFault") and after != before:
                return where + "refused commit changed the state"
            if st == Tag("ok"):
                if b1[1] != new or ps1 != [new]:
                    return where + "successful commit did not leave branch and tree on the new revision"
                if via_master and (m1 != b1):
                    return where + "successful bound commit: master %r != local %r" % (m1, b1)
                if not others_same:
                    return where + "commit changed another checkout"
                if heavy and not via_master and m1 != m0:
                    return where + "a local-only commit changed the master"
            if _is_err(st, "InjectedFault"):
                if via_master and b1[1] == new and m1[1] != new:
                    return where + "fault left the local branch ahead of the master"
                if ps1 == [new] and b1[1] != new:
                    return where + "fault left the tree ahead of its branch"
                if b1[1] not in (b0[1], new) or m1[1] not in (m0[1], new):
                    return where + "fault left a tip that is neither old nor new"
                if heavy and not via_master and m1 != m0:
                    return where + "a local-only commit changed the master"
        elif op[0] == "u" and st == Tag("ok"):
            if m1 != m0:
                return where + "update changed the master"
            if heavy and bound0 and b1 != m1:
                if m0[1] is None:
                    return "update-empty-master: " + where + "update left local %r != empty master" % (b1,)
                return where + "update left local %r != master %r" % (b1, m1)
            if b1[1] is not None and ps1[:1] != [b1[1]]:
                return where + "update left the tree basis %r off the branch tip %r" % (ps1, b1)
            if heavy and bound0 and not _anc_opt(g, b0[1], m1[1]) and not any(_anc_opt(g, b0[1], p) for p in ps1):
                return where + "update dropped the local commits (old tip not reachable from the tree parents)"
            if not others_same:
                return where + "update changed another checkout"
        elif op[0] == "p":
            from_master = (op[2] < 0 or not kinds[op[2]]) and _back(op) < 0      # a plain pull from the master
            if st == Tag("ok"):
                if heavy and bound0 and from_master and not _anc_opt(g, m1[1], b1[1]):
                    return where + "pull from the master left local %r without the master's tip %r" % (b1, m1)
                if heavy and bound0 and from_master and _anc_opt(g, b0[1], m0[1]) and b1[1] != m1[1]:
                    return where + "pull from the master (no unmerged local commits) left local %r != master %r" % (b1, m1)
                if heavy and bound0 and b0[1] == m0[1] and b1[1] != m1[1]:
                    return where + "pull took an in-step checkout out of step: local %r master %r" % (b1, m1)
                if b1[1] is not None and b1 != b0 and ps1[:1] != [b1[1]]:
                    return where + "pull left the tree basis off the branch tip"
            if not _anc_opt(g, b0[1], b1[1]):
                return where + "pull dropped the old tip of the target"
            # nothing but the requested revision is ever installed (pull -r: the stop revision, else the source tip)
            sb0 = m0 if op[2] < 0 else cos0[op[2]][0]
            want = sb0[1]
            if _back(op) >= 0 and want is not None:
                lh = daglib.lefthand(g, want)
                want = lh[min(_back(op), len(lh) - 1)]
            if m1[1] not in (m0[1], want):
                return where + "pull moved the master to %r, neither its old tip %r nor the requested revision %r" % (m1, m0, want)
            if b1[1] not in (b0[1], want):
                return where + "pull moved the branch to %r, neither its old tip %r nor the requested revision %r" % (b1, b0, want)
            if not others_same:
                return where + "pull changed another checkout"
        elif op[0] == "U":
            clean = False
        # global clauses
        if not _anc_opt(g, m0[1], m1[1]):
            return where + "the master moved backwards: %r -> %r" % (m0, m1)
        if clean:
            for j, h in enumerate(kinds):
                if h and not _anc_opt(g, cos1[j][0][1], m1[1]):
                    return where + "no --local commit / unbind so far, yet checkout %d tip %r is not in the master's ancestry (master %r)" % (j, cos1[j][0], m1)
        before = after
    return None


def finding_matches(fid, inp, obs, why):
    if fid == "C23-update-empty-master":
        # an update in a bound heavyweight checkout whose master is still empty
        return (not inp["root"]) and isinstance(why, str) and (why == "" or why.startswith("update-empty-master: "))
    return False


def nontrivial(inp, obs):
    if isinstance(obs, Err):
        return False
    prev = obs[0]
    for st, after in obs[1:]:
        if isinstance(st, Err) or after[0] != prev[0] or any(a[0] != b[0] for a, b in zip(after[1], prev[1])):
            return True
        prev = after
    return False


def shrink(inp, fails):
    cur = inp
    changed = True
    while changed:
        changed = False
        for k in range(len(cur["ops"])):
            cand = dict(cur, ops=cur["ops"][:k] + cur["ops"][k + 1:])
            if cand["ops"] and fails(cand):
                cur, changed = cand, True
                break
    return cur


def distribution(inputs, observations):
    d = {"ops": {}, "status": {}, "root_false": 0, "kinds": {}, "pull_r_master_stopped_short": 0}
    for inp, obs in zip(inputs, observations):
        d["root_false"] += 0 if inp["root"] else 1
        k = "".join("H" if h else "L" for h in inp["kinds"])
        d["kinds"][k] = d["kinds"].get(k, 0) + 1
        if isinstance(obs, Err):
            d["status"]["driver-error"] = d["status"].get("driver-error", 0) + 1
            continue
        prev = obs[0]
        for op, (st, after) in zip(inp["ops"], obs[1:]):
            if op[0] == "p" and _back(op) >= 0 and op[2] >= 0 and inp["kinds"][op[2]] and inp["kinds"][op[1]] \
                    and prev[1][op[1]][1] and after[0] != prev[0] and after[0][1] != prev[1][op[2]][0][1]:
                d["pull_r_master_stopped_short"] += 1    # bound target, third source: master moved, but not to the source tip
            prev = after
            key = op[0] + ("L" if op[0] == "c" and op[2] else "") + ("F" if op[0] == "c" and op[3] >= 0 else "")
            d["ops"][key] = d["ops"].get(key, 0) + 1
            s = key + ":" + str(st)
            d["status"][s] = d["status"].get(s, 0) + 1
    return d
