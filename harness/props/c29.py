"""C29 -- Smart protocol messages survive the wire unchanged (tie H, lock-step decoders + end to end)."""
import smart_common as sc
from vlib import Err

PROP = "C29"
COQ = {
    "property_file": "Properties/C29.v",
    "imports": "From BV Require Import Lib.Bytes Model.Smart Model.SmartBig.",
}
META = {
    "level": "proof",
    "title": "Smart protocol messages survive the wire unchanged",
    "technique": ("Coq theorems over a hand model of the codecs and decoder state machines of breezy/bzr/smart/protocol.py "
                  "(segmentation independence proved once per decoder, then round trips) + byte-exact / lock-step "
                  "correspondence with the real encoders and decoders + end-to-end oracle through the real media"),
    "level_text": ("Partial (P-core). Proved for every input and every segmentation of the byte stream: "
                   "LengthPrefixedBodyDecoder, ChunkedBodyDecoder (incl. error mid-stream) and the v3 "
                   "ProtocolThreeDecoder framing decode what the encoders wrote and keep the trailing bytes; "
                   "ConventionalResponseHandler rebuilds status/args/body/stream error (also before the first chunk); v1/v2 argument tuples and readv "
                   "offsets round-trip (tuples under the guard 'no \\x01/\\n in an argument', refuted without it). "
                   "The composition into whole v1/v2/v3 requests and responses (request handlers, media, bencode) is "
                   "covered by the end-to-end oracle only."),
    "level_note": ("Trusted: Coq kernel, vm_compute; the hand model's correspondence (bounded sampling + exhaustive single "
                   "split points); fastbencode as a correct bencode codec; Python int() on digit strings."),
    "design_ref": "DESIGN.md §5 C29",
    "trusted_base": ["hand model coq/Model/Smart.v of breezy/bzr/smart/protocol.py, message.py",
                     "correspondence harness harness/props/c29.py + harness/smart_common.py"],
    "assumptions": ["fastbencode: bdecode_as_tuple(bencode(x)) == x and bencode is canonical (checked by the oracle on every case)",
                    "Python int(b) / int(b,16) on digit strings = positional value (other spellings outside the model)",
                    "struct.pack('!L') is 4-byte big endian (lengths < 2^32)",
                    "callers do not feed a decoder again after accept_bytes raised"],
    "rule": ("messages from a grammar (bodies incl. b'done\\n'/b'chunked\\n'-looking content, 0-5 chunks, error after k chunks, "
             "v3 part sequences) x segmentations (every single split point for small messages, 1 byte at a time, random "
             "multi-splits) + mutated streams + whole requests/responses of v1,v2,v3 over pipes; non-trivial = more than one segment"),
}
SHARD = 200


def corpus():
    return [
        # the v1/v2 limitation (C29_tuple_roundtrip_refuted)
        {"kind": "tuple", "args": [b"\x01"]},
        {"kind": "tuple", "args": [b"a\nb"]},
        {"kind": "tuple", "args": []},
        {"kind": "dtuple", "line": b""},
        {"kind": "dtuple", "line": b"abc"},
        {"kind": "offsets", "offs": []},
        {"kind": "deser", "text": b"1,2\n\n3,4\n"},
        {"kind": "deser", "text": b"1,2,3"},
        {"kind": "lp_raw", "stream": b"3\nabcdXne\nzz", "lens": [4, 3]},
        # a stream failing after its chunks, whole response in ONE read (socket medium coalescing)
        {"kind": "cdec", "version": 3, "lens": [],
         "resp": {"ok": True, "args": [b"ok"], "kind": "stream", "chunks": [b"a", b"bc"], "err": [b"error", b"x"]}},
        sc.E2E_WITNESS,      # regression: stream error before the first chunk (fixed by 737004f)
        {"kind": "rh", "events": [["h"], ["o", b"S"], ["s", [b"ok"]], ["o", b"E"], ["s", [b"error", b"boom"]], ["e"]]},
    ]


def cases(rng, tier):
    small = list(_small_cases(rng, tier))
    big = list(sc.gen_big(rng, tier)) + list(sc.gen_e2e_big(rng, tier))
    # spread the large cases over the shards (they dominate the Coq evaluation time)
    step = max(1, len(small) // (len(big) + 1))
    for i, c in enumerate(small):
        yield c
        if i % step == step - 1 and big:
            yield big.pop(0)
    yield from big


def _small_cases(rng, tier):
    yield from sc.gen_level_a(rng, tier, hints=False)
    n = 150 if tier == "quick" else 2000
    for _ in range(n):
        yield {"kind": "tuple", "args": sc.gen_args(rng, sep_free=rng.random() < 0.7)}
        yield {"kind": "offsets", "offs": [[rng.choice([0, 1, 9, 10, 99, 100, 65535, 2 ** 32, rng.randrange(10 ** 6)]),
                                           rng.choice([0, 1, 10, 4096, rng.randrange(10 ** 5)])]
                                          for _ in range(rng.randint(0, 5))]}
        yield {"kind": "dtuple", "line": sc.rbytes(rng, rng.randint(0, 8), b"a\x01\n")}
        yield {"kind": "deser", "text": sc.rbytes(rng, rng.randint(0, 10), b"01,\n9")}
    yield from sc.gen_rh(rng, tier)
    yield from sc.gen_cdec(rng, tier)
    yield from sc.gen_e2e(rng, tier)


def impl(inp):
    if inp["kind"] == "e2e":
        return sc.impl_e2e(inp)
    return sc.impl_A(inp)


def model_term(inp):
    return sc.model_term_A(inp)


def _no_sep(args):
    return bool(args) and all(b"\x01" not in a and b"\n" not in a for a in args)


def oracle(inp, obs):
    """decode(encode m) = m with the tail preserved, on the implementation's observation."""
    if isinstance(obs, Err) and str(obs).startswith("DRIVER"):
        return "driver error " + str(obs)
    k = inp["kind"]
    if k in ("big", "big_enc"):
        return _oracle_big(inp, obs)
    if k == "cdec":
        return sc.oracle_cdec(inp, obs)
    if k == "lp":
        last = obs[1][-1]
        body = b"".join(o[2] for o in obs[1])
        if not last[1] or body != inp["body"] or last[3] != inp["tail"]:
            return f"body {inp['body']!r} + tail {inp['tail']!r} decoded as finished={last[1]} body={body!r} unused={last[3]!r}"
    elif k == "ck":
        last = obs[1][-1]
        if isinstance(last, Err) or not last[1] or last[2] != list(inp["chunks"]) or last[3] != inp["err"] or last[4] != inp["tail"]:
            return f"stream {inp['chunks']!r} err={inp['err']!r} tail={inp['tail']!r} decoded as {last!r}"
    elif k == "p3":
        last = obs[1][-1]
        want = [["headers", sc.bencode(dict(inp["headers"]))]]
        for p in inp["parts"]:
            want.append(["byte", p[1]] if p[0] == "o" else ["bytes", p[1]] if p[0] == "b"
                        else ["structure", sc.bencode(list(p[1]))])
        want.append(["end"])
        if isinstance(last, Err) or not last[1] or [list(e) for e in last[2]] != want or last[3] != inp["tail"]:
            return f"v3 message {inp['parts']!r} tail={inp['tail']!r} decoded as {last!r}"
        import fastbencode
        for p in inp["parts"]:
            if p[0] == "s" and fastbencode.bdecode_as_tuple(sc.bencode(list(p[1]))) != tuple(p[1]):
                return f"fastbencode does not round-trip {p[1]!r} (environment assumption)"
    elif k == "tuple":
        if _no_sep(inp["args"]) and obs[1] != list(inp["args"]):
            return f"args {inp['args']!r} decoded as {obs[1]!r}"
    elif k == "offsets":
        if obs[1] != [list(o) for o in inp["offs"]]:
            return f"offsets {inp['offs']!r} decoded as {obs[1]!r}"
    elif k == "rh":
        return _oracle_rh(inp, obs)
    elif k == "e2e":
        return sc.oracle_e2e(inp, obs)
    return None


def _oracle_big(inp, obs):
    """decode(encode m) = m on large messages, through digests."""
    last = obs[1][-1] if inp["kind"] == "big" else obs[1]
    tail = sc.dg(sc.expand(inp.get("tail", [])))
    d = inp["dec"]
    if isinstance(last, Err):
        return f"large {d} message failed to decode: {last}"
    if d == "lp":
        trace = obs[1] if inp["kind"] == "big" else [obs[1]]
        n = sum(o[2][0] for o in trace)
        want = sc.dg(sc.expand(inp["body"]))
        ok = last[1] and n == want[0] and last[3] == tail and (len(trace) > 1 or last[2] == want)
        if inp["kind"] == "big" and ok:
            # the pieces handed out by read_pending_data concatenate to the body
            P = sc._P()
            enc = P.SmartProtocolBase()._encode_bulk_data(sc.expand(inp["body"]))
            ok = sc.dg(b"".join(_lp_pieces(enc + sc.expand(inp["tail"]), inp["lens"]))) == want
        if not ok:
            return f"large bulk body of {want[0]} bytes decoded wrongly (finished={last[1]}, {n} bytes, unused {last[3]})"
    elif d == "ck":
        want = [sc.dg(sc.expand(c)) for c in inp["chunks"]]
        werr = None if inp["err"] is None else [sc.dg(a) for a in inp["err"]]
        if not last[1] or last[2] != want or last[3] != werr or last[4] != tail:
            return f"large stream {want} decoded as {last[2]} err={last[3]} finished={last[1]}"
    else:
        want = [["headers", sc.dg(sc.bencode(dict(inp["headers"])))]]
        for p in inp["parts"]:
            want.append(["byte", p[1]] if p[0] == "o" else ["bytes", sc.dg(sc.expand(p[1]))] if p[0] == "b"
                        else ["structure", sc.dg(sc.bencode(list(p[1])))])
        want.append(["end"])
        if not last[1] or [list(e) for e in last[2]] != want or last[3] != tail:
            return f"large v3 message decoded as {[list(e) for e in last[2]]} finished={last[1]}, expected {want}"
    return None


def _lp_pieces(stream, lens):
    P = sc._P()
    d = P.LengthPrefixedBodyDecoder()
    out = []
    for seg in sc.cut(lens, stream):
        d.accept_bytes(seg)
        out.append(d.read_pending_data())
    return out


def _oracle_rh(inp, obs):
    """A conventional response (status, args, [body | chunks [status [error]]], end) must be accepted and
    rebuilt exactly - in particular the error tuple of a stream that fails before its first chunk."""
    ev = [e for e in inp["events"] if e[0] not in ("h", "e")]
    if len(ev) < 2 or ev[0][0] != "o" or ev[0][1] not in (b"S", b"E") or ev[1][0] != "s":
        return None
    rest, i = ev[2:], 0
    chunks = []
    while i < len(rest) and rest[i][0] == "b":
        chunks.append(rest[i][1])
        i += 1
    tail = rest[i:]
    if tail == []:
        st, err = None, None
    elif len(tail) == 1 and tail[0] == ["o", b"S"]:
        st, err = b"S", None
    elif len(tail) == 2 and tail[0] == ["o", b"E"] and tail[1][0] == "s":
        st, err = b"E", sc.bencode(list(tail[1][1]))
    else:
        return None                                  # not a conventional response
    want = [ev[0][1], sc.bencode(list(ev[1][1])), chunks, bool(chunks) or st is not None, st, err]
    if isinstance(obs, Err) or list(obs) != want:
        return f"response parts {inp['events']!r} rebuilt as {obs!r}, expected {want!r}"
    return None


def finding_matches(fid, inp, obs, why):
    return False        # C29-v3-stream-error-before-first-chunk is fixed (737004f): nothing is excused


def nontrivial(inp, obs):
    if inp["kind"] == "e2e":
        return True
    return len(inp.get("lens", [])) >= 1 or inp["kind"] in ("tuple", "offsets")


def distribution(inputs, observations):
    d = {}
    for i in inputs:
        k = i["kind"] + ("/v%d" % i["version"] if i["kind"] == "e2e" else "")
        d[k] = d.get(k, 0) + 1
    d["one_byte_at_a_time"] = sum(1 for i in inputs if i.get("lens") and len(i["lens"]) > 3 and set(i["lens"]) == {1})
    d["single_split"] = sum(1 for i in inputs if len(i.get("lens", [])) == 1)
    d["with_tail"] = sum(1 for i in inputs if i.get("tail"))
    d["stream_error"] = sum(1 for i in inputs if i.get("err") is not None)
    d["e2e_stream_error_before_first_chunk"] = sum(1 for i in inputs if sc.is_stream_error_before_first_chunk(i))
    return d
