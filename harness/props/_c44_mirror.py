"""C44 helper: executable Python mirror of coq/Model/FastIO.v (development aid).

Used only (a) to evaluate the executable guard of C44_filecmds_sound_guarded on
generated inputs (finding_matches / distribution), (b) by `search`.  The check's
verdict never depends on it: model/implementation agreement is decided inside
Coq on the Gallina model.  Keep the two in step (same function names).

Entries are tuples (id, parent, name, kind, data, exec) with kind in "f","l","d";
the root directory is id 0 and is implicit.  Paths are b"a/b/c" byte strings.
"""


class ImpErr(Exception):
    pass


# ---------------------------------------------------------------- inventories

def find_entry(inv, i):
    for e in inv:
        if e[0] == i:
            return e
    return None


def child_named(inv, par, name):
    for e in inv:
        if e[1] == par and e[2] == name:
            return e
    return None


def is_dir(inv, i):
    if i == 0:
        return True
    e = find_entry(inv, i)
    return e is not None and e[3] == "d"


def path2id(inv, path):
    """Inventory.path2id: None when a component is missing or a non-directory is crossed."""
    cur = 0
    if path == b"":
        return 0
    for comp in path.split(b"/"):
        if comp == b"":
            continue
        if not is_dir(inv, cur):
            return None
        e = child_named(inv, cur, comp)
        if e is None:
            return None
        cur = e[0]
    return cur


def id2path(inv, i, fuel=None):
    if fuel is None:
        fuel = len(inv) + 1
    if i == 0:
        return b""
    if fuel == 0:
        return None
    e = find_entry(inv, i)
    if e is None:
        return None
    pp = id2path(inv, e[1], fuel - 1)
    if pp is None:
        return None
    return e[2] if pp == b"" else pp + b"/" + e[2]


def children(inv, i):
    return [e for e in inv if e[1] == i]


def descendants(inv, i, fuel=None):
    """iter_entries_by_dir(from_dir=i) without i itself: (relpath, entry), parents first."""
    if fuel is None:
        fuel = len(inv) + 1
    if fuel == 0:
        return []
    out = []
    for e in sorted(children(inv, i), key=lambda e: e[2]):
        out.append((e[2], e))
        if e[3] == "d":
            out.extend((e[2] + b"/" + p, x) for p, x in descendants(inv, e[0], fuel - 1))
    return out


def split(path):
    k = path.rfind(b"/")
    return (b"", path) if k < 0 else (path[:k], path[k + 1:])


def dirname(path):
    return split(path)[0]


def tree_of(inv):
    out = []
    for e in inv:
        p = id2path(inv, e[0])
        out.append([p, {"f": "exec" if e[5] else "file", "l": "link", "d": "dir"}[e[3]], e[4] if e[3] != "d" else b""])
    return sorted(out)


# ---------------------------------------------------------------- exporter

def changes_from(old, new):
    """TreeDelta of new.changes_from(old): (added, removed, renamed, kind_changed, modified);
    a change is (id, oldpath, newpath, oldentry, newentry)."""
    added, removed, renamed, kindch, modified = [], [], [], [], []
    for e in new:
        o = find_entry(old, e[0])
        if o is None:
            added.append((e[0], None, id2path(new, e[0]), None, e))
    for o in old:
        e = find_entry(new, o[0])
        ch = (o[0], id2path(old, o[0]), None if e is None else id2path(new, o[0]), o, e)
        if e is None:
            removed.append(ch)
        elif o[2] != e[2] or o[1] != e[1]:
            renamed.append(ch)
        elif o[3] != e[3]:
            kindch.append(ch)
        elif changed_content(o, e) or o[5] != e[5]:
            modified.append(ch)
    key_old = lambda c: (c[1], c[0])
    added.sort(key=lambda c: (c[2], c[0]))
    removed.sort(key=key_old)
    renamed.sort(key=key_old)
    modified.sort(key=key_old)
    kindch.sort(key=key_old)      # real order = iter_changes order; only M commands depend on it (compared as a set)
    return added, removed, renamed, kindch, modified


def changed_content(o, e):
    if o[3] != e[3]:
        return True
    if e[3] == "d":
        return False
    return o[4] != e[4]


def is_empty_dir(inv, path):
    i = path2id(inv, path)
    if i is None or not is_dir(inv, i):
        return False
    return not children(inv, i)


def process_renames_and_deletes(plain, renames, deletes, old):
    cmds, modifies = [], []
    must, old_to_new = [], []
    deleted_paths = [c[1] for c in deletes]
    for c in renames:
        _, op, np, o, e = c
        emit = e[3] != "d" or not plain
        if np in deleted_paths:
            if emit:
                cmds.append(("D", np))
            deleted_paths = [p for p in deleted_paths if p != np]
        if is_empty_dir(old, op):
            continue
        old_to_new.append(op)
        if emit:
            cmds.append(("R", op, np))
        if changed_content(o, e) or o[5] != e[5]:
            modifies.append(c)
        if o[3] == "d" and e[3] == "d" and plain:
            # plain streams: the files and symlinks below the directory (tree_old.walkdirs) are renamed
            # one by one; in a rich stream the directory's own rename carries them
            for rel, x in descendants(old, o[0]):
                if x[3] == "d":
                    continue
                k = op + b"/" + rel
                must = [(a, b) for a, b in must if a != k] + [(k, np + b"/" + rel)]
    for a, b in sorted(must):
        if a not in old_to_new and a not in deleted_paths:
            cmds.append(("R", a, b))
    for c in deletes:
        if c[1] not in deleted_paths:
            continue
        if c[3][3] == "d" and plain:
            continue
        cmds.append(("D", c[1]))
    return cmds, modifies


def modify_cmd(plain, e, path):
    if e[3] == "f":
        return [("M", path, "exec" if e[5] else "file", e[4])]
    if e[3] == "l":
        return [("M", path, "link", e[4])]
    return [] if plain else [("M", path, "dir", b"")]


def order_by(paths, mods):
    """The M commands in the order of `paths` (the order observed in the real stream: it comes from the CHK
    map's hash order for kind changes and from the repository's text storage order for files -- environment);
    commands whose path is not listed follow in sorted order."""
    out = []
    rest = sorted(mods)
    for p in paths:
        hit = [m for m in rest if m[1] == p]
        if hit:
            out.append(hit[0])
            rest.remove(hit[0])
    return out + rest


def filecmds(plain, old, new, mpaths=(), dpaths=()):
    """(ordered rename/delete commands, M commands) of _get_filecommands."""
    added, removed, renamed, kindch, modified = changes_from(old, new)
    cmds, rd_mod = process_renames_and_deletes(plain, renamed, removed, old)
    # a file or symlink that becomes a directory is deleted first (in iter_changes order, see order_by)
    cmds = order_by(list(dpaths), sorted(("D", c[1]) for c in kindch if c[4][3] == "d")) + cmds
    mods = []
    for c in added + modified + kindch + rd_mod:
        mods.extend(modify_cmd(plain, c[4], c[2]))
    return cmds, order_by(list(mpaths), mods)


# ---------------------------------------------------------------- importer (CommitHandler)

class St:
    def __init__(self, basis, fresh):
        self.basis = basis
        self.fresh = fresh          # next unused file id
        self.new_ids = []           # _new_file_ids      [(path, id)]
        self.mod_ids = []           # _modified_file_ids [(path, id)]
        self.deleted = []           # _paths_deleted_this_commit
        self.dirents = []           # directory_entries  [(path, entry)]
        self.delta = []             # _delta_entries_by_fileid, insertion ordered [(id, (old, new, id, ie))]
        self.maybe_empty = []       # _dirs_that_might_become_empty


def aget(al, k):
    for a, b in al:
        if a == k:
            return b
    return None


def aset(al, k, v):
    """dict assignment keeping the insertion position of an existing key."""
    if any(a == k for a, _ in al):
        return [(a, v if a == k else b) for a, b in al]
    return al + [(k, v)]


def adel(al, k):
    return [(a, b) for a, b in al if a != k]


def sadd(s, x):
    return s if x in s else s + [x]


def add_entry(st, entry):
    old_path, new_path, i, ie = entry
    existing = aget(st.delta, i)
    if existing is not None:
        old_path = existing[0]
        entry = (old_path, new_path, i, ie)
    if new_path is None and old_path is None:
        st.delta = adel(st.delta, i)
        if existing is None or existing[1] is None:
            raise ImpErr("AssertionError")
        pd = dirname(existing[1])
        if pd:
            st.maybe_empty = sadd(st.maybe_empty, pd)
        return
    st.delta = aset(st.delta, i, entry)
    if new_path is None:
        pd = dirname(old_path)
        if pd:
            st.maybe_empty = sadd(st.maybe_empty, pd)
    elif old_path is not None and old_path != new_path:
        opd, npd = dirname(old_path), dirname(new_path)
        if opd and opd != npd:
            st.maybe_empty = sadd(st.maybe_empty, opd)


def record_delete(st, path, ie):
    add_entry(st, (path, None, ie[0], None))
    st.deleted = sadd(st.deleted, path)
    if ie[3] == "d":
        st.dirents = adel(st.dirents, path)
        b = find_entry(st.basis, ie[0])
        if b is None:
            raise ImpErr("NoSuchId")
        if b[3] == "d":
            st.deleted = sadd(st.deleted, path + b"/")
            for rel, e in descendants(st.basis, ie[0]):
                cp = path + b"/" + rel
                add_entry(st, (cp, None, e[0], None))
                st.deleted = sadd(st.deleted, cp)
                if e[3] == "d":
                    st.dirents = adel(st.dirents, cp)


def bzr_file_id(st, path):
    if path not in st.deleted:
        i = aget(st.mod_ids, path)
        if i is not None:
            return i
        i = path2id(st.basis, path)
        if i is not None:
            return i
    i = st.fresh
    st.fresh += 1
    st.new_ids = aset(st.new_ids, path, i)
    return i


def get_directory_entry(st, dname):
    r = aget(st.dirents, dname)
    if r is None:
        if dname in st.deleted:
            return None
        i = path2id(st.basis, dname)
        if i is None or i == 0:
            return None
        r = find_entry(st.basis, i)
        if r[3] != "d":
            return None
        st.dirents = aset(st.dirents, dname, r)
    return r


def ensure_directory(st, path, fuel=64):
    if fuel == 0:
        raise ImpErr("RecursionError")
    dname, base = split(path)
    if dname == b"":
        return base, 0
    ie = get_directory_entry(st, dname)
    if ie is not None:
        return base, ie[0]
    dbase, par = ensure_directory(st, dname, fuel - 1)
    di = bzr_file_id(st, dname)
    ie = (di, par, dbase, "d", b"", False)
    st.dirents = aset(st.dirents, dname, ie)
    if find_entry(st.basis, di) is not None:
        record_delete(st, dname, ie)
        st.dirents = aset(st.dirents, dname, ie)       # re-seated (fix 62f284f)
    add_entry(st, (None, dname, di, ie))
    return base, di


def modify_item(st, path, kind, ex, data):
    if aget(st.new_ids, path) is not None:
        return
    base, par = ensure_directory(st, path)
    i = bzr_file_id(st, path)
    ie = (i, par, base, kind, data if kind != "d" else b"", ex if kind == "f" else False)
    if kind == "d":
        st.dirents = aset(st.dirents, path, ie)
    old = find_entry(st.basis, i)
    if old is None:
        add_entry(st, (None, path, i, ie))
    else:
        if old[3] == "d":
            record_delete(st, path, old)
        add_entry(st, (path, path, i, ie))
        st.mod_ids = aset(st.mod_ids, path, i)


def delete_item(st, path):
    newly = aget(st.new_ids, path)
    if newly is not None:
        d = aget(st.delta, newly)
        if d is None:
            raise ImpErr("KeyError")
        ie = d[3]
        if ie is None:
            raise ImpErr("AttributeError")
    else:
        i = path2id(st.basis, path)
        if i is None:
            return
        if i == 0:
            raise ImpErr("RootDelete")
        ie = find_entry(st.basis, i)
    record_delete(st, path, ie)


def rename_pending_change(st, old_path, new_path, i):
    d = aget(st.delta, i)
    if d is None:
        raise ImpErr("KeyError")
    old_ie = d[3]
    if old_ie is None:
        raise ImpErr("AttributeError")
    record_delete(st, old_path, old_ie)
    if aget(st.new_ids, old_path) is not None:
        st.new_ids = adel(st.new_ids, old_path)
    else:
        st.mod_ids = adel(st.mod_ids, old_path)
    st.new_ids = aset(st.new_ids, new_path, i)
    base, par = ensure_directory(st, new_path)
    ie = (i, par, base, old_ie[3], old_ie[4], old_ie[5])
    add_entry(st, (None, new_path, i, ie))


def rename_item(st, old_path, new_path):
    existing = aget(st.new_ids, old_path)
    if existing is None:
        existing = aget(st.mod_ids, old_path)
    if existing is not None:
        rename_pending_change(st, old_path, new_path, existing)
        return
    i = path2id(st.basis, old_path)
    if i is None:
        return
    if i == 0:
        raise ImpErr("RootRename")
    ie = find_entry(st.basis, i)
    ni = path2id(st.basis, new_path)
    if ni is not None:
        if ni == 0:
            raise ImpErr("RootDelete")
        record_delete(st, new_path, find_entry(st.basis, ni))
    base, par = ensure_directory(st, new_path)
    nie = (i, par, base, ie[3], ie[4], ie[5])
    add_entry(st, (old_path, new_path, i, nie))
    st.mod_ids = aset(st.mod_ids, new_path, i)
    st.deleted = [p for p in st.deleted if p != new_path]
    if nie[3] == "d":
        st.dirents = aset(st.dirents, new_path, nie)


def apply_delta(basis, delta):
    """Inventory.apply_delta / CHKInventory.create_by_apply_delta: the new inventory, or ImpErr."""
    ids = [d[2] for d in delta]
    if len(set(ids)) != len(ids):
        raise ImpErr("InconsistentDelta")
    inv = list(basis)
    for old_path, new_path, i, ie in delta:
        b = find_entry(basis, i)
        if old_path is None:
            if b is not None:
                raise ImpErr("InconsistentDelta")
        else:
            if b is None or id2path(basis, i) != old_path:
                raise ImpErr("InconsistentDelta")
            inv = [e for e in inv if e[0] != i]
    for old_path, new_path, i, ie in delta:
        if new_path is not None:
            inv.append(ie)
    # well-formedness of the result
    seen = set()
    for e in inv:
        if (e[1], e[2]) in seen:
            raise ImpErr("InconsistentDelta")
        seen.add((e[1], e[2]))
        if not is_dir(inv, e[1]):
            raise ImpErr("InconsistentDelta")
        if id2path(inv, e[0]) is None:
            raise ImpErr("InconsistentDelta")
    for old_path, new_path, i, ie in delta:
        if new_path is not None and id2path(inv, i) != new_path:
            raise ImpErr("InconsistentDelta")
    return inv


def final_delta(st):
    delta = [d for _, d in st.delta]
    cands = list(st.maybe_empty)
    fuel = 64
    while cands and fuel:
        fuel -= 1
        never_born, parents = [], []
        new_inv = apply_delta(st.basis, delta)
        for d in cands:
            i = path2id(new_inv, d)
            if i is None or i == 0:
                continue
            if not is_dir(new_inv, i) or children(new_inv, i):
                continue
            newly = aget(st.new_ids, d)
            if newly is not None:
                never_born.append(newly)
            else:
                delta.append((d, None, i, None))
            pd = dirname(d)
            if pd:
                parents = sadd(parents, pd)
        cands = parents
        if never_born:
            delta = [de for de in delta if de[2] not in never_born]
    return delta


def import_commit(basis, fresh, cmds):
    """(new inventory, next fresh id) after one commit's file commands; raises ImpErr."""
    st = St(basis, fresh)
    for c in cmds:
        if c[0] == "M":
            kind = {"file": "f", "exec": "f", "link": "l", "dir": "d"}[c[2]]
            modify_item(st, c[1], kind, c[2] == "exec", c[3])
        elif c[0] == "D":
            delete_item(st, c[1])
        elif c[0] == "R":
            rename_item(st, c[1], c[2])
    delta = final_delta(st)
    return apply_delta(basis, delta), st.fresh


# ---------------------------------------------------------------- guard (plain mode)

def leaf_tree(tree):
    """tree_of(...) without directories that contain no file or symlink (fast-import streams in
    plain mode carry no directory commands; the importer prunes directories that become empty)."""
    leaves = [t[0] for t in tree if t[1] != "dir"]
    return [t for t in tree if t[1] != "dir" or any(l.startswith(t[0] + b"/") for l in leaves)]


def moved(old, new):
    """entries with the same id whose own name or parent changed"""
    out = []
    for o in old:
        e = find_entry(new, o[0])
        if e is not None and (o[1] != e[1] or o[2] != e[2]):
            out.append((o, e))
    return out


def path_moved(old, new):
    """(old entry, new entry) of the files and symlinks of `old` whose PATH changed (own rename, or a
    directory above them was renamed: a plain stream renames them one by one)"""
    out = []
    for o in old:
        e = find_entry(new, o[0])
        if e is not None and o[3] != "d" and id2path(old, o[0]) != id2path(new, e[0]):
            out.append((o, e))
    return out


def tree_guard_reason(old, new):
    """None, or why the plain-mode file commands of (old -> new) are NOT expected to reproduce `new`
    (up to empty directories) on a basis that shows old's tree.  Executable guard of the tree-level
    round trip (validated against the mirror on random pairs and against the real code on every run);
    state after the repair round (directory renames and file->directory changes work now):
      vacated       an added or moved entry lands on, or below, a path that `old` occupies with a file or
                    symlink that is still versioned elsewhere in `new` (swap, chain, add at a vacated path)
      late-delete   a moved entry lands below a path whose old occupant is removed (removals are emitted
                    after the renames)
      below-file    a moved entry lands below a path that is a file or symlink in `old`
      dir-to-file   a file/symlink appears where `old` has a directory while something that was below that
                    directory survives: the importer deletes every basis child of the directory
      dir-kind      a directory that is renamed or moved changes its kind in the same commit
      dir-swallows-delete  a directory is renamed onto the path of a removed file or symlink
      kind-to-dir-moved    a file/symlink becomes a directory below a directory that is renamed"""
    for e in new:
        if e[3] != "d":
            i = path2id(old, id2path(new, e[0]))
            if i is not None and i != 0 and is_dir(old, i):
                if any(find_entry(new, x[0]) is not None for _, x in descendants(old, i)):
                    return "dir-to-file"
    for o, e in moved(old, new):
        if (o[3] == "d") != (e[3] == "d"):
            return "dir-kind"
        if e[3] == "d":
            # plain: the directory's own rename is not emitted, and neither is the D of a removed file or
            # symlink at its new path (it is taken off deleted_paths all the same): the old file stays
            i = path2id(old, id2path(new, e[0]))
            if i is not None and i != 0 and not is_dir(old, i) and find_entry(new, i) is None:
                return "dir-swallows-delete"
    for o in old:
        e = find_entry(new, o[0])
        if e is not None and o[3] != "d" and e[3] == "d" and id2path(old, o[0]) != id2path(new, e[0]):
            # deleted first (kind change to directory) and then renamed with the children of the renamed
            # directory above it: the importer resurrects it at the new path
            return "kind-to-dir-moved"
    pm = path_moved(old, new)
    vacated = [id2path(old, o[0]) for o, _ in pm]
    removed = [id2path(old, o[0]) for o in old if find_entry(new, o[0]) is None]
    for e in new:
        if e[3] == "d":
            continue
        o = find_entry(old, e[0])
        p = id2path(new, e[0])
        was = None if o is None else id2path(old, o[0])
        if o is None or was != p or o[3] == "d":
            for v in vacated:
                if v != was and (p == v or p.startswith(v + b"/")):
                    return "vacated"
            if o is not None and o[3] != "d":
                for r in removed:
                    if p.startswith(r + b"/"):
                        return "late-delete"
                for x in old:
                    if x[3] != "d" and p.startswith(id2path(old, x[0]) + b"/"):
                        return "below-file"
    return None


def tree_guard(old, new):
    return tree_guard_reason(old, new) is None


def tree_guard_rich_reason(old, new):
    """The same for rich streams (directories are renamed, deleted and created by their own commands):
      dir-to-file   a file/symlink appears where `old` has a directory, or a directory is removed, while
                    something that was below it survives (`D dir` / the kind change deletes every basis child,
                    also those renamed out before)
      rich-dir-rename-modified-child   a directory is renamed or moved and a file/symlink that stays below it
                    is modified, chmod-ed or changes kind in the same commit: `M new/path` is looked up in
                    the basis inventory by its NEW path, gets a fresh file id and collides (InconsistentDelta)
      into-moved-dir   an entry is renamed to below the new path of a directory that is renamed in the same
                    commit (the renames are emitted in old-path order)
      vacated / late-delete / below-file   as in plain streams, for entries whose own name or parent changed
      dir-kind      a renamed or moved entry changes between directory and file/symlink"""
    for e in new:
        if e[3] != "d":
            i = path2id(old, id2path(new, e[0]))
            if i is not None and i != 0 and is_dir(old, i):
                if any(find_entry(new, x[0]) is not None for _, x in descendants(old, i)):
                    return "dir-to-file"
    for o in old:
        if o[3] == "d" and find_entry(new, o[0]) is None:
            if any(find_entry(new, x[0]) is not None for _, x in descendants(old, o[0])):
                return "dir-to-file"
    mv = moved(old, new)
    for o, e in mv:
        if (o[3] == "d") != (e[3] == "d"):
            return "dir-kind"
    def carried(x):
        """an entry of `new` that only follows a renamed directory above it (own name and parent unchanged)"""
        o = find_entry(old, x[0])
        return o is not None and o[1] == x[1] and o[2] == x[2] and id2path(old, o[0]) != id2path(new, x[0])
    for e in new:
        o = find_entry(old, e[0])
        changed = o is None or o[1] != e[1] or o[2] != e[2] or o[3] != e[3] or \
            (e[3] != "d" and (o[4] != e[4] or o[5] != e[5]))
        if not changed:
            continue
        # the command for e names its NEW path; every carried entry on that path (e itself when it is modified
        # in place, or a directory above it) is unknown to the basis inventory under that path
        x = e
        first = True
        while x is not None:
            if carried(x) and not (first and o is not None and (o[1] != e[1] or o[2] != e[2])):
                return "rich-dir-rename-modified-child"
            first = False
            x = find_entry(new, x[1]) if x[1] != 0 else None
    newdirs = [id2path(new, e[0]) for o, e in mv if e[3] == "d"]
    for o, e in mv:
        p = id2path(new, e[0])
        if any(p.startswith(d + b"/") for d in newdirs):
            return "into-moved-dir"
    vacated = [id2path(old, o[0]) for o, _ in mv]
    removed = [id2path(old, o[0]) for o in old if find_entry(new, o[0]) is None]
    for e in new:
        o = find_entry(old, e[0])
        p = id2path(new, e[0])
        was = None if o is None else id2path(old, o[0])
        if o is None or (o[1] != e[1] or o[2] != e[2]):
            for v in vacated:
                if v != was and (p == v or p.startswith(v + b"/")):
                    return "vacated"
            if o is not None:
                for r in removed:
                    if p.startswith(r + b"/"):
                        return "late-delete"
                for x in old:
                    if x[3] != "d" and p.startswith(id2path(old, x[0]) + b"/"):
                        return "below-file"
    return None
