"""C16 -- Uncommit undoes commit (tie H; Rust remove_tags via breezy/_cmd_rs).

Histories are generated as Lib/Dag lists and materialised in real 2a branches
with real working trees in the scratch directory.  Kinds of cases:
  filter     WorkingTree.set_parent_ids (filtering by graph.heads) vs filter_parents
  uncommit   breezy.uncommit.uncommit on a branch at any good tip: every depth,
             trees with pending merges (or no tree), tags, keep_tags, bound
             branches (in step / out of date), local=True
  roundtrip  edit files, commit the tree (with pending merges), uncommit that
             commit: branch info, tags, tree parents, file bytes and iter_changes
             must all be what they were before the commit; also in a bound branch
             (heavyweight checkout) with commit(local=True) + uncommit(local=True)
             while the master is at or behind the local tip, and the mixed
             sequence local commit + non-local uncommit (BoundBranchOutOfDate)
  localseq   bound branch, master at or behind the tip, 1-3 commit(local=True),
             then uncommit(local=True/False) at every depth; evaluated as an
             `uncommit` case on the extended graph
"""
import json
import os
import shutil

import daglib
from daglib import rid, idx
from vlib import Tag, Err, coq_bool, coq_list, coq_option

PROP = "C16"
RUST_PACKAGES = ["cmd-py"]
COQ = {
    "property_file": "Properties/C16.v",
    "imports": "From BV Require Import Lib.Dag Model.Uncommit.",
}
META = {
    "level": "proof",
    "title": "Uncommit undoes commit",
    "technique": ("Coq theorems over a hand model of breezy/uncommit.py:uncommit, src/uncommit.rs:remove_tags and "
                  "WorkingTree.set_parent_ids on the shared revision-graph library Lib/Dag + correspondence on real "
                  "branches and working trees"),
    "level_text": ("partial (P-core): for every well-formed revision graph, uncommit(commit(s)) = s on tip, revno, tags, the "
                   "tree's parent list (pending merges in order) and files; multi-revision uncommit reaches the requested "
                   "left-hand ancestor with the right revno and re-records the merged parents (exact list proved); tag removal "
                   "characterised by ancestry; bound/local handling. tags are dropped in bound branches and their masters too (after repair 495a382). "
                   "One clause is refuted (tree basis != branch tip after uncommitting everything over a merge) with its guarded version. Tied to the code by real commits/uncommits "
                   "on the same graph value; dirstate, repository and commit internals are not modelled."),
    "level_note": ("Trusted: Coq kernel, vm_compute, the hand model's correspondence (bounded sampling), vcsgraph as modelled by "
                   "Lib/Dag. 2a format, standalone and bound local branches."),
    "design_ref": "DESIGN.md §5 C16",
    "trusted_base": ["hand model coq/Model/Uncommit.v of breezy/uncommit.py, src/uncommit.rs, breezy/workingtree.py:set_parent_ids, breezy/bzr/tag.py:delete_tag",
                     "coq/Lib/Dag.v as a model of vcsgraph (heads, iter_lefthand_ancestry, find_unique_ancestors)",
                     "correspondence harness harness/props/c16.py, harness/daglib.py"],
    "assumptions": ["vcsgraph Graph.heads / iter_lefthand_ancestry / find_unique_ancestors behave like Lib/Dag",
                    "the branch records revno = left-hand history length, no ghost on the left-hand history of its tip",
                    "1 <= revno argument <= branch revno + 1 (what cmd_uncommit passes); dry_run not modelled",
                    "commit records the tree's parent list as the new revision's parents and revno + 1"],
    "rule": "uncommit cases removing >= 1 revision and roundtrips are non-trivial; distinct = distinct (input, observation)",
}
SHARD = 150
NTAGS = 8
EXPECTED = ("BoundBranchOutOfDate", "LocalRequiresBoundBranch", "RevisionNotPresent", "GhostRevisionUnusableHere")

_state = {}


def setup(scratch):
    import breezy
    import breezy.bzr  # noqa: F401
    from breezy import lockdir
    # a contended in-process lock is reported at once instead of after 30 s of polling
    _state.update(dir=scratch, n=0, cache={}, fresh=0, lock_timeout=lockdir._DEFAULT_TIMEOUT_SECONDS)
    lockdir._DEFAULT_TIMEOUT_SECONDS = 0


def teardown():
    if "lock_timeout" in _state:
        from breezy import lockdir
        lockdir._DEFAULT_TIMEOUT_SECONDS = _state["lock_timeout"]
    for v in _state.get("cache", {}).values():
        shutil.rmtree(v["path"], ignore_errors=True)
    _state.clear()


# ---- generation ------------------------------------------------------------------

def _good_tips(g):
    return [r for r in range(len(g)) if daglib.lefthand_present(g, r)]


def _filter(g, ps):
    """What set_parent_ids is specified to keep (used to generate fixpoint parent lists)."""
    if not ps:
        return []
    hs = daglib.heads(g, ps)
    out = [ps[0]]
    for p in ps[1:]:
        if p in hs and p not in out:
            out.append(p)
    return out


def _tree_parents(rng, g, tip, maxpend=2):
    n = len(g)
    ghosts = sorted({p for ps in g for p in ps if p >= n})
    anc = daglib.ancestors(g, [tip]) if tip is not None else set()
    pool = [x for x in list(range(n)) + ghosts if x not in anc]
    rng.shuffle(pool)
    k = rng.choice([0, 0, 1, 1, 2][:maxpend + 3])
    if tip is None:
        return []
    return _filter(g, [tip] + pool[:k])


def _tags(rng, g):
    n = len(g)
    ghosts = sorted({p for ps in g for p in ps if p >= n})
    d = {}
    for i in rng.sample(range(NTAGS), rng.randint(0, min(NTAGS, n + 1))):
        d[str(i)] = rng.choice(list(range(n)) + ghosts[:1] * 1)
    return d


def _uncommit_case(rng, g, force=None):
    good = _good_tips(g)
    tip = rng.choice(good)
    revno = daglib.revno_of(g, tip)
    k = rng.randint(0, revno) if rng.random() < 0.85 else max(0, revno - 1)
    case = {"kind": "uncommit", "g": g, "tip": tip, "tags": _tags(rng, g),
            "tp": _tree_parents(rng, g, tip) if rng.random() < 0.85 else None,
            "master": None, "k": k, "keep_tags": rng.random() < 0.2, "local": False}
    r = rng.random()
    if r < 0.2:
        case["master"] = {"tip": tip, "tags": _tags(rng, g)}
        case["local"] = rng.random() < 0.3
    elif r < 0.27:
        case["master"] = {"tip": rng.choice(good), "tags": {}}
    elif r < 0.30:
        case["local"] = True
    elif r < 0.42:
        # local branch AHEAD of its master (as after commit --local): local uncommit must work,
        # non-local uncommit must be refused
        lh = daglib.lefthand(g, tip)
        case["master"] = {"tip": rng.choice(lh[1:]) if len(lh) > 1 and rng.random() < 0.85 else tip, "tags": _tags(rng, g)}
        case["local"] = rng.random() < 0.75
    if force:
        case.update(force)
    return case


FIXED = [
    [[], [0], [0], [0], [1, 2, 3], [4], [0]],
    [[], [], [0, 1]],
    [[], [0], [0], [1, 2], [2, 1], [3, 4], [4, 3]],
    [[], [0], [1, 47], [2], [0], [3, 4]],
]


def corpus():
    out = []
    # the finding witness: uncommit everything over a merge
    out.append({"kind": "uncommit", "g": FIXED[1], "tip": 2, "tags": {}, "tp": [2], "master": None,
                "k": 0, "keep_tags": False, "local": False})
    # witness of the repaired finding C16-bound-tag-removal-lock-contention (commit 495a382): must pass now
    out.append({"kind": "uncommit", "g": [[], [0]], "tip": 1, "tags": {"0": 1}, "tp": [1],
                "master": {"tip": 1, "tags": {"0": 1}}, "k": 1, "keep_tags": False, "local": False})
    g = FIXED[0]
    for k in range(0, 5):
        for tp in ([5], [5, 6], None):
            out.append({"kind": "uncommit", "g": g, "tip": 5, "tags": {"0": 2, "1": 5, "2": 4, "3": 0, "4": 6},
                        "tp": tp, "master": None, "k": k, "keep_tags": False, "local": False})
    out.append({"kind": "roundtrip", "g": g, "tip": 5, "tp": [5, 6], "tags": {"0": 2, "1": 5}, "keep_tags": False,
                "edit": 2})
    # heavyweight checkout, local commit(s), local uncommit / mixed
    for loc in (True, False):
        out.append({"kind": "roundtrip", "g": g, "tip": 5, "tp": [5, 6], "tags": {"0": 2, "1": 5}, "keep_tags": False,
                    "edit": 1, "bound": {"tip": 5, "tags": {"1": 5}}, "local": loc})
        out.append({"kind": "roundtrip", "g": g, "tip": 5, "tp": [5], "tags": {}, "keep_tags": False,
                    "edit": 0, "bound": {"tip": 4, "tags": {}}, "local": loc})
        for k in range(3, 7):
            out.append({"kind": "localseq", "g": g, "tip": 5, "tp": [5, 6], "tags": {"0": 2, "1": 5},
                        "master": {"tip": 5, "tags": {"7": 0}}, "ncommit": 2, "newtag": True, "keep_tags": False,
                        "k": k, "local": loc})
    # reversed order of pre-existing pending merges
    out.append({"kind": "uncommit", "g": [[], [0], [0], [0], [0], [1, 2]], "tip": 5, "tags": {}, "tp": [5, 3, 4],
                "master": None, "k": 1, "keep_tags": False, "local": False})
    return out


def cases(rng, tier):
    ndag, nun, nrt, maxn = (22, 12, 3, 10) if tier == "quick" else (160, 20, 6, 16)
    dags = list(FIXED)
    for _ in range(ndag):
        dags.append(daglib.gen_dag(rng, rng.randint(2, maxn), p_merge=0.45))
    for g in dags:
        n = len(g)
        good = _good_tips(g)
        if not good:
            continue
        ghosts = sorted({p for ps in g for p in ps if p >= n})
        for _ in range(3):
            first = rng.choice(good)
            rest = [rng.choice(list(range(n)) + ghosts) for _ in range(rng.randint(0, 4))]
            yield {"kind": "filter", "g": g, "ps": [first] + rest}
        for _ in range(nun):
            yield _uncommit_case(rng, g)
        # every depth from the newest good tip, with a tree carrying a pending merge when possible
        tip = max(good)
        for k in range(daglib.revno_of(g, tip) + 1):
            yield _uncommit_case(rng, g, {"tip": tip, "tp": _tree_parents(rng, g, tip), "k": k, "master": None, "local": False})
        for _ in range(nrt):
            tip = rng.choice(good + [None]) if rng.random() < 0.1 else rng.choice(good)
            yield {"kind": "roundtrip", "g": g, "tip": tip, "tp": _tree_parents(rng, g, tip),
                   "tags": _tags(rng, g), "keep_tags": rng.random() < 0.3, "edit": rng.randrange(4)}
        # bound branch (heavyweight checkout): local commit, then local (or, mixed, non-local) uncommit
        for _ in range(nrt):
            tip = rng.choice(good)
            lh = daglib.lefthand(g, tip)
            yield {"kind": "roundtrip", "g": g, "tip": tip, "tp": _tree_parents(rng, g, tip),
                   "tags": _tags(rng, g), "keep_tags": rng.random() < 0.3, "edit": rng.randrange(4),
                   "bound": {"tip": rng.choice(lh), "tags": _tags(rng, g)}, "local": rng.random() < 0.75}
        # 1-3 local commits, then every depth
        tip = rng.choice(good)
        lh = daglib.lefthand(g, tip)
        j = rng.randint(1, 3)
        base = {"kind": "localseq", "g": g, "tip": tip, "tp": _tree_parents(rng, g, tip), "tags": _tags(rng, g),
                "master": {"tip": rng.choice(lh), "tags": _tags(rng, g)}, "ncommit": j,
                "newtag": rng.random() < 0.5, "keep_tags": rng.random() < 0.2}
        n0 = daglib.revno_of(g, tip)
        # every depth in the thorough tier; quick: the local commits, one revision below them, and everything
        ks = range(n0 + j + 1) if tier != "quick" else sorted({0, max(0, n0 - 1)} | set(range(n0, n0 + j + 1)))
        for k in ks:
            yield dict(base, k=k, local=True)
        yield dict(base, k=daglib.revno_of(g, tip), local=False)
        yield dict(base, k=daglib.revno_of(g, tip) + j - 1, local=False)


def expand(inp):
    """A localseq case as the equivalent `uncommit` case on the graph extended by the local commits."""
    if inp["kind"] != "localseq":
        return inp
    g, n, j = inp["g"], len(inp["g"]), inp["ncommit"]
    g2 = g + [list(inp["tp"])] + [[n + i] for i in range(j - 1)]
    tags = dict(inp["tags"])
    if inp["newtag"]:
        tags["7"] = n + j - 1
    return {"kind": "uncommit", "g": g2, "tip": n + j - 1, "tags": tags, "tp": [n + j - 1],
            "master": inp["master"], "k": inp["k"], "keep_tags": inp["keep_tags"], "local": inp["local"]}


# ---- implementation driver --------------------------------------------------------------

def _site(g):
    """One on-disk branch + working tree (+ lazily a master branch) per graph."""
    from breezy.transport import get_transport
    key = json.dumps(g)
    c = _state["cache"]
    if key not in c:
        if len(c) >= 3:
            for v in c.values():
                shutil.rmtree(v["path"], ignore_errors=True)
            c.clear()
        _state["n"] += 1
        path = os.path.join(_state["dir"], "h%d" % _state["n"])
        os.makedirs(os.path.join(path, "b"))
        br = daglib.build_history(g, get_transport(os.path.join(path, "b")))
        wt = br.controldir.create_workingtree()
        c[key] = {"path": path, "wt": wt, "master": None}
    return c[key]


def _master(site, g):
    from breezy import controldir
    if site["master"] is None:
        cd = controldir.ControlDir.create(os.path.join(site["path"], "m"),
                                          format=controldir.format_registry.make_controldir("2a"))
        cd.create_repository()
        mb = cd.create_branch()
        mb.repository.fetch(site["wt"].branch.repository)
        site["master"] = mb
    return site["master"]


def _set_branch(br, g, tip, tags):
    br.lock_write()
    try:
        if tip is None:
            br.set_last_revision_info(0, b"null:")
        else:
            br.set_last_revision_info(daglib.revno_of(g, tip), rid(tip))
        br.tags._set_tag_dict({"t%s" % k: rid(v) for k, v in tags.items()})
    finally:
        br.unlock()


def _binfo(br):
    revno, revid = br.last_revision_info()
    tags = sorted([int(k[1:]), idx(v)] for k, v in br.tags.get_tag_dict().items())
    return [revno, idx(revid), tags]


def _disk(wt):
    out = {}
    base = wt.basedir
    for name in sorted(os.listdir(base)):
        if name == ".bzr":
            continue
        with open(os.path.join(base, name), "rb") as f:
            out[name] = f.read()
    return out


def _changes(wt):
    wt.lock_read()
    try:
        out = []
        for ch in wt.iter_changes(wt.basis_tree()):
            out.append([list(ch.path), bool(ch.changed_content), list(ch.versioned), list(ch.kind)])
        return sorted(out, key=repr)
    finally:
        wt.unlock()


def impl(inp):
    import breezy.bzr  # noqa: F401
    from breezy.uncommit import uncommit
    g = inp["g"]
    site = _site(g)
    wt = site["wt"]
    br = wt.branch
    if br.get_bound_location() is not None:
        br.set_bound_location(None)
    kind = inp["kind"]
    if kind == "filter":
        _set_branch(br, g, inp["ps"][0], {})
        wt.set_parent_ids([rid(p) for p in inp["ps"]])
        return [idx(x) for x in wt.get_parent_ids()]
    _set_branch(br, g, inp["tip"], inp["tags"])
    tp = inp["tp"]
    wt.set_parent_ids([rid(p) for p in (tp if tp is not None else ([inp["tip"]] if inp["tip"] is not None else []))])
    if tp is not None and [idx(x) for x in wt.get_parent_ids()] != tp:
        raise AssertionError("generator produced a parent list that set_parent_ids changes: %r" % (tp,))
    if kind in ("uncommit", "localseq"):
        mb = None
        if inp["master"] is not None:
            mb = _master(site, g)
            _set_branch(mb, g, inp["master"]["tip"], inp["master"]["tags"])
            br.set_bound_location(mb.base)
        try:
            if kind == "localseq":
                for i in range(inp["ncommit"]):
                    _state["fresh"] += 1
                    wt.commit("local %d" % i, rev_id=b"r%d.%d" % (len(g) + i, _state["fresh"]), local=True)
                if inp["newtag"]:
                    d = br.tags.get_tag_dict()
                    d["t7"] = wt.last_revision()
                    br.tags._set_tag_dict(d)          # raw: set_tag would also write to the master
            state0 = [_binfo(br), [idx(x) for x in wt.get_parent_ids()], _binfo(mb) if mb is not None else None]
            files0 = _disk(wt)
            try:
                uncommit(br, tree=wt if tp is not None else None, revno=inp["k"] + 1,
                         keep_tags=inp["keep_tags"], local=inp["local"])
            except BaseException as e:
                name = type(e).__name__
                if name == "PanicException":
                    # a Python exception under the Rust remove_tags surfaces as a pyo3 panic (a BaseException);
                    # never expected any more (finding C16-bound-tag-removal-lock-contention, repaired): reported
                    # as an observation so that the oracle can name the input instead of the run crashing
                    name = "LockContention" if "LockContention" in str(e) else "PanicException"
                if name not in EXPECTED + ("LockContention", "PanicException"):
                    raise
                state1 = [_binfo(br), [idx(x) for x in wt.get_parent_ids()], _binfo(mb) if mb is not None else None]
                return [Err(name), state0 == state1 and files0 == _disk(wt)]
        finally:
            if mb is not None:
                br.set_bound_location(None)
        return [Tag("ok"), _binfo(br), [idx(x) for x in wt.get_parent_ids()] if tp is not None else None,
                _binfo(mb) if mb is not None else None, files0 == _disk(wt)]
    # roundtrip
    base = wt.basedir
    # files = basis tree, whatever earlier cases left (revert also drops pending merges: set them after)
    wt.set_parent_ids([rid(inp["tip"])] if inp["tip"] is not None else [])
    wt.revert(backups=False)
    wt.set_parent_ids([rid(p) for p in tp])
    for name in os.listdir(base):
        if name not in (".bzr", "f"):
            os.unlink(os.path.join(base, name))
    e = inp["edit"]
    if e in (1, 3) and os.path.exists(os.path.join(base, "f")):
        with open(os.path.join(base, "f"), "ab") as f:
            f.write(b"edited\n")
    if e in (2, 3) or not os.path.exists(os.path.join(base, "f")):
        with open(os.path.join(base, "new"), "wb") as f:
            f.write(b"new file\n")
        wt.add(["new"])
    bound = inp.get("bound")
    mb = None
    if bound is not None:
        mb = _master(site, g)
        _set_branch(mb, g, bound["tip"], bound["tags"])
        br.set_bound_location(mb.base)
    try:
        before = [_binfo(br), [idx(x) for x in wt.get_parent_ids()], _disk(wt), _changes(wt)]
        _state["fresh"] += 1
        wt.commit("c", rev_id=b"r%d.%d" % (len(g), _state["fresh"]), local=bound is not None)
        mid = _binfo(br)
        state0 = [mid, [idx(x) for x in wt.get_parent_ids()], _binfo(mb) if mb is not None else None, _disk(wt)]
        try:
            uncommit(br, tree=wt, keep_tags=inp["keep_tags"], local=bool(bound is not None and inp["local"]))
        except Exception as ex:
            if type(ex).__name__ not in EXPECTED:
                raise
            state1 = [_binfo(br), [idx(x) for x in wt.get_parent_ids()], _binfo(mb) if mb is not None else None, _disk(wt)]
            return [Err(type(ex).__name__), state0 == state1]
        after = [_binfo(br), [idx(x) for x in wt.get_parent_ids()], _disk(wt), _changes(wt)]
        minfo = _binfo(mb) if mb is not None else None
    finally:
        if mb is not None:
            br.set_bound_location(None)
        wt.revert(backups=False)
    return [Tag("ok"), after[0], after[1], minfo,
            {"committed": mid[:2], "same_info": before[0] == after[0], "same_parents": before[1] == after[1],
             "same_files": before[2] == after[2], "same_changes": before[3] == after[3],
             "n_changes": len(before[3])}]


def impl_obs(inp, obs):
    """The part of the observation the model predicts."""
    if inp["kind"] == "filter" or isinstance(obs, Err):
        return obs
    if isinstance(obs[0], Err):
        return [obs[0]]          # the model's error carries no state; "unchanged" is checked by the oracle
    return obs[:4]


# ---- model term ------------------------------------------------------------------------------

def _coq_tags(tags):
    return coq_list([f"({k}, {v})" for k, v in sorted(tags.items(), key=lambda kv: int(kv[0]))])


def _coq_bstate(g, tip, tags):
    t = "None" if tip is None else f"(Some {tip})"
    return f"(mkS {t} {daglib.revno_of(g, tip)} {_coq_tags(tags)})"


def model_term(inp):
    inp = expand(inp)
    g = daglib.coq_dag(inp["g"])
    if inp["kind"] == "filter":
        return f"run_filter {g} {coq_list(inp['ps'], str)}"
    b = _coq_bstate(inp["g"], inp["tip"], inp["tags"])
    if inp["kind"] == "uncommit":
        tp = "None" if inp["tp"] is None else f"(Some {coq_list(inp['tp'], str)})"
        m = inp["master"]
        master = "None" if m is None else f"(Some {_coq_bstate(inp['g'], m['tip'], m['tags'])})"
        return f"run_uncommit {g} {b} {tp} {master} {inp['k']} {coq_bool(inp['keep_tags'])} {coq_bool(inp['local'])}"
    if inp.get("bound") is not None:
        mb = _coq_bstate(inp["g"], inp["bound"]["tip"], inp["bound"]["tags"])
        return (f"run_roundtrip_bound {g} {b} {coq_list(inp['tp'], str)} {coq_bool(inp['keep_tags'])} "
                f"{mb} {coq_bool(inp['local'])}")
    return f"run_roundtrip {g} {b} {coq_list(inp['tp'], str)} {coq_bool(inp['keep_tags'])}"


# ---- the property itself, on the implementation's observation -------------------------------------

def oracle(inp, obs):
    if isinstance(obs, Err) and str(obs).startswith("DRIVER:"):
        return "driver error " + str(obs)
    inp = expand(inp)
    g = inp["g"]
    kind = inp["kind"]
    if kind == "filter":
        return None
    failed = isinstance(obs[0], Err)
    if kind == "roundtrip":
        bound = inp.get("bound")
        if bound is not None and not inp["local"]:
            # mixed: local commit, then a non-local uncommit: the branch is ahead of its master
            if not (failed and obs[0] == Err("BoundBranchOutOfDate")):
                return f"non-local uncommit of a local commit gave {obs[0]}, the property demands BoundBranchOutOfDate"
            return None if obs[1] else "BoundBranchOutOfDate was raised but branch/tree/master state changed"
        if failed:
            return f"uncommit after commit failed with {obs[0]}" + (" (bound branch, commit --local + uncommit --local)" if bound else "")
        if bound is not None and obs[3][:2] != [daglib.revno_of(g, bound["tip"]), bound["tip"]]:
            return f"local commit + local uncommit moved the master to {obs[3][:2]}"
        x = obs[4]
        want_revno = daglib.revno_of(g, inp["tip"]) + 1
        if x["committed"] != [want_revno, len(g)]:
            return f"commit recorded {x['committed']}, expected revno {want_revno} for the new revision"
        for key, what in (("same_info", "branch tip/revno/tags"), ("same_parents", "the tree's parent list (pending merges)"),
                          ("same_files", "the working tree's files"), ("same_changes", "the changes the tree reports")):
            if not x[key]:
                return f"uncommit after commit did not restore {what}: now {obs[1:3]}"
        return None
    # uncommit
    tip, k, tp, m = inp["tip"], inp["k"], inp["tp"], inp["master"]
    revno = daglib.revno_of(g, tip)
    if inp["local"] and m is None:
        if not (failed and obs[0] == Err("LocalRequiresBoundBranch")):
            return f"local=True without master gave {obs[0]}"
        return None if obs[1] else "LocalRequiresBoundBranch was raised but the state changed"
    if m is not None and not inp["local"] and m["tip"] != tip:
        if not (failed and obs[0] == Err("BoundBranchOutOfDate")):
            return f"out-of-date bound branch gave {obs[0]}"
        return None if obs[1] else "BoundBranchOutOfDate was raised but branch/tree/master state changed"
    if failed:
        lh = daglib.lefthand(g, tip)
        if obs[0] == Err("GhostRevisionUnusableHere") and k == 0:
            return None       # nothing to be the tree's basis but a ghost
        return f"uncommit failed with {obs[0]}" + (f" (local={inp['local']}, master at {m['tip']}, branch at {tip})" if m else "")
    _, b, tparents, mb, files_same = obs
    lh = daglib.lefthand(g, tip)
    d = revno - k
    want_tip = lh[d] if d < len(lh) else None
    if b[:2] != [k, want_tip]:
        return f"branch is at {b[:2]}, the requested left-hand ancestor is revno {k} = {want_tip}"
    if b[0] != daglib.revno_of(g, b[1]):
        return f"recorded revno {b[0]} but the left-hand history of {b[1]} has length {daglib.revno_of(g, b[1])}"
    if not files_same:
        return "uncommit changed files of the working tree"
    removed = lh[:d]
    merged = [p for r in reversed(removed) for p in g[r][1:]]
    if tp is not None:
        if (tparents[0] if tparents else None) != b[1]:
            return f"the tree's basis is {tparents[:1]} but the branch tip is {b[1]} (tree parents {tparents})"
        # merged revisions re-recorded as pending merges (up to what heads-filtering removes), old ones kept
        want = _filter(g, ([want_tip] if want_tip is not None else []) + merged + list(reversed(tp[1:])))
        if sorted(tparents) != sorted(want):
            return f"tree parents {tparents}, expected the new tip, the merged revisions {merged} and the old pending merges {tp[1:]} (filtered: {want})"
        if tparents[1:1 + len([x for x in want[1:] if x in merged])] != [x for x in want[1:] if x in merged]:
            return f"merged revisions re-recorded in the wrong order: {tparents}, expected {want}"
        new_parents = ([want_tip] if want_tip is not None else []) + merged + tp[1:]
    else:
        new_parents = [want_tip] if want_tip is not None else []
    # tags
    old = {int(kk): v for kk, v in inp["tags"].items()}
    gone_revs = daglib.ancestors(g, [tip]) - daglib.ancestors(g, new_parents)
    want_tags = old if inp["keep_tags"] else {n_: r for n_, r in old.items() if r not in gone_revs}
    if dict(map(tuple, b[2])) != want_tags:
        return f"tags after uncommit {b[2]}, expected {sorted(want_tags.items())} (revisions only reachable from the old tip: {sorted(gone_revs)})"
    if m is not None:
        # a tag name dropped from the branch is dropped from its master too (bound or local)
        dropped = set() if inp["keep_tags"] else set(old) - set(want_tags)
        want_mtags = {int(kk): v for kk, v in m["tags"].items() if int(kk) not in dropped}
        if dict(map(tuple, mb[2])) != want_mtags:
            return f"master tags after uncommit {mb[2]}, expected {sorted(want_mtags.items())} (names dropped from the branch: {sorted(dropped)})"
        if inp["local"]:
            if mb[:2] != [daglib.revno_of(g, m["tip"]), m["tip"]]:
                return f"local=True moved the master to {mb[:2]}"
        elif mb[:2] != b[:2]:
            return f"master is at {mb[:2]} but the bound branch at {b[:2]}"
    return None


def _tags_to_drop(inp):
    """Tag names the property wants dropped by this uncommit case."""
    g, tip, k, tp = inp["g"], inp["tip"], inp["k"], inp["tp"]
    lh = daglib.lefthand(g, tip)
    d = daglib.revno_of(g, tip) - k
    new_tip = lh[d] if d < len(lh) else None
    merged = [p for r in lh[:d] for p in g[r][1:]]
    new_parents = ([new_tip] if new_tip is not None else []) + (merged + tp[1:] if tp is not None else [])
    gone = daglib.ancestors(g, [tip]) - daglib.ancestors(g, new_parents)
    return sorted(n for n, r in inp["tags"].items() if r in gone)


def finding_matches(fid, inp, obs, why):
    inp = expand(inp)
    if fid == "C16-basis-after-uncommit-to-null":
        # everything uncommitted (k = 0), with a tree, and some removed mainline revision is a merge
        # (or the tree already had pending merges): the first of them becomes the tree's basis
        if inp["kind"] != "uncommit" or inp["k"] != 0 or inp["tp"] is None:
            return False
        g = inp["g"]
        return any(len(g[r]) > 1 for r in daglib.lefthand(g, inp["tip"])) or len(inp["tp"]) > 1
    return False


def nontrivial(inp, obs):
    inp = expand(inp)
    if inp["kind"] == "roundtrip":
        return True
    return inp["kind"] == "uncommit" and inp["k"] < daglib.revno_of(inp["g"], inp["tip"])


def distribution(inputs, observations):
    d = {"filter": 0, "uncommit": 0, "roundtrip": 0, "with_tree": 0, "with_pending": 0, "bound": 0, "local": 0,
         "keep_tags": 0, "to_null": 0, "removed_merge": 0, "tags_dropped": 0, "depth": {}, "status": {}}
    d.update(localseq=0, local_ahead_of_master=0, roundtrip_bound_local=0, roundtrip_bound_mixed=0)
    for i, o in zip(inputs, observations):
        d[i["kind"]] += 1
        if i["kind"] == "filter":
            continue
        if i["kind"] == "roundtrip" and i.get("bound") is not None:
            d["roundtrip_bound_local" if i["local"] else "roundtrip_bound_mixed"] += 1
        i = expand(i)
        if i["kind"] == "uncommit" and i["master"] is not None and i["local"] and i["master"]["tip"] != i["tip"]:
            d["local_ahead_of_master"] += 1
        g = i["g"]
        st = "ok" if not isinstance(o, Err) and not isinstance(o[0], Err) else str(o if isinstance(o, Err) else o[0])
        d["status"][st] = d["status"].get(st, 0) + 1
        d["keep_tags"] += bool(i["keep_tags"])
        d["with_pending"] += bool(i["tp"] and len(i["tp"]) > 1)
        if i["kind"] != "uncommit":
            continue
        d["with_tree"] += i["tp"] is not None
        d["bound"] += i["master"] is not None
        d["local"] += bool(i["local"])
        depth = daglib.revno_of(g, i["tip"]) - i["k"]
        d["depth"][str(depth)] = d["depth"].get(str(depth), 0) + 1
        d["to_null"] += i["k"] == 0
        d["removed_merge"] += any(len(g[r]) > 1 for r in daglib.lefthand(g, i["tip"])[:depth])
        if st == "ok" and len(o[1][2]) < len(i["tags"]):
            d["tags_dropped"] += 1
    return d
