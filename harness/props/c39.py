"""C39 -- Diffs apply back to the text they describe (tie H, byte-exact).

The model (coq/Model/Patch.v) takes the sequence matcher's opcodes as an input; the generator obtains
them from the real matcher (patiencediff / difflib, both outside /repo) for the same texts.
Kinds of case:
  diff     internal_diff(a, b, n) bytes; iter_patched(a, diff); parse_patch(diff) (hunks, stats, as_bytes, re-parse)
  perturb  iter_patched(a2, diff(a, b, n)) for an old text a2 that differs from a
  parse    iter_patched / parse_patch on hand-mutated patch lines (malformed stream)
  groups   the matcher's get_opcodes()/get_grouped_opcodes(n) against valid_opcodes / group_opcodes
"""
import io
import itertools

from vlib import Err, Tag, coq_bytes, coq_list, coq_nat

PROP = "C39"
COQ = {
    "property_file": "Properties/C39.v",
    "imports": "From BV Require Import Lib.Bytes Model.Patch.",
}
RUST_PACKAGES = ["patch-py"]
SHARD = 150
META = {
    "level": "proof",
    "title": "Diffs apply back to the text they describe",
    "technique": ("Coq theorems over a hand model of diff.internal_diff / patches.py / crates/patch parse.rs + "
                  "byte-exact correspondence (vm_compute) on generated text pairs, perturbed old texts and mutated patches"),
    "level_text": ("Proved in Coq for all texts, all context sizes and every opcode list accepted by the checker "
                   "valid_opcodes: applying the generated hunks to the old text yields the new text; the statistics equal the "
                   "opcode totals; if the patch applies to ANY text then that text agrees with the old text on every line a "
                   "hunk reads (no silently wrong result), so a text differing there never yields Ok and is "
                   "always reported as PatchConflict (also when the text ends before or inside a hunk). "
                   "Partial: serialise-then-parse is proved for the iter_hunks loop over logical lines with the header "
                   "round trip as an executable guard; the byte layer (readlines, no-newline marker, decimal headers) and "
                   "the sequence matcher (an input validated by the checker) are covered by the byte-exact correspondence only."),
    "level_note": ("Trusted: Coq kernel, vm_compute, the hand model's correspondence (bounded sampling), the matcher "
                   "(patiencediff/difflib) returning opcodes accepted by valid_opcodes and grouping like difflib."),
    "design_ref": "DESIGN.md §5 C39",
    "trusted_base": ["hand model coq/Model/Patch.v of breezy/diff.py, breezy/patches.py, crates/patch/src/parse.rs",
                     "correspondence harness harness/props/c39.py",
                     "environment: sequence matcher opcodes (validated per case by valid_opcodes) and difflib-style grouping"],
    "assumptions": ["patch lines are obtained with io.BytesIO(diff).readlines() (split after LF only)",
                    "labels are plain ASCII without tab/newline; allow_binary=True (no check_text_lines)",
                    "numbers in hunk headers are unsigned decimal and fit i32",
                    "each text line contains no LF except possibly as its last byte"],
    "rule": ("text pairs over a small line alphabet (exhaustive for short lengths, random beyond), with/without final "
             "newline, context 0-4; every single-line perturbation of the old text; mutated patch lines. "
             "non-trivial = texts differ"),
}

ALPHA = [b"a\n", b"b\n", b"c\n"]
ODD = [b"\n", b" \n", b"-\n", b"+x\n", b"@@ -1 +1 @@\n", b"\\ No newline at end of file\n", b"--- q\n",
       b"a\r\n", b"\x00\xff\n", b"a\tb\n"]
TAGS = {"equal": "TEqual", "replace": "TReplace", "delete": "TDelete", "insert": "TInsert"}


# --------------------------------------------------------------------------- environment: the matcher
def _matcher(name):
    if name == "difflib":
        import difflib
        return difflib.SequenceMatcher
    import patiencediff
    return patiencediff.PatienceSequenceMatcher


def _ops(name, a, b):
    return [list(o) for o in _matcher(name)(None, a, b).get_opcodes()]


def _mk(kind, a, b, n, matcher="patience", **kw):
    a, b = [bytes(x) for x in a], [bytes(x) for x in b]
    d = {"kind": kind, "a": a, "b": b, "n": n, "matcher": matcher, "ops": _ops(matcher, a, b)}
    d.update(kw)
    return d


# --------------------------------------------------------------------------- generators
def _texts(alpha, maxlen):
    for k in range(maxlen + 1):
        for t in itertools.product(alpha, repeat=k):
            yield list(t)


def _chop(t):
    """the same text without its final newline"""
    return t[:-1] + [t[-1][:-1]] if t and t[-1].endswith(b"\n") and len(t[-1]) > 1 else None


def _rand_text(rng, maxlen, alpha):
    return [rng.choice(alpha) for _ in range(rng.randint(0, maxlen))]


def _rand_pair(rng, maxlen):
    alpha = ALPHA if rng.random() < 0.7 else ALPHA + ODD
    a = _rand_text(rng, maxlen, alpha)
    # b = a few edits of a (keeps long common runs, so that context trimming and hunk splitting happen)
    b = list(a)
    for _ in range(rng.randint(0, 3)):
        r = rng.random()
        p = rng.randint(0, len(b))
        if r < 0.4:
            b.insert(p, rng.choice(alpha))
        elif r < 0.7 and b:
            del b[min(p, len(b) - 1)]
        elif b:
            b[min(p, len(b) - 1)] = rng.choice(alpha)
    if rng.random() < 0.25:
        a = _chop(a) or a
    if rng.random() < 0.25:
        b = _chop(b) or b
    if rng.random() < 0.03 and len(a) > 1:       # ill-formed text: an interior line without newline
        a[0] = a[0].rstrip(b"\n") or b"q"
    return a, b


def _perturbations(a, rng, limit):
    out = []
    for i in range(len(a) + 1):
        out.append(a[:i] + [b"z\n"] + a[i:])             # insert
    for i in range(len(a)):
        out.append(a[:i] + a[i + 1:])                     # delete
        out.append(a[:i] + [b"z\n"] + a[i + 1:])         # edit
        if a[i].endswith(b"\n"):
            out.append(a[:i] + [a[i][:-1]] + a[i + 1:])   # lose the newline
    out.append([])
    if len(out) > limit:
        out = rng.sample(out, limit)
    return out


def _diff_lines(a, b, n, matcher="patience"):
    from breezy import diff
    f = io.BytesIO()
    diff.internal_diff("old", a, "new", b, f, allow_binary=True, sequence_matcher=_matcher(matcher), context_lines=n)
    return io.BytesIO(f.getvalue()).readlines()


def _mutants(lines, rng):
    """hand-mutated patches (the malformed stream); numbers stay unsigned"""
    L = list(lines)
    out = []
    if len(L) > 3:
        out.append(L[:-1])                                   # no trailing blank line
        out.append(L[:-2])                                   # truncated hunk
        out.append(L[:3])                                    # header only
        k = rng.randrange(3, len(L))
        out.append(L[:k] + L[k + 1:])                        # drop a line
        out.append(L[:k] + [b"\n"] + L[k:])                  # blank line inside
        out.append(L[:k] + [b"?junk\n"] + L[k:])             # unknown line type
        out.append(L[:2] + [L[2].replace(b" @@\n", b" @@ def f():\n")] + L[3:])   # header tail
        out.append(L[:2] + [L[2].replace(b" @@\n", b" @@ \n")] + L[3:])           # empty tail
        out.append(L[:2] + [L[2].replace(b",", b"", 1)] + L[3:])                  # "-1 3" style range
        out.append(L[:2] + [L[2].replace(b" @@\n", b"@@\n")] + L[3:])             # bad header
        out.append(L[:2] + [L[2].replace(b" +", b" ")] + L[3:])                   # no '+'
        out.append(L[:2] + [L[2].replace(b"@@ -", b"@@ -0")] + L[3:])             # leading zero
        out.append(L[:2] + [L[2].replace(b",", b",x", 1)] + L[3:])                # non-digit
        out.append([L[0][:-1] + b"\t2020-01-01\n", L[1][:-1] + b"\tts\n"] + L[2:])  # timestamps
        out.append([L[0][:-1] + b"\ta\tb\n"] + L[1:])        # two tabs
        out.append([L[0][:-1] + b"\tx\n", L[1][:-1] + b"\ta\tb\n"] + L[2:])
        out.append([L[1], L[0]] + L[2:])                     # swapped names
        out.append(L[:1])                                    # one line only
        out.append(L[:3] + [b"\\ No newline at end of file\n"] + L[3:])  # strips the header's newline
        out.append(L[:2] + [b"\n"] + L[2:])                  # blank before first hunk
    out.append([])
    out.append([b"Binary files a and b differ\n"])
    out.append([b"\\ No newline at end of file\n"])
    out.append([b"--- old"])
    return out


def setup(scratch):
    import os
    os.environ["RUST_BACKTRACE"] = "0"
    import breezy.bzr  # noqa: F401


def corpus():
    c = [
        # regression witnesses of the two defects fixed by c231e9b (must be PatchConflict now)
        _mk("perturb", [b"a\n"], [b"b\n"], 3, a2=[b"z\n"]),
        _mk("perturb", [b"a\n"], [b"b\n"], 3, a2=[]),
        _mk("perturb", [b"a\n"] * 6 + [b"b\n"], [b"a\n"] * 6 + [b"c\n"], 1, a2=[b"a\n"] * 3),   # ends before the hunk
        # empty <-> non-empty, header work-around, context 0 numbering
        _mk("diff", [], [b"x\n"], 0), _mk("diff", [b"x\n"], [], 0), _mk("diff", [], [], 3),
        _mk("diff", [], [b"x\n"] * 10, 3), _mk("diff", [b"x\n"] * 10, [], 3),
        _mk("diff", [b"a\n", b"b\n"], [b"a\n", b"x\n", b"b\n"], 0),
        _mk("diff", [b"a\n", b"b\n"], [b"b\n"], 0),
        _mk("diff", [b"a\n", b"b\n", b"c\n"], [b"a\n", b"x\n", b"c"], 3),
        _mk("diff", [b"a"], [b"a\n"], 3), _mk("diff", [b"a\n"], [b"a"], 1),
        _mk("diff", [b"a\n"] * 12 + [b"b\n"], [b"c\n"] + [b"a\n"] * 12, 2),
        _mk("diff", [b"a\n"] * 9 + [b"b\n"] + [b"a\n"] * 9, [b"a\n"] * 9 + [b"c\n"] + [b"a\n"] * 9, 3, "difflib"),
        _mk("diff", [b"\n", b"\\ No newline at end of file\n"], [b"\n", b"@@ -1 +1 @@\n", b" \n"], 1),
    ]
    return c


def cases(rng, tier):
    quick = tier == "quick"
    # 1. exhaustive small domain
    el = 3 if quick else 4
    texts = list(_texts(ALPHA[:2], el)) if quick else list(_texts(ALPHA, 2)) + list(_texts(ALPHA[:2], el))
    seen = set()
    for a in texts:
        for b in texts:
            key = (tuple(a), tuple(b))
            if key in seen:
                continue
            seen.add(key)
            for n in (0, 1, 3):
                yield _mk("diff", a, b, n)
            # no-final-newline variants
            ca, cb = _chop(a), _chop(b)
            if (len(a) + len(b)) <= (4 if quick else 6):
                for a2, b2 in ((ca, b), (a, cb), (ca, cb)):
                    if a2 is not None and b2 is not None:
                        yield _mk("diff", a2, b2, 1 if quick else rng.choice((0, 1, 3)))
    # 2. random longer pairs, both matchers
    for i in range(500 if quick else 2500):
        a, b = _rand_pair(rng, 10 if quick else 14)
        n = rng.choice((0, 1, 2, 3, 3, 4))
        yield _mk("diff", a, b, n, "difflib" if i % 4 == 0 else "patience")
    # 3. the matcher's grouping (cheap: no bytes rendered)
    for i in range(300 if quick else 1500):
        a, b = _rand_pair(rng, 24)
        yield _mk("groups", a, b, rng.choice((0, 1, 2, 3, 5, 8)), "difflib" if i % 2 else "patience")
    # 4. perturbed old texts
    for i in range(60 if quick else 160):
        a, b = _rand_pair(rng, 7)
        if a == b:
            continue
        n = rng.choice((0, 1, 3))
        for a2 in _perturbations(a, rng, 8 if quick else 14):
            yield _mk("perturb", a, b, n, a2=a2)
    # 5. mutated patches
    for i in range(12 if quick else 50):
        a, b = _rand_pair(rng, 6)
        if a == b:
            b = b + [b"n\n"]
        L = _diff_lines(a, b, rng.choice((0, 1, 3)))
        for m in _mutants(L, rng):
            yield {"kind": "parse", "orig": a, "lines": m}


# --------------------------------------------------------------------------- implementation driver
def _exc_obs(e):
    from breezy import patches
    name = type(e).__name__
    if isinstance(e, patches.PatchConflict):
        return [Err("PatchConflict"), e.line_no]
    if isinstance(e, TypeError):
        tb = e.__traceback__
        while tb.tb_next is not None:
            tb = tb.tb_next
        fr = tb.tb_frame
        if fr.f_code.co_name == "__init__" and isinstance(fr.f_locals.get("self"), patches.PatchConflict):
            # PatchConflict.__init__ itself failed: the conflict is not reported as one (regression of c231e9b)
            return [Err("TypeError@PatchConflict.__init__"), fr.f_locals.get("line_no")]
        raise e
    if isinstance(e, RuntimeError) and "StopIteration" in str(e):
        return Err("RuntimeError")
    if name in ("PatchSyntax", "MalformedPatchHeader", "BinaryFiles", "MalformedHunkHeader", "MalformedLine",
                "PanicException"):
        return Err(name)
    raise e


class _quiet_stderr:
    """Rust panics print to fd 2; keep the check's output readable."""

    def __enter__(self):
        import os
        import sys
        sys.stderr.flush()
        self.saved = os.dup(2)
        self.null = os.open(os.devnull, os.O_WRONLY)
        os.dup2(self.null, 2)

    def __exit__(self, *a):
        import os
        os.dup2(self.saved, 2)
        os.close(self.saved)
        os.close(self.null)


def _run(f):
    try:
        with _quiet_stderr():
            return f()
    except BaseException as e:  # PanicException derives from BaseException
        if isinstance(e, (KeyboardInterrupt, SystemExit, MemoryError)):
            raise
        return _exc_obs(e)


def _hunks_obs(hunks):
    from breezy import patches
    out = []
    for h in hunks:
        ls = []
        for l in h.lines:
            t = ("ctx" if isinstance(l, patches.ContextLine) else "ins" if isinstance(l, patches.InsertLine)
                 else "rem" if isinstance(l, patches.RemoveLine) else "???")
            ls.append([Tag(t), l.contents])
        out.append([h.orig_pos, h.orig_range, h.mod_pos, h.mod_range, h.tail, ls])
    return out


def _parse_obs(lines):
    from breezy import patches

    def go():
        p = patches.parse_patch(list(lines))
        if not isinstance(p, patches.Patch):
            return Err("BinaryFiles")
        ser = p.as_bytes()
        again = _run(lambda: _hunks_obs(patches.parse_patch(io.BytesIO(ser).readlines()).hunks))
        return [p.oldname, p.oldts, p.newname, p.newts, _hunks_obs(p.hunks), list(p.stats_values()), ser, again]
    return _run(go)


def _patched_obs(orig, lines):
    from breezy import patches
    return _run(lambda: list(patches.iter_patched(list(orig), list(lines))))


def impl(inp):
    import breezy.bzr  # noqa: F401
    k = inp["kind"]
    if k == "parse":
        orig = [bytes(x) for x in inp["orig"]]
        lines = [bytes(x) for x in inp["lines"]]
        return [_patched_obs(orig, lines), _parse_obs(lines)]
    a = [bytes(x) for x in inp["a"]]
    b = [bytes(x) for x in inp["b"]]
    n, m = inp["n"], inp["matcher"]
    if k == "groups":
        sm = _matcher(m)(None, a, b)
        ops = [list(o) for o in sm.get_opcodes()]
        if ops != [list(o) for o in inp["ops"]]:
            raise AssertionError("matcher is not deterministic")
        return [_valid_py(a, b, ops), [[[Tag(o[0])] + list(o[1:]) for o in g] for g in sm.get_grouped_opcodes(n)]]
    from breezy import diff
    f = io.BytesIO()
    diff.internal_diff("old", a, "new", b, f, allow_binary=True, sequence_matcher=_matcher(m), context_lines=n)
    d = f.getvalue()
    lines = io.BytesIO(d).readlines()
    if k == "perturb":
        return [_patched_obs([bytes(x) for x in inp["a2"]], lines)]
    if d == b"":
        return [b""]
    return [d, _patched_obs(a, lines), _parse_obs(lines)]


# --------------------------------------------------------------------------- model terms
def _lines(ls):
    return coq_list([coq_bytes(bytes(x)) for x in ls])


def _ops_term(ops):
    return coq_list([f"Op {TAGS[o[0]]} {int(o[1])} {int(o[2])} {int(o[3])} {int(o[4])}" for o in ops])


def model_term(inp):
    k = inp["kind"]
    if k == "parse":
        return f"run_parse {_lines(inp['orig'])} {_lines(inp['lines'])}"
    base = f"{_lines(inp['a'])} {_lines(inp['b'])} {_ops_term(inp['ops'])} {coq_nat(inp['n'])}"
    if k == "diff":
        return "run_diff " + base
    if k == "groups":
        return "run_groups " + base
    return f"run_perturb {base} {_lines(inp['a2'])}"


# --------------------------------------------------------------------------- the property itself
def _valid_py(a, b, ops):
    i = j = 0
    for t, i1, i2, j1, j2 in ops:
        if (i1, j1) != (i, j) or i2 < i1 or j2 < j1 or i2 > len(a) or j2 > len(b):
            return False
        if t == "equal" and a[i1:i2] != b[j1:j2]:
            return False
        if t == "delete" and j1 != j2 or t == "insert" and i1 != i2:
            return False
        i, j = i2, j2
    return (i, j) == (len(a), len(b))


def _is_err(o):
    return isinstance(o, Err) or (isinstance(o, list) and len(o) > 0 and isinstance(o[0], Err))


def _check_parse(po):
    if _is_err(po):
        return None
    hunks, ser, again = po[4], po[6], po[7]
    if again != hunks:
        return f"re-serialised patch {ser!r} parses to different hunks: {again!r} vs {hunks!r}"
    return None


def oracle(inp, obs):
    if isinstance(obs, Err):
        return "driver error " + str(obs)
    k = inp["kind"]
    if k == "parse":
        return _check_parse(obs[1])
    a = [bytes(x) for x in inp["a"]]
    b = [bytes(x) for x in inp["b"]]
    ops, n = inp["ops"], inp["n"]
    if k == "groups":
        return None if obs[0] is True else "matcher returned opcodes rejected by valid_opcodes (environment assumption broken)"
    if k == "diff":
        if obs == [b""]:
            return None if a == b else f"texts differ but the diff is empty (a={a!r}, b={b!r})"
        d, patched, po = obs
        if a == b:
            return f"identical texts but non-empty diff {d!r}"
        if patched != b:
            return f"applying the diff of {a!r} -> {b!r} (context {n}) to the old text gives {patched!r}"
        if _is_err(po):
            return f"breezy's own diff does not parse: {po!r}"
        ins = sum(o[4] - o[3] for o in ops if o[0] in ("replace", "insert"))
        rem = sum(o[2] - o[1] for o in ops if o[0] in ("replace", "delete"))
        if po[5][:2] != [ins, rem]:
            return f"stats {po[5]!r} but {ins} lines inserted and {rem} removed"
        return _check_parse(po)
    # perturb: the patch is positional; it applies to a2 iff a2 agrees with a on every hunk's old range
    a2 = [bytes(x) for x in inp["a2"]]
    if a == b:
        return None          # no diff at all: nothing to apply (only reachable through shrinking)
    groups = list(_matcher(inp["matcher"])(None, a, b).get_grouped_opcodes(n))
    ok = True
    expected, pos = [], 0
    for g in groups:
        i1, i2, j1, j2 = g[0][1], g[-1][2], g[0][3], g[-1][4]
        if i1 < pos or a2[i1:i2] != a[i1:i2] or len(a2) < i2:
            ok = False
            break
        expected += a2[pos:i1] + b[j1:j2]
        pos = i2
    expected += a2[pos:]
    got = obs[0]
    if ok:
        return None if got == expected else f"patch fits {a2!r} but application gives {got!r}, expected {expected!r}"
    if isinstance(got, list) and got and isinstance(got[0], Err) and str(got[0]) == "PatchConflict":
        return None
    if not _is_err(got):
        return f"old text {a2!r} does not match the diff's context, yet application silently returned {got!r}"
    if isinstance(got, list) and str(got[0]).startswith("TypeError@PatchConflict"):
        return "conflict reported as TypeError (PatchConflict.__init__ calls bytes.rstrip with a str) instead of PatchConflict"
    return f"mismatching old text reported as {got!r} instead of PatchConflict"


def finding_matches(fid, inp, obs, why):
    # C39-conflict-typeerror and C39-short-text-runtimeerror were fixed in /repo (c231e9b): nothing is excused
    return False


def nontrivial(inp, obs):
    if inp["kind"] == "parse":
        return True
    return [bytes(x) for x in inp["a"]] != [bytes(x) for x in inp["b"]]


def distribution(inputs, observations):
    d = {"kind": {}, "context": {}, "matcher": {}, "hunks": {}, "apply_outcome": {}, "no_final_newline": 0,
         "empty_side": 0, "max_lines": 0}
    for i, o in zip(inputs, observations):
        k = i["kind"]
        d["kind"][k] = d["kind"].get(k, 0) + 1
        if k == "parse":
            r = o[0] if isinstance(o, list) else o
        else:
            d["context"][str(i["n"])] = d["context"].get(str(i["n"]), 0) + 1
            d["matcher"][i["matcher"]] = d["matcher"].get(i["matcher"], 0) + 1
            a, b = i["a"], i["b"]
            d["max_lines"] = max(d["max_lines"], len(a), len(b))
            if (a and not bytes(a[-1]).endswith(b"\n")) or (b and not bytes(b[-1]).endswith(b"\n")):
                d["no_final_newline"] += 1
            if (not a) != (not b):
                d["empty_side"] += 1
            if k == "diff" and isinstance(o, list) and len(o) == 3 and not _is_err(o[2]):
                nh = str(len(o[2][4]))
                d["hunks"][nh] = d["hunks"].get(nh, 0) + 1
            r = o[0] if (k == "perturb" and isinstance(o, list)) else None
        if k in ("perturb", "parse"):
            key = (str(r[0]) if isinstance(r, list) and r and isinstance(r[0], Err) else str(r) if isinstance(r, Err) else "ok")
            d["apply_outcome"][key] = d["apply_outcome"].get(key, 0) + 1
    return d


def shrink(inp, fails):
    if inp["kind"] == "parse":
        return inp
    cur = inp
    changed = True
    while changed:
        changed = False
        for side in ("a", "b", "a2"):
            if side not in cur:
                continue
            for i in range(len(cur[side])):
                t = list(cur[side])
                del t[i]
                kw = {"a2": cur["a2"]} if "a2" in cur else {}
                args = {"a": cur["a"], "b": cur["b"]}
                if side == "a2":
                    kw["a2"] = t
                else:
                    args[side] = t
                cand = _mk(cur["kind"], args["a"], args["b"], cur["n"], cur["matcher"], **kw)
                if fails(cand):
                    cur, changed = cand, True
                    break
            if changed:
                break
    return cur


def search(hints, rng):
    """wider search when the tie or a proof breaks: exhaustive small pairs, all contexts"""
    import breezy.bzr  # noqa: F401
    pool = list(hints)
    for a in _texts(ALPHA[:2], 3):
        for b in _texts(ALPHA[:2], 3):
            for n in (0, 1, 2, 3):
                pool.append(_mk("diff", a, b, n))
            if a != b:
                for a2 in _perturbations(a, rng, 6):
                    pool.append(_mk("perturb", a, b, 1, a2=a2))
    for inp in pool:
        try:
            o = impl(inp)
        except Exception as e:  # noqa: BLE001
            o = Err("DRIVER:" + type(e).__name__)
        why = oracle(inp, o)
        if why:
            return inp, o, why
    return None
