"""C10 -- all tree-comparison implementations report the same changes (tie H).

A case is a pair of abstract versioned trees (a, b) with explicit file ids, a list of
unversioned extra files, a path filter and the iter_changes options.  The pair is
materialised as a real 2a branch (revision A = a, revision B = b, working tree = b +
extras with basis reset to A) and iter_changes is run through
  0 generic_rt   InterInventoryTree(revtree A, revtree B)          (generic walker)
  1 chk          InterTree.get(revtree A, revtree B)               (InterCHKRevisionTree)
  2 generic_wt   InterInventoryTree(revtree A, working tree)       (generic walker)
  3/4 dirstate   InterTree.get(basis tree, working tree)           (InterDirStateTree)
  5 generic_wtb  InterInventoryTree(basis tree, working tree)      (generic walker, dirstate paths2ids)
The Coq model (Model/TreeCompare.v) predicts slots 0-2 always and the dirstate result when
no filter is given; the oracle evaluates the property itself (agreement of the
implementations, soundness/completeness against the spec, validity of the applied delta).
The filtered dirstate result varies between runs of the same case (the compiled walker iterates a hash
set: duplicates and the ENOTDIR crash come and go), so it is judged only through predicates that are
stable under that: per-change soundness, completeness as a set, validity of the applied delta; a
duplicate or the crash is accepted only under its known finding; it is never fed to the model.
"""
import json
import os
import shutil
import tempfile

from vlib import Tag, Err, coq_bytes, coq_list, coq_bool, coq_nat, coq_option

PROP = "C10"
COQ = {
    "property_file": "Properties/C10.v",
    "imports": "From BV Require Import Lib.Bytes Lib.Tree Model.TreeCompare.",
}
META = {
    "level": "proof",
    "title": "All tree-comparison implementations report the same changes",
    "technique": ("Coq theorems over an abstract versioned-tree library (Lib/Tree.v) and a hand model of the generic walker, "
                  "_handle_precise_ids and the CHK glue + correspondence on real 2a trees through four implementations"),
    "level_text": ("Round trip apply_changes(changes a b) a = b proved for all valid trees; the unfiltered generic walker and CHK glue "
                   "proved equal to the comparison spec for both include_unchanged settings; no id is reported twice (proved, filtered or "
                   "not); filtered results proved sound, complete on the selected ids and closed under target parents (partial correctness "
                   "of the closure loop); full validity of a filtered delta is machine-refuted (sibling names can collide; witness replayed "
                   "on the real code).  Hand model tied to /repo (after repairs 5cddeb1, b515e80, b7b83f3) by running generic, CHK and "
                   "dirstate comparisons of real trees built from generated edit scripts."),
    "level_note": ("Trusted: Coq kernel, vm_compute, the hand model's correspondence (sampled), the environment models "
                   "(CHKInventory.iter_changes = spec, iter_entries_by_dir(specific ids) = exactly those ids).  The dirstate comparison core "
                   "(compiled, bzrformats) is not modelled for filtered comparisons: only checked by the oracle."),
    "design_ref": "DESIGN.md §5 C10",
    "trusted_base": ["hand model coq/Model/TreeCompare.v of breezy/bzr/inventorytree.py (InterInventoryTree, InterCHKRevisionTree, find_ids_across_trees)",
                     "abstract tree library coq/Lib/Tree.v", "correspondence harness harness/props/c10.py"],
    "assumptions": ["CHKInventory.iter_changes (bzrformats, compiled) returns exactly the changed ids with the same fields as _changes_from_entries",
                    "Inventory.iter_entries_by_dir(specific_file_ids=S) yields exactly the entries with id in S",
                    "both trees resolve the path filter to the same id set (revision trees; revision tree vs working tree)",
                    "no tree references, no root id change, POSIX working tree (symlinks, executable bit)",
                    "the closure loop _handle_precise_ids terminates (model: fuel (|a|+|b|+2)^2; exhaustion would show as a disagreement)"],
    "rule": ("tree pairs from random base trees (<=7 ids, names a-e) and edit scripts (rename, move, swap, kind change, modify, delete, add, "
             "replace, directory replaced by a new id) plus two targeted shapes (cross-tree children closure; in-place modification below a "
             "renamed ancestor with a file-level filter) x filters (None, [], singles and subsets of <=5 paths incl. unversioned/nonexistent) x include_unchanged x "
             "want_unversioned x require_versioned; non-trivial = the trees differ"),
}
SHARD = 150

D, FI, SY = "directory", "file", "symlink"
ROOT = [0, None, "", D, b"", False, ""]
_state = {"dir": None, "key": None, "built": None, "n": 0}

# ------------------------------------------------------------------ abstract trees (python mirror of Lib/Tree.v)


def tdict(t):
    return {e[0]: e for e in t}


def tpaths(t):
    d = tdict(t)
    out = {}

    def p(i, depth=0):
        if i in out:
            return out[i]
        if depth > len(d) + 1 or i not in d:
            return None
        e = d[i]
        if e[1] is None:
            out[i] = ""
            return ""
        pp = p(e[1], depth + 1)
        if pp is None:
            return None
        out[i] = (pp + "/" + e[2]) if pp else e[2]
        return out[i]
    for i in d:
        if p(i) is None:
            out[i] = None
    return out


def invalid(t):
    """None if the tree is valid (mirror of valid_treeb), else the reason."""
    d = tdict(t)
    roots = [e for e in t if e[1] is None]
    if len(roots) != 1 or roots[0][3] != D or roots[0][2] != "":
        return "root"
    for e in t:
        if e[1] is not None:
            if e[1] not in d:
                return "parent-missing"
            if d[e[1]][3] != D:
                return "parent-not-dir"
            if not e[2] or "/" in e[2]:
                return "name"
    slots = set()
    for e in t:
        k = (e[1], e[2])
        if k in slots:
            return "dup-name"
        slots.add(k)
    if any(v is None for v in tpaths(t).values()):
        return "cycle"
    return None


def norm_entry(e):
    i, par, name, kind, content, ex, target = e
    if kind == D:
        return [i, par, name, kind, b"", False, ""]
    if kind == SY:
        return [i, par, name, kind, b"", False, target]
    return [i, par, name, kind, bytes(content), bool(ex), ""]


def spec_change(a, b, i, pa=None, pb=None):
    da, db = tdict(a), tdict(b)
    pa = pa if pa is not None else tpaths(a)
    pb = pb if pb is not None else tpaths(b)
    x, y = da.get(i), db.get(i)
    if x is None and y is None:
        return None
    if x is not None and y is not None:
        if x[3] != y[3]:
            cc = True
        elif x[3] == FI:
            cc = x[4] != y[4]
        elif x[3] == SY:
            cc = x[6] != y[6]
        else:
            cc = False
    else:
        cc = True

    def f(e, k):
        return None if e is None else e[k]
    return [i, [None if x is None else pa[i], None if y is None else pb[i]], cc,
            [x is not None, y is not None], [f(x, 1), f(y, 1)], [f(x, 2), f(y, 2)],
            [None if x is None else Tag(x[3]), None if y is None else Tag(y[3])], [f(x, 5), f(y, 5)]]


def is_changed(c):
    return c[2] or c[3][0] != c[3][1] or c[4][0] != c[4][1] or c[5][0] != c[5][1] or c[7][0] != c[7][1]


def spec_changes(a, b, incl):
    pa, pb = tpaths(a), tpaths(b)
    out = []
    for i in sorted(set(tdict(a)) | set(tdict(b))):
        c = spec_change(a, b, i, pa, pb)
        if incl or is_changed(c):
            out.append(c)
    return out


def apply_changes(a, b, cs):
    """Mirror of Lib.Tree.apply_changes (tree_content b)."""
    d = {e[0]: list(e) for e in a}
    db = tdict(b)
    for c in cs:
        i = c[0]
        if c[3][1]:
            if c[2]:
                content, target = (db[i][4], db[i][6]) if i in db else (b"", "")
            else:
                content, target = (d[i][4], d[i][6]) if i in d else (b"", "")
            d[i] = [i, c[4][1], c[5][1], str(c[6][1]), content, c[7][1], target]
        else:
            d.pop(i, None)
    return [d[i] for i in sorted(d)]


def selected_ids(a, b, F):
    """ids at the filter paths in either tree plus all their descendants in either tree."""
    ids = set()
    for t in (a, b):
        inv = {p: i for i, p in tpaths(t).items()}
        for f in F:
            if f in inv:
                ids.add(inv[f])
    changed = True
    while changed:
        changed = False
        for t in (a, b):
            for e in t:
                if e[1] in ids and e[0] not in ids:
                    ids.add(e[0])
                    changed = True
    return ids


# ------------------------------------------------------------------ generation

NAMES = ["a", "b", "c", "d", "e"]
ODD = ["a-b", "a.c", "b+", "c d"]     # "<dir><byte below '/'>...": sorts between "<dir>" and "<dir>/x"
CONTENTS = [b"", b"1", b"2"]
TARGETS = ["t1", "t2"]


def _free_name(rng, t, parent, exclude=()):
    used = {e[2] for e in t if e[1] == parent}
    pool = NAMES + ([rng.choice(ODD)] if rng.random() < 0.25 else [])
    free = [n for n in pool if n not in used and n not in exclude]
    return rng.choice(free) if free else None


def _new_entry(rng, i, parent, name):
    kind = rng.choice([D, D, FI, FI, FI, SY])
    return norm_entry([i, parent, name, kind, rng.choice(CONTENTS), rng.random() < 0.25, rng.choice(TARGETS)])


def gen_tree(rng, n):
    t = [list(ROOT)]
    for i in range(1, n + 1):
        dirs = [e[0] for e in t if e[3] == D]
        par = rng.choice(dirs)
        name = _free_name(rng, t, par)
        if name is None:
            continue
        t.append(_new_entry(rng, i, par, name))
    return t


def _subtree(t, i):
    s = {i}
    ch = True
    while ch:
        ch = False
        for e in t:
            if e[1] in s and e[0] not in s:
                s.add(e[0])
                ch = True
    return s


def edit(rng, t, next_id):
    """One random edit; returns (new tree, next_id) (possibly unchanged if the edit is not applicable)."""
    t = [list(e) for e in t]
    d = tdict(t)
    nonroot = [e for e in t if e[1] is not None]
    op = rng.choice(["rename", "move", "move", "swap", "modify", "kind", "delete", "add", "add", "replace", "dir2file",
                     "replacedir"])
    if op in ("add",) or not nonroot:
        dirs = [e[0] for e in t if e[3] == D]
        par = rng.choice(dirs)
        name = _free_name(rng, t, par)
        if name:
            t.append(_new_entry(rng, next_id, par, name))
            next_id += 1
        return sorted(t), next_id
    e = rng.choice(nonroot)
    if op == "rename":
        name = _free_name(rng, t, e[1])
        if name:
            e[2] = name
    elif op == "move":
        sub = _subtree(t, e[0])
        dirs = [x[0] for x in t if x[3] == D and x[0] not in sub and x[0] != e[1]]
        if dirs:
            par = rng.choice(dirs)
            used = {x[2] for x in t if x[1] == par}
            name = e[2] if e[2] not in used and rng.random() < 0.7 else _free_name(rng, t, par)
            if name:
                e[1], e[2] = par, name
    elif op == "swap":
        f = rng.choice(nonroot)
        if f[0] != e[0] and f[0] not in _subtree(t, e[0]) and e[0] not in _subtree(t, f[0]):
            e[1], e[2], f[1], f[2] = f[1], f[2], e[1], e[2]
    elif op == "modify":
        if e[3] == FI:
            if rng.random() < 0.3:
                e[5] = not e[5]
            else:
                e[4] = rng.choice([c for c in CONTENTS if c != e[4]])
        elif e[3] == SY:
            e[6] = rng.choice([x for x in TARGETS if x != e[6]])
    elif op == "kind":
        has_children = any(x[1] == e[0] for x in t)
        if not has_children:
            kinds = [k for k in (D, FI, SY) if k != e[3]]
            e[:] = norm_entry([e[0], e[1], e[2], rng.choice(kinds), rng.choice(CONTENTS), False, rng.choice(TARGETS)])
    elif op == "delete":
        sub = _subtree(t, e[0])
        t = [x for x in t if x[0] not in sub]
    elif op == "replace":
        sub = _subtree(t, e[0])
        t = [x for x in t if x[0] not in sub]
        t.append(_new_entry(rng, next_id, e[1], e[2]))
        next_id += 1
    elif op == "replacedir":
        # a directory gives way (deleted, or renamed/retyped) to a NEW directory id at its path; an outsider moves in
        dirs = [x for x in nonroot if x[3] == D]
        if dirs:
            e = rng.choice(dirs)
            slot = (e[1], e[2])
            sub = _subtree(t, e[0])
            outsiders = [x for x in nonroot if x[0] not in sub]
            if rng.random() < 0.5:
                t = [x for x in t if x[0] not in sub]
            else:
                name = _free_name(rng, t, e[1])
                if name:
                    e[2] = name
                    kids = [x for x in t if x[1] == e[0]]
                    if not kids and rng.random() < 0.5:
                        e[:] = norm_entry([e[0], e[1], e[2], FI, rng.choice(CONTENTS), False, ""])
            if not any((x[1], x[2]) == slot for x in t):
                t.append(norm_entry([next_id, slot[0], slot[1], D, b"", False, ""]))
                if outsiders:
                    o = rng.choice(outsiders)
                    if o[0] in {x[0] for x in t}:
                        o[1] = next_id
                next_id += 1
    elif op == "dir2file":
        if e[3] == D:
            kids = [x for x in t if x[1] == e[0]]
            dirs = [x[0] for x in t if x[3] == D and x[0] not in _subtree(t, e[0])]
            for k in kids:
                par = rng.choice(dirs)
                used = {x[2] for x in t if x[1] == par}
                if k[2] in used or rng.random() < 0.3:
                    sub = _subtree(t, k[0])
                    t = [x for x in t if x[0] not in sub]
                else:
                    k[1] = par
            if not any(x[1] == e[0] for x in t):
                e[:] = norm_entry([e[0], e[1], e[2], rng.choice([FI, SY]), rng.choice(CONTENTS), False, rng.choice(TARGETS)])
    return sorted(t), next_id


def gen_pair(rng, n, k):
    a = gen_tree(rng, n)
    b, nid = a, n + 1
    for _ in range(k):
        nb, nid2 = edit(rng, b, nid)
        if invalid(nb) is None:
            b, nid = nb, nid2
    extras = []
    if rng.random() < 0.7:
        pb = tpaths(b)
        dirs = [pb[e[0]] for e in b if e[3] == D]
        for _ in range(rng.randint(1, 3)):
            dd = rng.choice(dirs)
            used = {e[2] for e in b if e[1] == {v: k2 for k2, v in pb.items()}[dd]}
            nm = rng.choice(["u", "v"])
            p = (dd + "/" + nm) if dd else nm
            if nm not in used and p not in extras:
                extras.append(p)
    return a, b, sorted(extras)


def filters_for(rng, a, b, extras, nsingle, nsub):
    pool = sorted(set(tpaths(a).values()) | set(tpaths(b).values()) | set(extras) | {"nope"})
    out = [None, []]
    singles = list(pool)
    rng.shuffle(singles)
    out += [[p] for p in singles[:nsingle]]
    for _ in range(nsub):
        k = rng.choice([2, 2, 3, 3, 4, 5])
        out.append(sorted(rng.sample(pool, min(k, len(pool)))))
    # redundant filters: a directory, something nested in it, and a (real or nonexistent) sibling whose name
    # is the directory name + a byte below '/', so that it sorts between the directory and the nested path
    nested = [p for p in pool if "/" in p]
    rng.shuffle(nested)
    for p in nested[:2]:
        parts = p.split("/")
        d = "/".join(parts[:rng.randint(1, len(parts) - 1)])
        sib = d + rng.choice(["-old", ".bak", " 2", "+", ",v", "-b", ".c"])
        real = [q for q in pool if q.startswith(d) and len(q) > len(d) and q[len(d)] < "/" ]
        out.append(sorted({d, rng.choice(real) if real and rng.random() < 0.5 else sib, p}))
    return out


def mk(a, b, extras=(), F=None, incl=False, unv=False, rv=False):
    return {"a": [norm_entry(e) for e in a], "b": [norm_entry(e) for e in b], "extras": list(extras),
            "F": F, "incl": incl, "unv": unv, "rv": rv}


def e(i, par, name, kind=FI, content=b"1", ex=False, target="t1"):
    return norm_entry([i, par, name, kind, content, ex, target])


def corpus():
    R = list(ROOT)
    out = []
    # W1: rename into a path that another (unselected) id leaves: filtered delta has a path collision
    a = [R, e(1, 0, "x"), e(2, 0, "y", content=b"2")]
    b = [R, e(1, 0, "y"), e(2, 0, "z", content=b"2")]
    for F in (["x"], ["y"], ["z"], None, []):
        out.append(mk(a, b, F=F))
    # W2: _handle_precise_ids yields an already reported id a second time
    a = [R, e(1, 0, "d", D), e(2, 1, "x")]
    b = [R, e(1, 0, "e", D), e(2, 3, "x"), e(3, 0, "d", D)]
    for F in (["e"], ["d"], ["d/x"], None):
        out.append(mk(a, b, F=F))
        out.append(mk(a, b, F=F, incl=True))
    # W3: include_unchanged below a renamed directory (CHK reports (relpath, relpath))
    a = [R, e(1, 0, "d", D), e(2, 1, "x"), e(3, 0, "k")]
    b = [R, e(1, 0, "e", D), e(2, 1, "x"), e(3, 0, "k")]
    for F in (None, ["e"], ["d/x"], ["k"]):
        out.append(mk(a, b, F=F, incl=True))
    # swap, kind change, directory -> file with moved children, unversioned files and unknown paths
    a = [R, e(1, 0, "a", D), e(2, 1, "f"), e(3, 0, "b", D), e(4, 3, "g", SY), e(5, 0, "c", ex=True)]
    b = [R, e(1, 0, "b", D), e(2, 3, "f"), e(3, 0, "a", D), e(4, 0, "g", FI, b"2"), e(6, 0, "c", D), e(7, 6, "n")]
    for F in (None, ["a"], ["b"], ["a/f"], ["c"], ["c/n"], ["g"], ["a", "c"], ["u"], ["nope"], ["a", "nope"]):
        for incl, unv, rv in ((False, False, False), (True, True, False), (False, True, True)):
            out.append(mk(a, b, ["a/v", "u"], F, incl, unv, rv))
    a = [R, e(1, 0, "d", D), e(2, 1, "x"), e(3, 1, "y", D), e(4, 3, "z")]
    b = [R, e(1, 0, "d", FI, b"2"), e(2, 0, "x"), e(3, 0, "y", D), e(4, 3, "z")]
    for F in (None, ["d"], ["x"], ["y/z"], ["y"]):
        out.append(mk(a, b, F=F))
    # W4: a directory is replaced by a new directory id at the same path and a selected file moves in:
    # _handle_precise_ids must drag in the old directory and (it stopped being a directory) its old children
    a = [R, e(1, 0, "d", D), e(2, 1, "x"), e(3, 0, "f")]
    b4 = [R, e(3, 4, "f"), e(4, 0, "d", D)]
    b5 = [R, e(1, 0, "g", FI, b"2"), e(2, 0, "x"), e(3, 4, "f"), e(4, 0, "d", D)]
    b6 = [R, e(1, 0, "g", FI, b"2"), e(2, 5, "x"), e(3, 4, "f"), e(4, 0, "d", D), e(5, 4, "n", D)]
    for bb in (b4, b5, b6):
        for F in (["f"], ["d/f"], ["d"], None, ["x"]):
            out.append(mk(a, bb, F=F))
            out.append(mk(a, bb, F=F, incl=True))
    # executable bit only / symlink target only / content only
    a = [R, e(1, 0, "a", D), e(2, 1, "p", ex=False), e(3, 1, "l", SY, target="t1"), e(4, 0, "q", content=b"1")]
    b = [R, e(1, 0, "a", D), e(2, 1, "p", ex=True), e(3, 1, "l", SY, target="t2"), e(4, 0, "q", content=b"2")]
    for F in (None, ["a"], ["a/p"], ["q"], ["a/l", "q"]):
        out.append(mk(a, b, F=F))
    out.append(mk(a, b, F=None, incl=True))
    # W5: cross-tree children closure: S is inside D in one tree and outside in the other, and has children
    # that exist only in the tree where it is outside D (found only by going back to the first tree)
    a = [R, e(1, 0, "D", D), e(2, 1, "S", D), e(3, 2, "o")]
    b = [R, e(1, 0, "D", D), e(2, 0, "S", D), e(3, 2, "o"), e(4, 2, "n", content=b"2"), e(5, 2, "m", D), e(6, 5, "k")]
    for F in (["D"], ["D/S"], ["D", "S/n"], None):
        for incl in (False, True):
            out.append(mk(a, b, F=F, incl=incl))
            out.append(mk(b, a, F=F, incl=incl))
    # W6: file modified in place below a directory whose ancestor was renamed, file-level filter
    a = [R, e(1, 0, "p", D), e(2, 1, "d", D), e(3, 2, "f", content=b"1"), e(4, 2, "g", ex=False), e(5, 2, "l", SY, target="t1")]
    b = [R, e(1, 0, "q", D), e(2, 1, "d", D), e(3, 2, "f", content=b"2"), e(4, 2, "g", ex=True), e(5, 2, "l", SY, target="t2")]
    for F in (["q/d/f"], ["p/d/f"], ["q/d/g"], ["p/d/l"], ["p/d/f", "q/d/g"], ["q/d"]):
        out.append(mk(a, b, F=F))
    # W7: redundant filter {D, D<byte below '/'>.., D/nested}: the nested path must not be scanned twice
    a = [R, e(1, 0, "src", D), e(2, 1, "main", content=b"1"), e(3, 0, "src-old"), e(4, 1, "sub", D), e(5, 4, "k", ex=False),
         e(6, 0, "src.bak", D)]
    b = [R, e(1, 0, "src", D), e(2, 1, "main", content=b"2"), e(3, 0, "src-old"), e(4, 1, "sub", D), e(5, 4, "k", ex=True),
         e(6, 0, "src.bak", D), e(7, 4, "n")]
    for F in (["src", "src-old", "src/main"], ["src", "src.bak", "src/sub"], ["src", "src 2", "src/sub/k"],
              ["src", "src/main"], ["src", "src/sub", "src/sub/k", "src-old"], ["src/sub", "src/sub+", "src/sub/n"]):
        out.append(mk(a, b, ["src/sub/u", "src/v"], F, False, True, False))
        out.append(mk(a, b, ["src/sub/u", "src/v"], F, True, False, False))
    # the dirstate fast path reports id 5 twice
    a = [R, e(1, 0, "d", FI, b""), e(2, 0, "c", D), e(3, 2, "a", FI, b""), e(4, 2, "d", D), e(5, 0, "e", D)]
    b = [R, e(1, 0, "d", FI, b""), e(2, 0, "c", D), e(5, 2, "c", D), e(6, 2, "a", FI, b"2")]
    out.append(mk(a, b, ["u"], ["c", "c/a", "e", "u"], True, False, False))
    return out


def shaped(rng):
    """random instances of two shapes that plain edit scripts rarely hit"""
    R = list(ROOT)
    if rng.random() < 0.5:
        # S inside D on one side, outside on the other; children of S that exist on one side only
        nm = rng.sample(NAMES, 4)
        a = [R, e(1, 0, nm[0], D), e(2, 1, nm[1], D)]
        b = [R, e(1, 0, nm[0], D), e(2, 0, nm[1], D)]
        nid = 3
        for k in range(rng.randint(1, 3)):
            ent = _new_entry(rng, nid, 2, NAMES[k])
            side = rng.choice("abx")
            if side in "ax":
                a.append(list(ent))
            if side in "bx":
                b.append(list(ent))
            nid += 1
        if rng.random() < 0.4:
            b.append(e(nid, 0, nm[2], D)); b[2][1] = nid   # S below another new directory
        if rng.random() < 0.5:
            a, b = b, a
        F = [rng.choice([nm[0], nm[0], nm[0] + "/" + nm[1], nm[1]])]
        return sorted(a), sorted(b), [], F
    # chain of directories, an ancestor renamed or moved, a leaf modified in place; file-level filter
    depth = rng.randint(1, 3)
    a, b = [R], [R]
    par = 0
    for k in range(1, depth + 1):
        a.append(e(k, par, NAMES[k], D)); b.append(e(k, par, NAMES[k], D)); par = k
    ren = rng.randint(1, depth)
    b[ren][2] = "e" if b[ren][2] != "e" else "a"
    leaf = depth + 1
    kind = rng.choice([FI, FI, SY])
    a.append(norm_entry([leaf, par, "f", kind, b"1", False, "t1"]))
    how = rng.choice(["content", "exec", "same"])
    b.append(norm_entry([leaf, par, "f", kind, b"2" if how == "content" else b"1", how == "exec", "t2" if how == "content" else "t1"]))
    if rng.random() < 0.5:
        a.append(e(leaf + 1, par, "g")); b.append(e(leaf + 1, par, "g"))
    pa, pb = tpaths(a), tpaths(b)
    F = [rng.choice([pa[leaf], pb[leaf]])]
    return a, b, [], F


def cases(rng, tier):
    for _ in range(24 if tier == "quick" else 200):
        a, b, extras, F = shaped(rng)
        if invalid(a) is None and invalid(b) is None:
            yield mk(a, b, extras, F, rng.random() < 0.3, False, False)
    npairs = 65 if tier == "quick" else 400
    for pi in range(npairs):
        n = rng.choice([2, 3, 4, 5, 6, 7]) if pi % 4 else rng.choice([2, 3])
        k = rng.choice([1, 2, 3, 4, 5])
        a, b, extras = gen_pair(rng, n, k)
        for F in filters_for(rng, a, b, extras, 5, 3):
            if F is None:
                combos = [(i, u) for i in (False, True) for u in (False, True)]
            else:
                combos = [(rng.random() < 0.35, rng.random() < 0.5)]
                if rng.random() < 0.3:
                    combos.append((not combos[0][0], not combos[0][1]))
            for incl, unv in combos:
                yield mk(a, b, extras, F, incl, unv, rng.random() < 0.15)


# ------------------------------------------------------------------ real trees

def fid(i):
    return b"f%d" % i


def unfid(x):
    return None if x is None else int(x[1:])


def _materialise(wt, t, extras=()):
    base = wt.basedir
    ps = tpaths(t)
    order = sorted((x for x in t if x[1] is not None), key=lambda x: ps[x[0]].split("/"))
    for x in order:
        ap = os.path.join(base, ps[x[0]])
        if x[3] == D:
            os.mkdir(ap)
        elif x[3] == FI:
            with open(ap, "wb") as f:
                f.write(x[4])
            os.chmod(ap, 0o755 if x[5] else 0o644)
        else:
            os.symlink(x[6], ap)
    if order:
        wt.add([ps[x[0]] for x in order], ids=[fid(x[0]) for x in order])
    for p in extras:
        with open(os.path.join(base, p), "wb") as f:
            f.write(b"extra")


def _clear(wt):
    with wt.lock_write():
        ps = [p for p, _ in wt.iter_entries_by_dir() if p]
        if ps:
            wt.unversion(ps)
    for n in os.listdir(wt.basedir):
        if n == ".bzr":
            continue
        ap = os.path.join(wt.basedir, n)
        if os.path.isdir(ap) and not os.path.islink(ap):
            shutil.rmtree(ap)
        else:
            os.unlink(ap)


def _scratch():
    if _state["dir"] is None or not os.path.isdir(_state["dir"]):
        base = os.environ.get("VERIF_SCRATCH")
        _state["dir"] = tempfile.mkdtemp(prefix="c10-", dir=base if base and os.path.isdir(base) else None)
        _state["own"] = True
        import atexit
        atexit.register(shutil.rmtree, _state["dir"], True)
    return _state["dir"]


def setup(scratch):
    _state["dir"] = scratch
    _state["own"] = False
    _drop()


def teardown():
    _drop()
    if _state.get("own") and _state["dir"]:
        shutil.rmtree(_state["dir"], ignore_errors=True)
    _state["dir"] = None


def _drop():
    if _state["built"] is not None:
        shutil.rmtree(_state["built"]["dir"], ignore_errors=True)
    _state["built"] = None
    _state["key"] = None


def _build(inp):
    import breezy
    import breezy.bzr  # noqa
    from breezy.controldir import ControlDir, format_registry
    os.environ.setdefault("BRZ_EMAIL", "verif <verif@example.com>")
    key = json.dumps([[list(map(_j, x)) for x in inp["a"]], [list(map(_j, x)) for x in inp["b"]], inp["extras"]])
    if _state["key"] == key:
        return _state["built"]
    _drop()
    _state["n"] += 1
    d = os.path.join(_scratch(), "p%d" % _state["n"])
    os.mkdir(d)
    wt = ControlDir.create_standalone_workingtree(d, format=format_registry.make_controldir("2a"))
    with wt.lock_write():
        wt.set_root_id(fid(0))
        _materialise(wt, inp["a"])
        ra = wt.commit("a", rev_id=b"rev-a")
    _clear(wt)
    with wt.lock_write():
        _materialise(wt, inp["b"], inp["extras"])
        rb = wt.commit("b", rev_id=b"rev-b")
        wt.set_parent_ids([ra])
    _state["key"] = key
    _state["built"] = {"dir": d, "wt": wt, "ra": ra, "rb": rb}
    return _state["built"]


def _j(v):
    return v.decode("latin-1") if isinstance(v, bytes) else v


def _canon(c):
    return [unfid(c.file_id), [c.path[0], c.path[1]], bool(c.changed_content), list(c.versioned),
            [unfid(c.parent_id[0]), unfid(c.parent_id[1])], list(c.name),
            [None if k is None else Tag(k) for k in c.kind], list(c.executable)]


def _collect(it):
    from breezy import errors
    try:
        vs, us = [], []
        for c in it():
            if c.file_id is None:
                exp = (None, (None, c.path[1]), True, (False, False), (None, None),
                       (None, os.path.basename(c.path[1] or "")), (None, "file"), (None, False))
                got = (c.file_id, tuple(c.path), c.changed_content, tuple(c.versioned), tuple(c.parent_id),
                       tuple(c.name), tuple(c.kind), tuple(c.executable))
                us.append(c.path[1] if got == exp else "BAD " + repr(got))
            else:
                vs.append(_canon(c))
        vs.sort(key=lambda c: (c[0], repr(c)))
        return [vs, sorted(us)]
    except errors.PathsNotVersionedError:
        return Err("PathsNotVersionedError")
    except Exception as ex:  # an implementation crashing where the others answer is an observation
        return Err("CRASH:" + type(ex).__name__)


def impl(inp):
    import breezy.bzr  # noqa
    from breezy.bzr.inventorytree import InterInventoryTree, InterCHKRevisionTree
    from breezy.bzr.workingtree_4 import InterDirStateTree
    from breezy.tree import InterTree
    bt = _build(inp)
    wt, ra, rb = bt["wt"], bt["ra"], bt["rb"]
    F, incl, unv, rv = inp["F"], inp["incl"], inp["unv"], inp["rv"]
    F = None if F is None else list(F)
    kw = dict(include_unchanged=incl, specific_files=F, require_versioned=rv, want_unversioned=unv)
    repo = wt.branch.repository
    out = [None] * 6
    with repo.lock_read():
        ta, tb = repo.revision_tree(ra), repo.revision_tree(rb)
        out[0] = _collect(lambda: InterInventoryTree(ta, tb).iter_changes(**kw))
        it = InterTree.get(ta, tb)
        if type(it) is not InterCHKRevisionTree:
            return Err("DRIVER: optimiser for revision trees is " + type(it).__name__)
        out[1] = _collect(lambda: it.iter_changes(**kw))
        with wt.lock_read():
            out[2] = _collect(lambda: InterInventoryTree(ta, wt).iter_changes(**kw))
            basis = wt.basis_tree()
            with basis.lock_read():
                it = InterTree.get(basis, wt)
                if type(it) is not InterDirStateTree:
                    return Err("DRIVER: optimiser for basis/working tree is " + type(it).__name__)
                ds = _collect(lambda: it.iter_changes(**kw))
                out[3] = ds if (F is None or ds == Err("PathsNotVersionedError")) else None
                out[4] = ds
                out[5] = _collect(lambda: InterInventoryTree(basis, wt).iter_changes(**kw))
    return out


def impl_obs(inp, obs):
    if isinstance(obs, Err):
        return obs
    return obs[:4]


# ------------------------------------------------------------------ model term

KIND = {D: "KDir", FI: "KFile", SY: "KSymlink"}


def coq_path(p):
    return coq_list([coq_bytes(c.encode()) for c in p.split("/") if c != ""])


def coq_tree(t):
    items = []
    for i, par, name, kind, content, ex, target in t:
        items.append("(%s, mkEntry %s %s %s %s %s %s)" % (
            coq_nat(i), "None" if par is None else "(Some %s)" % coq_nat(par), coq_bytes(name.encode()),
            KIND[kind], coq_bytes(bytes(content)), coq_bool(ex), coq_bytes(target.encode())))
    return coq_list(items)


def model_term(inp):
    F = inp["F"]
    return "run_case %s %s %s %s %s %s %s" % (
        coq_tree(inp["a"]), coq_tree(inp["b"]),
        "None" if F is None else "(Some %s)" % coq_list([coq_path(p) for p in F]),
        coq_bool(inp["incl"]), coq_bool(inp["unv"]), coq_bool(inp["rv"]),
        coq_list([coq_path(p) for p in inp["extras"]]))


# ------------------------------------------------------------------ oracle

IMPLS = {0: "generic_rt", 1: "chk", 2: "generic_wt", 4: "dirstate", 5: "generic_wtb"}


def violations(inp, obs):
    """All property clauses violated by this observation, as a sorted list of tags."""
    if isinstance(obs, Err):
        return ["driver"]
    a, b, F, incl = inp["a"], inp["b"], inp["F"], inp["incl"]
    tags = set()
    errs = {k: str(obs[k]) if isinstance(obs[k], Err) else None for k in IMPLS}
    if any(errs.values()):
        if len(set(errs.values())) != 1 or any(v.startswith("CRASH") for v in errs.values() if v):
            for k, v in errs.items():
                if v and v.startswith("CRASH"):
                    tags.add("crash:%s:%s" % (IMPLS[k], v[6:]))
            if not tags:
                tags.add("error-differs")
        return sorted(tags)

    def key(r):
        return json.dumps([r[0], r[1]], sort_keys=True, default=repr)
    # the literal statement: every optimised comparison = the generic comparison
    if key(obs[1]) != key(obs[0]):
        tags.add("differs:chk/generic_rt")
    if key(obs[4]) != key(obs[2]):
        tags.add("differs:dirstate/generic_wt")
    # generic walker on (basis tree object, wt): DirStateWorkingTree.paths2ids may select more ids than the
    # generic paths2ids, so this run may report more -- never less, and (checked below) only correct changes
    if not {json.dumps(c, default=repr) for c in obs[2][0]} <= {json.dumps(c, default=repr) for c in obs[5][0]}:
        tags.add("wtb-misses-generic_wt-change")
    if [x[0] for x in obs[2][0]] != [x[0] for x in obs[0][0]] or key([obs[2][0], []]) != key([obs[0][0], []]):
        tags.add("differs:generic_wt/generic_rt")
    spec_all = {c[0]: c for c in spec_changes(a, b, True)}
    sel = None if F is None else selected_ids(a, b, F)
    for k, name in IMPLS.items():
        vs, us = obs[k]
        ids = [c[0] for c in vs]
        if len(ids) != len(set(ids)):
            if k == 4 and sel is not None and all(_under_a_move(c, spec_all) for c in vs if ids.count(c[0]) > 1):
                # the only duplicate known of the compiled walker: it adds the other side of every rename it
                # meets to its search set, so a moved id - or anything at/below the old or new location of a
                # moved id - can be covered by two search roots and is then met twice
                tags.add("dup:" + name)
            elif k == 4:
                tags.add("dup-same-root:" + name)
            else:
                tags.add("dup:" + name)
        if len(us) != len(set(us)):
            dups = [[None, u] for u in set(us) if us.count(u) > 1]
            if k == 4 and sel is not None and all(_under_a_move(c, spec_all) for c in [[0, d] for d in dups]):
                tags.add("dup-unversioned:" + name)        # same cause as dup:dirstate
            else:
                tags.add("dup-unversioned-unexplained:" + name)
        for c in vs:
            s = spec_all.get(c[0])
            if s is None or json.dumps(s, default=repr) != json.dumps(c, default=repr):
                tags.add("unsound:" + name)
            elif not incl and not is_changed(c):
                tags.add("unsound:" + name)
        want = [c[0] for c in spec_all.values() if (incl or is_changed(c)) and (sel is None or c[0] in sel)]
        if not set(want) <= set(ids):
            tags.add("incomplete:" + name)
        if sel is None and sorted(ids) != sorted(want):
            tags.add("unfiltered-differs-from-spec:" + name)
        # the delta applies to the source and yields a valid tree (the target when unfiltered)
        good = [c for c in vs if json.dumps(spec_all.get(c[0]), default=repr) == json.dumps(c, default=repr)]
        res = apply_changes(a, b, good)
        why = invalid(res)
        if why:
            tags.add("invalid:%s:%s" % (name, why))
        if sel is None and not why and res != [list(x) for x in b]:
            tags.add("roundtrip:" + name)
        if k in (2, 4, 5):
            wantu = [p for p in inp["extras"]
                     if inp["unv"] and (F is None or any(f == "" or p == f or p.startswith(f + "/") for f in F))]
            if k == 4 and sel is not None:
                # the dirstate walker widens the search to the other side of renames
                if not (set(wantu) <= set(us) and set(us) <= set(inp["extras"]) and inp["unv"] or (not inp["unv"] and not us)):
                    tags.add("unversioned:" + name)
            elif us != wantu:
                tags.add("unversioned:" + name)
        elif us:
            tags.add("unversioned:" + name)
    return sorted(tags)


def _under_a_move(c, spec_all):
    """a path of change c lies at or below the old or new location of some id whose (parent, name) changed"""
    moved = [m for m in spec_all.values() if m[3][0] and m[3][1] and (m[4][0] != m[4][1] or m[5][0] != m[5][1])]
    for p in c[1]:
        if p is None:
            continue
        for m in moved:
            for q in m[1]:
                if q is not None and (p == q or q == "" or p.startswith(q + "/")):
                    return True
    return False


# tag -> known-finding id (see notes/C10.md); a failing case is explained only if ALL its tags are
FINDING_OF_TAG = {}


def _finding_of(tag, inp):
    """still-known findings only (C10-precise-ids-duplicate, C10-chk-include-unchanged and
    C10-generic-dirstate-paths2ids were repaired in /repo: 5cddeb1, b515e80, b7b83f3)"""
    filt = inp["F"] is not None
    if tag.startswith("invalid:") and tag.endswith(":dup-name") and filt:
        return "C10-filtered-path-collision"
    if tag == "differs:dirstate/generic_wt" and filt:
        return "C10-dirstate-filter-closure-differs"
    if tag in ("dup:dirstate", "dup-unversioned:dirstate") and filt:     # only at/below a moved id, see violations()
        return "C10-dirstate-duplicate"
    if tag == "crash:dirstate:AssertionError" and filt and _dir_to_nondir(inp):
        return "C10-dirstate-enotdir-crash"
    if tag == "differs:chk/generic_rt" and filt and inp["incl"]:
        return "C10-chk-filtered-unchanged-parents"
    return None


def _dir_to_nondir(inp):
    """some path is a directory in the source and a non-directory in the target (any ids)"""
    pa, pb = tpaths(inp["a"]), tpaths(inp["b"])
    kb = {pb[x[0]]: x[3] for x in inp["b"]}
    return any(x[3] == D and kb.get(pa[x[0]], D) != D for x in inp["a"])


def oracle(inp, obs):
    tags = violations(inp, obs)
    return ";".join(tags) if tags else None


def finding_matches(fid_, inp, obs, why):
    tags = violations(inp, obs)
    if not tags:
        return False
    fs = [_finding_of(t, inp) for t in tags]
    if any(f is None for f in fs):
        return False
    try:
        import vlib
        known = {x["id"] for x in vlib.load_known_findings(PROP)}
    except Exception:
        known = set()
    if not set(fs) <= known | {fid_}:
        return False
    return fid_ in fs


def nontrivial(inp, obs):
    return inp["a"] != inp["b"]


def distribution(inputs, observations):
    from collections import Counter
    c = Counter()
    tg = Counter()
    for i, o in zip(inputs, observations):
        c["filter:" + ("none" if i["F"] is None else str(min(len(i["F"]), 5)))] += 1
        c["incl"] += bool(i["incl"])
        c["unv"] += bool(i["unv"])
        c["rv"] += bool(i["rv"])
        c["ids:%d" % len(set(tdict(i["a"])) | set(tdict(i["b"])))] += 1
        for t in violations(i, o):
            tg[t] += 1
        if isinstance(o, list) and isinstance(o[0], Err):
            c["PathsNotVersionedError"] += 1
    return {"inputs": dict(c), "oracle_tags": dict(tg)}


def shrink(inp, fails):
    cur = inp
    progress = True
    while progress:
        progress = False
        cands = []
        if cur["extras"]:
            cands.append(dict(cur, extras=[], unv=False))
        if cur["F"]:
            for k in range(len(cur["F"])):
                if len(cur["F"]) > 1:
                    cands.append(dict(cur, F=cur["F"][:k] + cur["F"][k + 1:]))
        for flag in ("incl", "unv", "rv"):
            if cur[flag]:
                cands.append(dict(cur, **{flag: False}))
        ids = sorted(set(tdict(cur["a"])) | set(tdict(cur["b"])))
        for i in ids:
            if i == 0:
                continue
            na = [x for x in cur["a"] if x[0] != i]
            nb = [x for x in cur["b"] if x[0] != i]
            if invalid(na) is None and invalid(nb) is None:
                cands.append(dict(cur, a=na, b=nb))
        for c in cands:
            try:
                if fails(c):
                    cur = c
                    progress = True
                    break
            except Exception:
                pass
    return cur
