"""Python mirror of coq/Model/WT.v (C09).  NOT part of the check's verdict: it is used by
harness/props/c09.py only (a) to steer the generator towards mostly-valid operation sequences and
(b) to find the step at which the Coq model reports "unmodelled" so that the implementation's
observation can be truncated at the same place (if mirror and model disagree about that step the
correspondence fails loudly).  The model that is compared with breezy is the Coq one."""
CONTENTS = [b"", b"x\n", b"y\n", b"x\ny\n"]
ROOT = ()


def P(s):
    return tuple(s.split("/")) if s else ()


def S(p):
    return "/".join(p)


# ---------------- disk: dict path -> ('f', content, exec) | ('d',)
def dl(disk, p):
    if p == ROOT:
        return ("d",)
    return disk.get(p)


def exists(disk, p):
    return dl(disk, p) is not None


def isdir(disk, p):
    n = dl(disk, p)
    return n is not None and n[0] == "d"


def parent_err(disk, p):
    """errno class for creating/looking at p when the parent chain is broken; None when parent is a dir."""
    par = p[:-1]
    n = dl(disk, par)
    if n is None:
        # some ancestor may be a file -> ENOTDIR, else ENOENT
        for i in range(len(par)):
            a = dl(disk, par[:i + 1])
            if a is None:
                return "FileNotFoundError"
            if a[0] == "f":
                return "NotADirectoryError"
        return "FileNotFoundError"
    if n[0] == "f":
        return "NotADirectoryError"
    return None


def under(p, q):
    """q is p or inside p"""
    return q[:len(p)] == p


def d_rmtree(disk, p):
    return {q: n for q, n in disk.items() if not under(p, q)}


def d_rename(disk, p, q):
    out = {}
    for r, n in disk.items():
        if under(p, r):
            out[q + r[len(p):]] = n
        else:
            out[r] = n
    return out


def os_rename_err(disk, p, q):
    """error of os.rename(p, q) given p exists and q does not exist; None if fine."""
    e = parent_err(disk, q)
    if e is not None:
        return e
    if under(p, q):
        return "EINVAL"
    return None


class St:
    def __init__(self, fmt):
        self.fmt = fmt
        self.disk = {}
        # bzr: inv: id -> (path, kind); root id 0.  git: index: set of paths
        self.inv = {0: (ROOT, "d")}
        self.index = set()
        # basis: bzr id -> (path, kind, content, exec) ; git: path -> (kind, content, exec)
        self.basis = {}
        self.next = 1
        self.committed = False

    def copy(self):
        s = St(self.fmt)
        s.disk = dict(self.disk); s.inv = dict(self.inv); s.index = set(self.index)
        s.basis = dict(self.basis); s.next = self.next; s.committed = self.committed
        return s


def path2id(inv, p):
    for i, (q, k) in inv.items():
        if q == p:
            return i
    return None


# ---------------------------------------------------------------- bzr ops
def bzr_file_kind_err(disk, p):
    if exists(disk, p):
        return None
    return "NoSuchFile"


def bzr_parent_check(s, p):
    par = path2id(s.inv, p[:-1])
    if par is None:
        if any(e[0] != ROOT and e[0][:-1] == p[:-1] for e in s.basis.values()):
            return "Unmodelled"      # dirstate still has a block for the directory: add is (wrongly) accepted
        return "NotVersionedError"
    if s.inv[par][1] != "d":
        return "Unmodelled"          # parent's stored kind is file
    return None


def bzr_add(s, p):
    if not exists(s.disk, p):
        return "NoSuchFile"
    if path2id(s.inv, p) is not None:
        return None
    e = bzr_parent_check(s, p)
    if e:
        return e
    s.inv[s.next] = (p, dl(s.disk, p)[0]); s.next += 1
    return None


def d_mkdir(s, p):
    if exists(s.disk, p):
        return "FileExistsError"
    e = parent_err(s.disk, p)
    if e:
        return e
    s.disk[p] = ("d",)
    return None


def bzr_mkdir(s, p):
    e = d_mkdir(s, p)
    if e:
        return e
    if path2id(s.inv, p) is not None:
        return None
    e = bzr_parent_check(s, p)
    if e:
        return e
    s.inv[s.next] = (p, "d"); s.next += 1
    return None


def bzr_remove(s, p, force):
    if p == ROOT:
        return None
    victims = [i for i, (q, k) in s.inv.items() if under(p, q)]
    if force:
        # every listed file (versioned descendants and p) is deleted from disk; rmtree for non-empty dirs
        if exists(s.disk, p):
            s.disk = d_rmtree(s.disk, p)
    for i in victims:
        del s.inv[i]
    return None


def inv_rename(s, fid, newpath):
    old = s.inv[fid][0]
    for i, (q, k) in list(s.inv.items()):
        if under(old, q):
            s.inv[i] = (newpath + q[len(old):], k)


def bzr_rename_one(s, p, q):
    if p == ROOT or q == ROOT:
        return "ROOT"
    fid = path2id(s.inv, p)
    resurrect = None
    if fid is None:
        bid = None
        for i, e in s.basis.items():
            if e[0] == p:
                bid = i
        if bid is None:
            return "BzrRenameFailedError"
        fid = bid
        if fid not in s.inv:
            resurrect = s.basis[bid]
    to_dir = q[:-1]
    if resurrect is not None:
        # from_inv.add(basis entry copy): modelled only when the basis parent is versioned at the same path
        bpar = None
        for i, e in s.basis.items():
            if e[0] == p[:-1]:
                bpar = i
        if bpar is not None and bpar not in s.inv:
            return "InconsistentDelta"
        if bpar is None or s.inv[bpar][0] != p[:-1]:
            return "Unmodelled"
        s.inv[fid] = (p, resurrect[1])
    to_dir_id = path2id(s.inv, to_dir)
    if path2id(s.inv, q) is not None:
        return "BzrMoveFailedError"
    fe, te = exists(s.disk, p), exists(s.disk, q)
    if not fe and te:
        only_inv = True
    elif fe and not te:
        only_inv = False
    elif not fe and not te:
        return "BzrRenameFailedError"
    else:
        return "RenameFailedFilesExist"
    if to_dir_id is None:
        return "BzrMoveFailedError"
    cur = s.inv[fid][0]
    if under(cur, q):
        return "BzrMoveFailedError" if (fe and cur == p) else "Unmodelled"
    if not only_inv:
        e = os_rename_err(s.disk, p, q)
        if e:
            return "BzrMoveFailedError"
        s.disk = d_rename(s.disk, p, q)
    inv_rename(s, fid, q)
    return None


def bzr_move(s, p, d):
    if p == ROOT:
        return "ROOT"
    did = path2id(s.inv, d)
    if did is None:
        return "BzrMoveFailedError"
    if not isdir(s.disk, d):
        return "BzrMoveFailedError"
    if s.inv[did][1] != "d":
        return "BzrMoveFailedError"
    fid = path2id(s.inv, p)
    if fid is None:
        return "BzrMoveFailedError"
    q = d + (p[-1],)
    if path2id(s.inv, q) is not None:
        return "BzrMoveFailedError"
    fe, te = exists(s.disk, p), exists(s.disk, q)
    move_file = True
    if not te:
        if not fe:
            return "BzrRenameFailedError"
    else:
        if not fe:
            move_file = False
        else:
            return "RenameFailedFilesExist"
    if under(p, q):
        return "BzrMoveFailedError" if fe else "Unmodelled"
    if move_file:
        e = os_rename_err(s.disk, p, q)
        if e:
            return "BzrMoveFailedError"
        s.disk = d_rename(s.disk, p, q)
    inv_rename(s, fid, q)
    return None


# ---------------------------------------------------------------- shared disk ops
def op_put(s, p, c):
    n = dl(s.disk, p)
    if n is not None and n[0] == "d":
        return "IsADirectoryError"
    if n is None:
        e = parent_err(s.disk, p)
        if e:
            return e
        s.disk[p] = ("f", c, False)
    else:
        s.disk[p] = ("f", c, n[2])
    return None


def op_chmod(s, p, x):
    n = dl(s.disk, p)
    if n is None or n[0] != "f":
        return "NotAFile"
    s.disk[p] = ("f", n[1], bool(x))
    return None


def op_osrm(s, p):
    if p == ROOT or not exists(s.disk, p):
        return "FileNotFoundError"
    s.disk = d_rmtree(s.disk, p)
    return None


# ---------------------------------------------------------------- view / status
def bzr_view(s):
    """id -> (path, kind|None, content, exec)"""
    out = {}
    for i, (p, k) in s.inv.items():
        n = dl(s.disk, p)
        if n is None:
            out[i] = (p, None, b"", False)
        elif n[0] == "f":
            out[i] = (p, "f", n[1], n[2])
        else:
            out[i] = (p, "d", b"", False)
    return out


KN = {"f": "file", "d": "directory", None: None}


def bzr_status(s):
    view = bzr_view(s)
    rows = []
    for i in sorted(set(s.basis) | set(view)):
        b = s.basis.get(i)
        v = view.get(i)
        if b is not None and v is not None:
            if v[1] is None:
                cc = True
            elif b[1] != v[1]:
                cc = True
            elif v[1] == "f":
                cc = b[2] != v[2]
            else:
                cc = False
            def par(tree, e):
                if e[0] == ROOT:
                    return None
                for j, x in tree.items():
                    if x[0] == e[0][:-1]:
                        return j
                return -1
            if (b[0][-1:] != v[0][-1:] or par(s.basis, b) != par(view, v)) or cc or b[3] != v[3]:
                rows.append([S(b[0]), S(v[0]), cc, True, True, KN[b[1]], KN[v[1]], b[3], v[3]])
        elif b is None:
            cc = v[1] is not None
            rows.append([None, S(v[0]), cc, False, True, None, KN[v[1]], None, v[3]])
        else:
            rows.append([S(b[0]), None, True, True, False, KN[b[1]], None, b[3], None])
    return rows


def bzr_commit(s):
    view = bzr_view(s)
    # missing entries (and everything below them) are dropped
    missing = [e[0] for e in view.values() if e[1] is None]
    new = {}
    for i, e in view.items():
        if any(under(m, e[0]) for m in missing):
            continue
        new[i] = e
    s.basis = new
    s.inv = {i: (e[0], e[1]) for i, e in new.items()}
    s.committed = True
    return None


def moved(p):
    return p[:-1] + (p[-1] + ".moved",)


def revert_disk(disk, bodies_both, changed, added_dirs, basis_nodes, dirdir_bad=False):
    """Generic TreeTransform-revert on a flat disk.
    bodies_both: {current path -> basis path} for on-disk bodies of entries present in both trees
    changed: set of current paths whose old body is deleted and re-created from the basis
    added_dirs: set of current paths of directories that revert tries to delete (newly added dirs)
    basis_nodes: {basis path -> node}
    returns new disk or None when the guard fails."""
    # guard: a body that is deleted-and-recreated must not be a directory with children on disk
    for p in changed:
        if isdir(disk, p) and any(q != p and under(p, q) for q in disk):
            return None
    def G(p):
        if p == ROOT:
            return ROOT
        if p in bodies_both:
            return bodies_both[p]
        q = G(p[:-1]) + (p[-1],)
        if q in basis_nodes:
            if dirdir_bad and basis_nodes[q][0] == "d" and disk[p][0] == "d":
                raise KeyError(q)
            q = moved(q)
        return q
    others = {p: n for p, n in disk.items() if p not in bodies_both}
    def survives(p):
        if p not in added_dirs:
            return True
        return any(q != p and under(p, q) and survives(q) for q in others)
    out = dict(basis_nodes)
    for p, n in others.items():
        if not survives(p):
            continue
        q = G(p)
        if q in out:
            return None
        out[q] = n
    return out


def bzr_revert(s):
    view = bzr_view(s)
    if not s.committed:
        # null basis: revert unversions everything except the root; added dirs vanish when empty
        bodies, changed = {}, set()
    bodies, changed, added_dirs = {}, set(), set()
    for i, v in view.items():
        b = s.basis.get(i)
        if v[0] == ROOT:
            continue
        if b is not None:
            if v[1] is not None:
                bodies[v[0]] = b[0]
                if b[1] != v[1] or (v[1] == "f" and b[2] != v[2]):
                    changed.add(v[0])
        elif v[1] == "d":
            added_dirs.add(v[0])
    basis_nodes = {}
    for i, b in s.basis.items():
        if b[0] == ROOT:
            continue
        basis_nodes[b[0]] = ("f", b[2], b[3]) if b[1] == "f" else ("d",)
    nd = revert_disk(s.disk, bodies, changed, added_dirs, basis_nodes)
    if nd is None:
        return "Unmodelled"
    s.disk = nd
    s.inv = {i: (b[0], b[1]) for i, b in s.basis.items()}
    if 0 not in s.inv:
        s.inv[0] = (ROOT, "d")
    return None


def observe(s):
    if s.fmt == "bzr":
        view = bzr_view(s)
        rows = []
        for i, e in view.items():
            if e[0] == ROOT:
                continue
            rows.append([S(e[0]), {"f": "file", "d": "directory", None: "missing"}[e[1]], e[2], e[3]])
        rows.sort()
        ch = bzr_status(s)
        ch = [r for r in ch if not (r[0] == "" and r[1] == "" and not r[2])]
        ch.sort(key=lambda r: ((r[0] or ""), (r[1] or ""), repr(r)))
        vs = {r[0] for r in rows}
        ex = []
        for p, n in s.disk.items():
            if S(p) in vs:
                continue
            ex.append([S(p), "file", n[1], n[2]] if n[0] == "f" else [S(p), "directory", b"", False])
        ex.sort(key=lambda r: r[0])
        return rows, ch, ex
    raise NotImplementedError


def _multi_move(s, op, single):
    """wt.move([p1, ..], d): one source after the other; an error keeps the moves already made"""
    e = None
    for src in op[1]:
        t = s.copy()
        e = single(t, ["mv", src, op[2]])
        if e is not None:
            return e
        s.__dict__.update(t.__dict__)
    return e


def bzr_smart_add(s, p):
    n = dl(s.disk, p)
    if n is None or n[0] != "f":
        return "Unmodelled"
    if path2id(s.inv, p) is None and bzr_parent_check(s, p) is not None:
        return "Unmodelled"
    return bzr_add(s, p)


def step(s, op):
    """returns error name or None; mutates s only on success (works on a copy)."""
    t = s.copy()
    k = op[0]
    if s.fmt == "bzr":
        if k == "add": e = bzr_add(t, P(op[1]))
        elif k == "mkdir": e = bzr_mkdir(t, P(op[1]))
        elif k == "rmk": e = bzr_remove(t, P(op[1]), False)
        elif k == "rmf": e = bzr_remove(t, P(op[1]), True)
        elif k == "ren": e = bzr_rename_one(t, P(op[1]), P(op[2]))
        elif k == "mv": e = bzr_move(t, P(op[1]), P(op[2]))
        elif k == "sadd": e = bzr_smart_add(t, P(op[1]))
        elif k == "put": e = op_put(t, P(op[1]), CONTENTS[op[2]])
        elif k == "chmod": e = op_chmod(t, P(op[1]), op[2])
        elif k == "osrm": e = op_osrm(t, P(op[1]))
        elif k == "osmkdir": e = d_mkdir(t, P(op[1]))
        elif k == "commit": e = bzr_commit(t)
        elif k == "revert": e = bzr_revert(t)
        elif k == "reopen": e = None
    keep_on_error = k == "mkdir" and e == "NotVersionedError"
    if e is None or keep_on_error:
        s.__dict__.update(t.__dict__)
    return e


# ================================================================== git
def g_dirs(paths):
    out = set()
    for p in paths:
        for i in range(1, len(p)):
            out.add(p[:i])
    return out


def g_versioned(s, p):
    return p == ROOT or p in s.index or p in g_dirs(s.index)


def git_add(s, p):
    if not exists(s.disk, p):
        return "NoSuchFile"
    if dl(s.disk, p)[0] == "f":
        s.index.add(p)
    return None


def git_mkdir(s, p):
    return d_mkdir(s, p)


def git_remove(s, p, force):
    if p == ROOT:
        return None
    if force and exists(s.disk, p):
        s.disk = d_rmtree(s.disk, p)
    s.index = {q for q in s.index if not under(p, q)}
    return None


def gb_versioned(s, p):
    return p == ROOT or p in s.basis or p in g_dirs(s.basis)


def git_rename_one(s, p, q):
    if p == ROOT or q == ROOT:
        return "ROOT"
    after = (not exists(s.disk, p)) and exists(s.disk, q) and not g_versioned(s, q)
    if after:
        if gb_versioned(s, q):
            return "BzrMoveFailedError"
        kind = dl(s.disk, q)[0]
    else:
        exc = "BzrRenameFailedError" if not exists(s.disk, q) else "BzrMoveFailedError"
        if g_versioned(s, q):
            return exc
        if not exists(s.disk, p):
            return "BzrMoveFailedError"
        kind = dl(s.disk, p)[0]
        if not g_versioned(s, p) and kind != "d":
            return exc
        if exists(s.disk, q):
            return "RenameFailedFilesExist"
        if kind != "d" and p not in s.index:
            return "BzrMoveFailedError"
        e = os_rename_err(s.disk, p, q)
        if e:
            return "BzrMoveFailedError"
        s.disk = d_rename(s.disk, p, q)
    if kind != "d":
        s.index.discard(p)
        s.index.add(q)
    else:
        s.index = {(q + r[len(p):]) if (under(p, r) and r != p) else r for r in s.index}
    return None


def git_move(s, p, d):
    if p == ROOT:
        return "ROOT"
    if not isdir(s.disk, d):
        return "BzrMoveFailedError"
    return git_rename_one(s, p, d + (p[-1],))


def git_snapshot(s):
    """path -> (kind, content, exec); kind None = listed but missing"""
    out = {}
    for p in s.index:
        n = dl(s.disk, p)
        if n is None:
            out[p] = (None, b"", False)
        elif n[0] == "f":
            out[p] = ("f", n[1], n[2])
        else:
            out[p] = ("d", b"", False)
    for d in g_dirs(s.index):
        out[d] = ("d", b"", False)
    out[ROOT] = ("d", b"", False)
    return out


def git_basis_tree(s):
    out = {}
    for p, e in s.basis.items():
        out[p] = e
    for d in g_dirs(s.basis):
        out[d] = ("d", b"", False)
    if s.committed:
        out[ROOT] = ("d", b"", False)
    return out


def git_status(s):
    b, v = git_basis_tree(s), git_snapshot(s)
    rows = []
    def add_row(p, e):
        rows.append([None, S(p), True, False, True, None, KN[e[0]], None, e[2]])
    def del_row(p, e):
        rows.append([S(p), None, True, True, False, KN[e[0]], None, e[2], None])
    for p in set(b) | set(v):
        x, y = b.get(p), v.get(p)
        if x is None:
            add_row(p, y)
        elif y is None:
            del_row(p, x)
        elif x[0] != y[0]:
            del_row(p, x); add_row(p, y)
        elif x[0] == "f" and (x[1] != y[1] or x[2] != y[2]):
            rows.append([S(p), S(p), True, True, True, "file", "file", x[2], y[2]])
    return rows


def g_notadir(s):
    return any(dl(s.disk, p[:i]) is not None and dl(s.disk, p[:i])[0] == "f" for p in s.index for i in range(1, len(p)))


def g_pairs(s, modified_only):
    """contents dulwich's rename/copy detection would pair: an added (or changed-to) non-directory entry and a
    source file (deleted, kind-changed or modified; only modified ones when modified_only) with the same text"""
    b, v = git_basis_tree(s), git_snapshot(s)
    adds, srcs = [], []
    for p in set(b) | set(v):
        x, y = b.get(p), v.get(p)
        if x == y:
            continue
        if y is not None and y[0] != "d" and (x is None or x[0] != y[0]):
            adds.append(y[1])
        if x is not None and x[0] == "f":
            if not modified_only or (y is not None and y[0] == "f"):
                srcs.append(x[1])
    return any(c in srcs for c in adds)


def git_commit(s):
    v = git_snapshot(s)
    new = {p: e for p, e in v.items() if e[0] == "f"}
    old = s.basis
    s.basis = new
    s.index = {p for p in s.index if exists(s.disk, p) and (dl(s.disk, p)[0] == "f" or p not in old)}
    s.committed = True
    return None


def g_subtree(t, p):
    return sorted((q[len(p):], e) for q, e in t.items() if under(p, q) and q != p)


def git_revert(s):
    v = git_snapshot(s)
    b = git_basis_tree(s)
    if g_notadir(s):
        return "Unmodelled"      # finding C09-git-revert-notadir: revert raises TransformRenameFailed
    # guard: nothing dulwich's rename/copy detection could pair up
    rows = git_status(s)
    if g_pairs(s, False):
        return "Unmodelled"
    for r in rows:
        if r[0] is None and r[6] == "directory":
            sub = g_subtree(v, P(r[1]))
            if any(e[0] == "d" and g_subtree(b, q) == sub for q, e in b.items()):
                return "Unmodelled"
    bodies, changed, added_dirs = {}, set(), set()
    for p, y in v.items():
        if p == ROOT:
            continue
        x = b.get(p)
        if x is not None:
            if y[0] is not None:
                bodies[p] = p
                if x[0] != y[0] or (y[0] == "f" and x[1] != y[1]):
                    changed.add(p)
        elif y[0] == "d":
            added_dirs.add(p)
    basis_nodes = {p: (("f", e[1], e[2]) if e[0] == "f" else ("d",)) for p, e in b.items() if p != ROOT}
    try:
        nd = revert_disk(s.disk, bodies, changed, added_dirs, basis_nodes, True)
    except KeyError:
        return "Unmodelled"
    if nd is None:
        return "Unmodelled"
    s.disk = nd
    s.index = set(s.basis)
    return None


def git_observe(s):
    rows = []
    for p in set(s.index) | g_dirs(s.index):
        n = dl(s.disk, p)
        if n is None:
            rows.append([S(p), "missing", b"", False])
        elif n[0] == "f":
            rows.append([S(p), "file", n[1], n[2]])
        else:
            rows.append([S(p), "directory", b"", False])
    rows.sort()
    ch = git_status(s)
    ch.sort(key=lambda r: ((r[0] or ""), (r[1] or ""), repr(r)))
    vs = {r[0] for r in rows}
    ex = []
    for p, n in s.disk.items():
        if S(p) in vs:
            continue
        ex.append([S(p), "file", n[1], n[2]] if n[0] == "f" else [S(p), "directory", b"", False])
    ex.sort(key=lambda r: r[0])
    return rows, ch, ex


_bzr_observe = observe


def observe(s):
    return git_observe(s) if s.fmt == "git" else _bzr_observe(s)


_bzr_step = step


def step(s, op):
    if op[0] == "mvn":
        return _multi_move(s, op, step)
    if op[0] == "sadd" and s.fmt == "git":
        n = dl(s.disk, P(op[1]))
        if n is None or n[0] != "f":
            return "Unmodelled"
        return step(s, ["add", op[1]])
    if s.fmt != "git":
        return _bzr_step(s, op)
    t = s.copy()
    k = op[0]
    if k == "add": e = git_add(t, P(op[1]))
    elif k == "mkdir": e = git_mkdir(t, P(op[1]))
    elif k == "rmk": e = git_remove(t, P(op[1]), False)
    elif k == "rmf": e = git_remove(t, P(op[1]), True)
    elif k == "ren": e = git_rename_one(t, P(op[1]), P(op[2]))
    elif k == "mv": e = git_move(t, P(op[1]), P(op[2]))
    elif k == "put": e = op_put(t, P(op[1]), CONTENTS[op[2]])
    elif k == "chmod": e = op_chmod(t, P(op[1]), op[2])
    elif k == "osrm": e = op_osrm(t, P(op[1]))
    elif k == "osmkdir": e = d_mkdir(t, P(op[1]))
    elif k == "commit": e = git_commit(t)
    elif k == "revert": e = git_revert(t)
    elif k == "reopen": e = None
    if e is None:
        s.__dict__.update(t.__dict__)
    return e
