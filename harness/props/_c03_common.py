"""Shared driver for C03 (fetch copies history completely) and C08 (stacked repositories stay
readable): companion of coq/Model/RepoFetch.v.

A *universe* is a history {g, ch, late}: g = Lib/Dag graph (daglib), ch[i] = the tree changes of
revision i, late = revisions that are committed to the source only AFTER the targets were seeded
(so the seeded targets hold ghosts the final source can fill).  It is materialised as a real
standalone tree + repository on disk (one per format) by real commits; the per-revision
inventories [(file id, last-changed revision)] are read back from the real repository and are
part of the model's input (coq `uinv`).
"""
import os
import shutil

import daglib
from daglib import rid, idx
from vlib import Tag, Err, coq_bool, coq_list, coq_nat

ROOT = b"root-id"
FID = {ROOT: 0, b"f-id": 1, b"d\xc3\xa9-id": 2, b"g\xc3\xa9\xcc\x81-id": 3, b"l-id": 4}
F_PATH, D_PATH, G_PATH, G_PATH2, L_PATH = "f", "d\u00e9", "d\u00e9/g \u00fc ", "d\u00e9/\u03b3 \u0301", "l\u00f8 "
KINDS = (1, 3, 4, 5, 6, 7)   # modify f, modify g, retarget l, rename g, add a file, toggle x bit of f

_st = {"scratch": None, "own": False, "n": 0, "src": {}, "smart": None, "inv": {}}


def fidx(file_id):
    if file_id in FID:
        return FID[file_id]
    if file_id.startswith(b"n") and file_id.endswith(b"-id"):
        return 10 + int(file_id[1:-3])
    raise ValueError("foreign file id %r" % (file_id,))


# ---- environment ------------------------------------------------------------------------

def setup(scratch):
    import breezy
    import breezy.bzr  # noqa: F401
    from breezy import lockdir
    lockdir._DEFAULT_TIMEOUT_SECONDS = 0
    os.environ.setdefault("BRZ_EMAIL", "Verif <v@example.com>")
    _st.update(scratch=scratch, own=False, n=0, src={}, smart=None, inv={})


def _scratch():
    if _st["scratch"] is None or not os.path.isdir(_st["scratch"]):
        import tempfile
        import breezy.bzr  # noqa: F401
        os.environ.setdefault("BRZ_EMAIL", "Verif <v@example.com>")
        _st.update(scratch=tempfile.mkdtemp(prefix="verif-c03-"), own=True, src={}, smart=None, inv={})
    return _st["scratch"]


def teardown():
    sm = _st.get("smart")
    if sm is not None:
        try:
            sm.stop_server()
        except Exception:
            pass
    if _st.get("own") and _st.get("scratch"):
        shutil.rmtree(_st["scratch"], ignore_errors=True)
    _st.update(scratch=None, own=False, src={}, smart=None)


class _DirServer:
    def __init__(self, path):
        self.path = path

    def get_url(self):
        from dromedary import urlutils
        return urlutils.local_path_to_url(self.path) + "/"


def smart_url():
    """bzr:// URL of an in-process smart server (SmartTCPServer in a thread) rooted at the scratch dir."""
    if _st["smart"] is None:
        from breezy.tests import test_server
        sm = test_server.SmartTCPServer_for_testing()
        sm.start_server(_DirServer(_scratch()))
        _st["smart"] = sm
    return _st["smart"].get_url()


def url_of(path, via):
    from dromedary import urlutils
    if via == "smart":
        rel = os.path.relpath(path, _scratch())
        return smart_url() + rel
    return urlutils.local_path_to_url(path)


def fresh_dir(tag):
    _st["n"] += 1
    p = os.path.join(_scratch(), "%s%d" % (tag, _st["n"]))
    os.makedirs(p)
    return p


# ---- reference graph functions -------------------------------------------------------------

def phase1_graph(u):
    """the graph as the source looked before the late revisions were committed"""
    late = set(u["late"])
    return [[] if i in late else list(ps) for i, ps in enumerate(u["g"])], late


def anc_present(g, absent, tips):
    """ancestors of tips reachable through revisions that exist (not >= n, not in `absent`)"""
    n = len(g)
    seen, todo = set(), [t for t in tips]
    while todo:
        r = todo.pop()
        if r in seen or r >= n or r in absent:
            continue
        seen.add(r)
        todo.extend(g[r])
    return seen


def reach_avoiding(g, vis, r):
    """revisions of the source reachable from r without passing through a revision in vis"""
    n = len(g)
    seen, todo = set(), [r]
    while todo:
        x = todo.pop()
        if x in seen or x >= n or x in vis:
            continue
        seen.add(x)
        todo.extend(g[x])
    return seen


def closed(g, vis):
    n = len(g)
    return all(p >= n or p in vis for r in vis if r < n for p in g[r])


def _ghost(g, p):
    """p does not exist in the graph g (an origin graph has None entries for undefined ids)"""
    return p >= len(g) or g[p] is None


def fresh_root(u, i):
    ps = u["g"][i]
    return (not ps) or _ghost(u["g"], ps[0]) or (ps[0] in u["late"] and i not in u["late"])


def origin_universe(u):
    """Universes with "gdef" (ghost definitions {str(id): {"ps": [...], "ch": [...]}}): the history the
    sparse source was cut out of.  The ids >= n named in gdef exist there (same ids), everything is
    built in `order`; the source proper then receives only the revisions 0..n-1, each with its
    inventory and every text its tree needs -- so it holds texts named after revisions it lacks."""
    g, n = u["g"], len(u["g"])
    gd = {int(k): v for k, v in u["gdef"].items()}
    m = max(gd) + 1
    go = [list(ps) for ps in g] + [None] * (m - n)
    cho = [list(c) for c in u["ch"]] + [[] for _ in range(m - n)]
    for k, v in gd.items():
        go[k] = list(v["ps"])
        cho[k] = list(v["ch"])
    order, done = [], set()

    def visit(x):
        if x in done or _ghost(go, x):
            return
        done.add(x)
        for p in go[x]:
            visit(p)
        order.append(x)
    for i in range(n):
        visit(i)
    return {"g": go, "ch": cho, "late": [], "order": order}


# ---- universe generation ----------------------------------------------------------------------

def gen_universe(rng, n, p_late=0.3, **kw):
    g = daglib.gen_dag(rng, n, **kw)
    # WorkingTree.set_parent_ids drops merged parents that are ancestors of another parent
    for i, ps in enumerate(g):
        hs = daglib.heads(g, ps)
        g[i] = ps[:1] + [p for k, p in enumerate(ps[1:]) if p in hs and p not in ps[:k + 1]]
    ch = []
    for i in range(n):
        k = rng.choice([0, 1, 1, 1, 2, 3])
        ch.append(sorted(rng.sample(KINDS, k)))
    late = []
    if rng.random() < p_late and n >= 3:
        # a late revision has a child that was committed while it still was a ghost; its other
        # descendants are mostly committed after it (and so share texts with it)
        cands = [i for i in range(n - 1) if any(i in ps for ps in g[i + 1:])]
        if cands:
            l = rng.choice(cands)
            c0 = rng.choice([i for i in range(l + 1, n) if l in g[i]])
            lt = {l}
            if rng.random() < 0.5:       # else a hole: only l is late, all its descendants are already in the seeded targets
                for i in range(l + 1, n):
                    if i != c0 and any(p in lt for p in g[i]) and rng.random() < 0.7:
                        lt.add(i)
            late = sorted(lt)
    return {"g": g, "ch": ch, "late": late}


def gen_sparse_universe(rng, n):
    """a history whose source is cut out of a larger one: some of the ghosts of the source exist in the
    origin (gdef) and introduced texts that revisions of the source still reference"""
    u = gen_universe(rng, n, p_late=0.0, p_ghost=0.2, p_left_ghost=0.25)
    g = u["g"]
    ghosts = sorted({p for ps in g for p in ps if p >= n})
    if not ghosts:
        g[0] = [n + daglib.GHOST_BASE + 30]
        ghosts = [g[0][0]]
    gdef = {}
    for x in ghosts:
        if rng.random() < 0.8 or not gdef:
            first_child = min(i for i, ps in enumerate(g) if x in ps)
            ps = [rng.randrange(first_child)] if first_child > 0 and rng.random() < 0.5 else []
            gdef[str(x)] = {"ps": ps, "ch": sorted(rng.sample(KINDS, rng.choice([1, 2, 3])))}
    u["gdef"] = gdef
    # in the origin the defined ghosts have ancestors: drop merged parents that became redundant
    go = [ps if ps is not None else [] for ps in origin_universe(u)["g"]]
    for i, ps in enumerate(g):
        hs = daglib.heads(go, ps)
        g[i] = ps[:1] + [p for k, p in enumerate(ps[1:]) if p in hs and p not in ps[:k + 1]]
        go[i] = g[i]
    return u


def ukey(u):
    return repr((u["g"], u["ch"], u["late"], u.get("big", False), sorted((u.get("gdef") or {}).items())))


# ---- materialisation -----------------------------------------------------------------------------

def _clear(path):
    for nm in os.listdir(path):
        if nm == ".bzr":
            continue
        p = os.path.join(path, nm)
        if os.path.isdir(p) and not os.path.islink(p):
            shutil.rmtree(p)
        else:
            os.unlink(p)


def commit_kwargs(i):
    msgs = ["méssage %d \n" % i, "", "é combining %d" % i, " lead %d\t" % i]
    return dict(message=msgs[i % 4], rev_id=rid(i), timestamp=1000000000 + 1000 * i + (0.5 if i % 7 == 3 else 0),
                timezone=3600 * (i % 5 - 2), committer="Cömmitter %d <c@e>" % i,
                revprops=({"branch-nick": "nïck", "pröp": "väl %d " % i} if i % 3 == 0 else {"branch-nick": "nïck"}),
                allow_pointless=True)


def apply_changes(wt, path, u, i):
    """Put the tree of revision i into the working tree wt (already at the left parent, or empty)."""
    if fresh_root(u, i):
        wt.set_root_id(ROOT)
        with open(os.path.join(path, F_PATH), "wb") as f:
            f.write(b"" if i % 2 else b"f %d\n" % i)
        os.mkdir(os.path.join(path, D_PATH))
        with open(os.path.join(path, G_PATH), "wb") as f:
            f.write(b"g %d\r\n\xff" % i)
        os.symlink("tå %d " % i, os.path.join(path, L_PATH))
        wt.add([F_PATH, D_PATH, G_PATH, L_PATH], ids=[b"f-id", b"d\xc3\xa9-id", b"g\xc3\xa9\xcc\x81-id", b"l-id"])
        return
    for k in u["ch"][i]:
        if k == 1 and _has(wt, b"f-id"):
            with open(wt.abspath(wt.id2path(b"f-id")), "wb") as f:
                f.write(b"f %d\n" % i)
        elif k == 3 and _has(wt, b"g\xc3\xa9\xcc\x81-id"):
            with open(wt.abspath(wt.id2path(b"g\xc3\xa9\xcc\x81-id")), "wb") as f:
                f.write(b"g %d\n" % i)
        elif k == 4 and _has(wt, b"l-id"):
            ap = wt.abspath(wt.id2path(b"l-id"))
            os.unlink(ap)
            os.symlink("tå %d" % i, ap)
        elif k == 5 and _has(wt, b"g\xc3\xa9\xcc\x81-id"):
            cur = wt.id2path(b"g\xc3\xa9\xcc\x81-id")
            wt.rename_one(cur, G_PATH2 if cur == G_PATH else G_PATH)
        elif k == 6:
            nm = "n%d é" % i
            with open(os.path.join(path, nm), "wb") as f:
                f.write(b"new %d\n" % i)
            wt.add([nm], ids=[b"n%d-id" % i])
        elif k == 7 and _has(wt, b"f-id"):
            ap = wt.abspath(wt.id2path(b"f-id"))
            os.chmod(ap, os.stat(ap).st_mode ^ 0o111)


def _has(wt, file_id):
    from breezy import errors
    try:
        wt.id2path(file_id)
        return True
    except errors.NoSuchId:
        return False


def sig_text(i):
    return b"-----BEGIN PSEUDO-SIGNED CONTENT-----\nr%d \xc3\xa9\n-----END PSEUDO-SIGNED CONTENT-----\n" % i


def sign(repo, i):
    """every fourth revision of a source carries a signature"""
    if i % 4 != 1:
        return
    with repo.lock_write():
        repo.start_write_group()
        try:
            repo.add_signature_text(rid(i), sig_text(i))
        except BaseException:
            repo.abort_write_group()
            raise
        repo.commit_write_group()


def _lh_len(g, x):
    k = 1
    while g[x] and not _ghost(g, g[x][0]):
        x = g[x][0]
        k += 1
    return k


def commit_revision(cd, path, u, i, cur):
    """Really commit revision i of the universe through a working tree in `path` (control dir cd).
    `cur` = revision the working tree is at (None: unknown).  Returns the new `cur`."""
    g = u["g"]
    n = len(g)
    ps = g[i]
    pids = [rid(p) for p in ps]
    fresh = fresh_root(u, i)
    want = None if fresh else ps[0]
    br = cd.open_branch()
    if cur is None or cur != ("null" if want is None else want) or not cd.has_workingtree():
        if cd.has_workingtree():
            cd.destroy_workingtree()
        _clear(path)
        with br.lock_write():
            if fresh:
                br.set_last_revision_info(0, b"null:")
            else:
                br.set_last_revision_info(_lh_len(g, ps[0]), pids[0])
        wt = cd.create_workingtree(revision_id=(b"null:" if fresh else pids[0]))
    else:
        wt = cd.open_workingtree()
    with wt.lock_write():
        apply_changes(wt, path, u, i)
        if pids:
            wt.set_parent_ids(pids, allow_leftmost_as_ghost=True)
        wt.commit(**commit_kwargs(i))
    sign(cd.open_repository(), i)
    return i


def _build_disk(u, fmt, path, order, cur=None):
    from breezy import controldir
    if os.path.exists(os.path.join(path, ".bzr")):
        cd = controldir.ControlDir.open(path)
    else:
        os.makedirs(path, exist_ok=True)
        cd = controldir.format_registry.make_controldir(fmt).initialize(path)
        cd.create_repository()
        cd.create_branch()
    for i in order:
        cur = commit_revision(cd, path, u, i, cur)
    return cur


def _build_big(u, fmt, path, order=None):
    """Large histories: BranchBuilder (memory tree, ASCII names) straight into a disk repository.
    `order`: the revisions to build now (late revisions are built in a second call on the same path)."""
    from breezy import branch as _b, branchbuilder, transport as _t
    g = u["g"]
    n = len(g)
    if os.path.exists(os.path.join(path, ".bzr")):
        bb = branchbuilder.BranchBuilder(branch=_b.Branch.open(path))
    else:
        os.makedirs(path, exist_ok=True)
        bb = branchbuilder.BranchBuilder(_t.get_transport(path), format=fmt)
    br = bb.get_branch()
    for i in (range(n) if order is None else order):
        ps = g[i]
        pids = [rid(p) for p in ps]
        if fresh_root(u, i):
            acts = [("add", ("", ROOT, "directory", None)), ("add", ("f", b"f-id", "file", b"0\n"))]
        else:
            body = b"%d\n" % i
            if u["ch"][i] == [9]:
                import random
                body = random.Random(i).randbytes(1200000)       # above the 1 MiB pack write cache
            acts = [("modify", ("f", body))]
        if ps:
            with br.lock_write():
                if fresh_root(u, i):
                    br.set_last_revision_info(0, b"null:")
                else:
                    br.set_last_revision_info(_lh_len(g, ps[0]), pids[0])
        bb.build_snapshot(pids, acts, revision_id=rid(i), allow_leftmost_as_ghost=True,
                          timestamp=1000000000 + i, committer="c <c@e>", message="m %d" % i)
        sign(br.repository, i)


def source(u, fmt):
    """(phase-1 path, final path) of the materialised universe in format fmt (cached)."""
    key = (ukey(u), fmt)
    if key in _st["src"]:
        return _st["src"][key]
    base = fresh_dir("src")
    final = os.path.join(base, "final")
    n = len(u["g"])
    if u.get("big"):
        late = set(u["late"])
        _build_big(u, fmt, final, [i for i in range(n) if i not in late])
        p1 = final
        if late:
            p1 = os.path.join(base, "phase1")
            shutil.copytree(final, p1, symlinks=True)
            _build_big(u, fmt, final, sorted(late))
    elif u.get("gdef"):
        uo = origin_universe(u)
        origin = os.path.join(base, "origin")
        _build_disk(uo, fmt, origin, uo["order"])
        _sparse_copy(u, fmt, origin, final)
        p1 = final
    else:
        late = set(u["late"])
        cur = _build_disk(u, fmt, final, [i for i in range(n) if i not in late])
        if late:
            p1 = os.path.join(base, "phase1")
            shutil.copytree(final, p1, symlinks=True)
            _build_disk(u, fmt, final, sorted(late), cur)
        else:
            p1 = final
    _check_graph(u, final)
    _st["src"][key] = (p1, final)
    return p1, final


def origin_path(u, fmt):
    return os.path.join(os.path.dirname(source(u, fmt)[1]), "origin")


def _entry_keys(repo, inv):
    root = inv.root.file_id if inv.root is not None else None
    return [(ie.file_id, ie.revision) for _p, ie in inv.iter_entries()
            if repo.supports_rich_root() or ie.file_id != root]


def _sparse_copy(u, fmt, origin, final):
    """final := a repository (+ branch) holding exactly the revisions 0..n-1 of origin, parents as
    recorded, each with its inventory, the texts its tree references and its signature"""
    from breezy import controldir, repository as _r
    os.makedirs(final)
    cd = controldir.format_registry.make_controldir(fmt).initialize(final)
    s = cd.create_repository()
    cd.create_branch()
    a = _r.Repository.open(origin)
    g = u["g"]
    with a.lock_read(), s.lock_write():
        s.start_write_group()
        try:
            have = set()
            for i in range(len(g)):
                inv = a.get_inventory(rid(i))
                keys = [k for k in _entry_keys(a, inv) if k not in have]
                have.update(keys)
                s.texts.insert_record_stream(a.texts.get_record_stream(keys, "unordered", True))
                s.add_inventory(rid(i), inv, [rid(p) for p in g[i]])
                s.add_revision(rid(i), a.get_revision(rid(i)))
                if i % 4 == 1:
                    s.add_signature_text(rid(i), sig_text(i))
        except BaseException:
            s.abort_write_group()
            raise
        s.commit_write_group()


def _check_graph(u, path):
    from breezy import repository as _r
    repo = _r.Repository.open(path)
    g = u["g"]
    with repo.lock_read():
        pm = repo.get_graph().get_parent_map([rid(i) for i in range(len(g))])
    for i, ps in enumerate(g):
        got = [p for p in pm.get(rid(i), ()) if p != b"null:"]
        if got != [rid(p) for p in ps]:
            raise AssertionError("history not materialised as given: r%d has %r, wanted %r" % (i, got, ps))


def inv_table(u, fmt):
    """[[(file index, revision index)]] per revision, read from the real final source."""
    key = (ukey(u), fmt)
    if key not in _st["inv"]:
        from breezy import repository as _r
        repo = _r.Repository.open(source(u, fmt)[1])
        out = []
        with repo.lock_read():
            for i in range(len(u["g"])):
                inv = repo.get_inventory(rid(i))
                out.append(sorted((fidx(ie.file_id), idx(ie.revision)) for _p, ie in inv.iter_entries()))
        _st["inv"][key] = out
    return _st["inv"][key]


# ---- observation ------------------------------------------------------------------------------------

def open_repo(path, stacked=False, via="local"):
    """A fresh repository object; for a stacked repository opened through its branch (so that it
    has its fallbacks)."""
    from breezy import branch as _b, repository as _r
    if stacked:
        return _b.Branch.open(url_of(path, via)).repository
    return _r.Repository.open(url_of(path, via))


def _real(repo):
    if hasattr(repo, "_ensure_real"):
        repo._ensure_real()
        return repo._real_repository
    return repo


def _known(text_key):
    """a text of the universe's files (the revisions the source lacks but the target holds, made by
    _extra_source, have file ids of their own)"""
    try:
        fidx(text_key[0])
        return True
    except ValueError:
        return False


def repo_state(path, n, stacked=False):
    """[revs, invs, texts] held by the repository itself (no fallbacks); texts of revisions the
    universe does not know (index >= n) are dropped."""
    repo = open_repo(path, stacked)
    with repo.lock_read():
        revs = sorted(idx(k[0]) for k in repo.revisions.without_fallbacks().keys())
        invs = sorted(idx(k[0]) for k in repo.inventories.without_fallbacks().keys())
        texts = sorted([fidx(k[0]), idx(k[1])] for k in repo.texts.without_fallbacks().keys() if _known(k))
    return [revs, invs, texts]


def pack_names(path):
    with open(os.path.join(path, ".bzr", "repository", "pack-names"), "rb") as f:
        return f.read()


def upload_leftovers(path):
    return sorted(os.listdir(os.path.join(path, ".bzr", "repository", "upload")))


CHECK_ATTRS = ("missing_parent_links", "inconsistent_parents", "unreferenced_versions", "_report_items")


def _ghost_fill_only(item, late, n=None):
    """inconsistent_parents item whose only discrepancy is that the recorded per-file parents lack
    texts of revisions that were still ghosts when the text was committed (late revisions): inherent
    to filling a ghost, present in the source itself; likewise texts of revisions the source lacks
    (ids >= n) that the target happens to hold"""
    _rev, _fid, found, correct = item
    extra = set(correct) - set(found)
    return set(found) <= set(correct) and all(idx(p) in late or (n is not None and idx(p) >= n) for p in extra)


def check_problems(repo, late=(), n=None, sparse_have=None):
    """Repository.check() summarised as a sorted list of problem items ([] when clean).
    sparse_have: for sparse-source universes only, the revisions the repository sees: a text named after
    a revision the repository does not hold (legitimate there: the source holds texts of revisions
    that are not ancestors of what was fetched) has per-file parents check() cannot judge."""
    try:
        res = repo.check()
    except BaseException as e:      # noqa: B902 -- a crashing check is a finding, not a driver error
        return ["check() raised %s" % type(e).__name__]
    bad = []
    for a in CHECK_ATTRS:
        v = getattr(res, a, None)
        if v:
            for it in (sorted(v.items()) if isinstance(v, dict) else sorted(v, key=repr)):
                if a == "inconsistent_parents" and _ghost_fill_only(it, late, n):
                    continue
                if a == "inconsistent_parents" and sparse_have is not None and idx(it[0]) not in sparse_have:
                    continue
                if a == "unreferenced_versions" and sparse_have is not None and idx(it[1]) not in sparse_have:
                    continue
                bad.append("%s %r" % (a, it))
    for a in ("missing_revision_cnt", "missing_inventory_sha_cnt"):
        if getattr(res, a, 0):
            bad.append("%s=%d" % (a, getattr(res, a)))
    for it in (getattr(res, "revs_with_bad_parents_in_index", None) or []):
        bad.append("bad_parents_in_index %r" % (it,))
    return sorted(bad)


def stored_twice(repo):
    """record kinds of which the repository's own packs hold some key more than once (a transfer that
    re-sends what the target already has): physical index entries minus distinct keys"""
    repo = _real(repo)
    out = []
    with repo.lock_read():
        pc = repo._pack_collection
        pc.ensure_loaded()
        for nm in ("revision_index", "inventory_index", "text_index", "signature_index"):
            ci = getattr(pc, nm).combined_index
            extra = ci.key_count() - len({e[1] for e in ci.iter_all_entries()})
            if extra:
                out.append("%s+%d" % (nm.split("_")[0], extra))
    return out


def text_shas(repo, n):
    """{(file idx, rev idx): sha1 of the full text} of the texts the repository holds itself"""
    import hashlib
    out = {}
    with repo.lock_read():
        vf = repo.texts.without_fallbacks()
        keys = [k for k in vf.keys() if _known(k)]
        for rec in repo.texts.get_record_stream(keys, "unordered", True):
            k = (fidx(rec.key[0]), idx(rec.key[1]))
            try:
                out[k] = hashlib.sha1(rec.get_bytes_as("fulltext")).hexdigest()
            except BaseException as e:  # noqa: B902
                out[k] = "ERR %s" % type(e).__name__
    return out


def testaments(repo, revids):
    """{revision index: (plain short testament, strict3 short testament) | error text}"""
    from breezy.bzr.testament import Testament, StrictTestament3
    out = {}
    with repo.lock_read():
        for r in revids:
            try:
                out[idx(r)] = (Testament.from_revision(repo, r).as_short_text(),
                               StrictTestament3.from_revision(repo, r).as_short_text())
            except BaseException as e:  # noqa: B902
                out[idx(r)] = "ERR %s" % type(e).__name__
    return out


def text_parents(repo, n):
    """{(file idx, rev idx): per-file parents} of the texts the repository holds itself"""
    with repo.lock_read():
        vf = repo.texts.without_fallbacks() if hasattr(repo.texts, "without_fallbacks") else repo.texts
        keys = [k for k in vf.keys() if _known(k)]
        pm = repo.texts.get_parent_map(keys)
    return {(fidx(k[0]), idx(k[1])): tuple(sorted((fidx(p[0]), idx(p[1])) for p in (v or ()))) for k, v in pm.items()}


# ---- Coq printing --------------------------------------------------------------------------------------

def coq_tkeys(l):
    return "[" + "; ".join("(%d, %d)" % (f, r) for f, r in l) + "]"


def coq_univ(u, fmt):
    return daglib.coq_dag(u["g"]), "[" + "; ".join(coq_tkeys(row) for row in inv_table(u, fmt)) + "]"


def coq_revs(l):
    return "[" + "; ".join(str(int(x)) for x in l) + "]"


def coq_cfg(src_fmt, tgt_fmt, stacked, src_via="local"):
    return "(Cfg %s %s %s %s)" % (coq_bool(tgt_fmt == "2a"), coq_bool(src_fmt == "2a" and tgt_fmt != "2a"),
                                  coq_bool(bool(stacked)), coq_bool(src_via == "smart"))


def coq_ops(ops):
    out = []
    for o in ops:
        if o[0] == "commit":
            out.append("OCommit %d" % o[1])
        elif o[0] == "fetchall":
            out.append("OFetchAll")
        elif o[0] == "fetchnr":
            out.append("OFetchNR %s %d" % (coq_bool(o[2]), o[1]))
        else:
            out.append("OFetch %s %d" % (coq_bool(o[2]), o[1]))
    return "[" + "; ".join(out) + "]"


# ---- running a case on the real code ----------------------------------------------------------------------

EXPECTED = ("NoSuchRevision", "IncompatibleRepositories", "BzrError", "BzrCheckError")


def _mk_branch(path, fmt):
    from breezy import controldir
    return controldir.ControlDir.create_branch_convenience(
        path, format=controldir.format_registry.make_controldir(fmt), force_new_tree=False)


def _src_testaments(u, fmt):
    key = ("testament", ukey(u), fmt)
    if key not in _st["inv"]:
        from breezy import repository as _r
        repo = _r.Repository.open(source(u, fmt)[1])
        n = len(u["g"])
        _st["inv"][key] = (testaments(repo, [rid(i) for i in range(n)]), text_parents(repo, n), text_shas(repo, n),
                           check_problems(repo, set(u["late"])))
    return _st["inv"][key]


def _extra_source(x):
    """a repository holding one revision r<x> the universe's source does not have (own root and file
    ids, so that it does not take part in the per-file graphs of the universe)"""
    key = ("extra", x)
    if key not in _st["src"]:
        from breezy import controldir
        path = fresh_dir("extra")
        cd = controldir.format_registry.make_controldir("pack-0.92").initialize(path)
        cd.create_repository()
        cd.create_branch()
        wt = cd.create_workingtree()
        with wt.lock_write():
            wt.set_root_id(b"xroot-id")
            with open(os.path.join(path, "x"), "wb") as f:
                f.write(b"x %d\n" % x)
            wt.add(["x"], ids=[b"x-id"])
            wt.commit(**commit_kwargs(x))
        _st["src"][key] = path
    return _st["src"][key]


def set_tip(branch, g, r):
    with branch.lock_write():
        branch.set_last_revision_info(_lh_len(g, r), rid(r))


def _do_fetch(case, tpath, r, fg, entry):
    from breezy import branch as _b, repository as _r
    u = case["u"]
    src_url = url_of(source(u, case["src_fmt"])[1], case["src_via"])
    if entry == "fetch":
        tgt = open_repo(tpath, bool(case.get("fb")), case["tgt_via"])
        tgt.fetch(_r.Repository.open(src_url), revision_id=rid(r), find_ghosts=fg)
    elif entry == "all":
        tgt = open_repo(tpath, bool(case.get("fb")), case["tgt_via"])
        tgt.fetch(_r.Repository.open(src_url), find_ghosts=fg)
    elif entry == "pull_ss":
        # pull over the smart server from a STACKED source branch whose revisions all live in its own
        # fallback (the materialised universe): requests for parent inventories go to the stacked
        # source repository alone, which holds nothing
        key = ("ssrc", ukey(u), case["src_fmt"])
        if key not in _st["src"]:
            sp = fresh_dir("ssrc")
            sbr = _mk_branch(sp, case["src_fmt"])
            sbr.set_stacked_on_url(url_of(source(u, case["src_fmt"])[1], "local"))
            _st["src"][key] = sp
        sp = _st["src"][key]
        set_tip(_b.Branch.open(sp), u["g"], r)
        tb = _b.Branch.open(url_of(tpath, case["tgt_via"]))
        tb.pull(_b.Branch.open(url_of(sp, "smart")), stop_revision=rid(r), overwrite=True)
    elif entry == "sprout":
        # ControlDir.sprout into a location that does not exist yet (the empty target made by run_case is removed)
        from breezy import controldir
        shutil.rmtree(tpath)
        set_tip(_b.Branch.open(source(u, case["src_fmt"])[1]), u["g"], r)
        controldir.ControlDir.open(src_url).sprout(url_of(tpath, case["tgt_via"]), revision_id=rid(r),
                                                   create_tree_if_local=False)
    else:
        set_tip(_b.Branch.open(source(u, case["src_fmt"])[1]), u["g"], r)
        sb = _b.Branch.open(src_url)
        tb = _b.Branch.open(url_of(tpath, case["tgt_via"]))
        if entry == "pull":
            tb.pull(sb, stop_revision=rid(r), overwrite=True)
        elif entry == "push":
            sb.push(tb, stop_revision=rid(r), overwrite=True)
        else:
            raise ValueError(entry)


def _do_commit(case, tpath, c):
    from breezy import branch as _b
    u = case["u"]
    g = u["g"]
    n = len(g)
    ps = g[c]
    tb = _b.Branch.open(url_of(tpath, case["tgt_via"]))
    with tb.lock_write():
        if fresh_root(u, c):
            tb.set_last_revision_info(0, b"null:")
        else:
            tb.set_last_revision_info(_lh_len(g, ps[0]), rid(ps[0]))
    co = fresh_dir("co")
    try:
        wt = tb.create_checkout(co, lightweight=True)
        with wt.lock_write():
            apply_changes(wt, co, u, c)
            if ps:
                wt.set_parent_ids([rid(p) for p in ps], allow_leftmost_as_ghost=True)
            wt.commit(**commit_kwargs(c))
    finally:
        shutil.rmtree(co, ignore_errors=True)


def _readable_problems(tpath, stacked, u, fmt, local_revs):
    """C08 oracle: every file of every local revision can be read and diffed against its parents
    using the repository together with its fallback."""
    repo = open_repo(tpath, stacked)
    bad = []
    g = u["g"]
    n = len(g)
    with repo.lock_read():
        have = repo.has_revisions([rid(i) for i in range(n)])
        for r in local_revs:
            if r >= n:
                continue
            try:
                tree = repo.revision_tree(rid(r))
                for path, ie in tree.iter_entries_by_dir():
                    if ie.kind == "file":
                        tree.get_file_text(path)
                    elif ie.kind == "symlink":
                        tree.get_symlink_target(path)
                for p in g[r]:
                    if rid(p) in have:
                        ptree = repo.revision_tree(rid(p))
                        for ch in tree.iter_changes(ptree):
                            pass
            except BaseException as e:  # noqa: B902
                bad.append("r%d: %s" % (r, type(e).__name__))
    return bad


FACTS = ("testament_bad", "textparents_bad", "text_bad", "sig_bad", "check", "unreadable", "dup")


def content_facts(tpath, stacked, u, tfmt, n, after, src_t, src_tp, src_sha, src_chk, committed=()):
    so = {}
    repo = open_repo(tpath, stacked)
    local = [r for r in after[0] if r < n]
    tt = testaments(repo, [rid(r) for r in local])
    so["testament_bad"] = sorted(r for r in local if tt[r] != src_t.get(r))
    tp = text_parents(repo, n)
    so["textparents_bad"] = sorted(list(k) for k, v in tp.items() if k in src_tp and src_tp[k] != v)
    sh = text_shas(repo, n)
    so["text_bad"] = sorted(list(k) for k, v in sh.items() if k in src_sha and src_sha[k] != v)
    with repo.lock_read():
        sigs = {idx(k[0]): b"".join(repo.signatures.get_record_stream([k], "unordered", True).__next__().get_bytes_as("chunked"))
                for k in repo.signatures.without_fallbacks().keys()}
    so["sig_bad"] = sorted(r for r in local if r not in committed and sigs.get(r) != (sig_text(r) if r % 4 == 1 else None))
    so["dup"] = stored_twice(open_repo(tpath, stacked))
    sparse_have = None
    if u.get("gdef"):
        rp = open_repo(tpath, stacked)
        with rp.lock_read():
            sparse_have = {idx(r) for r in rp.all_revision_ids()}
    chk = check_problems(open_repo(tpath, stacked), set(u["late"]), n, sparse_have)
    so["check"] = [it for it in chk if it not in src_chk]     # problems the source does not have itself
    so["unreadable"] = _readable_problems(tpath, stacked, u, tfmt, local)
    return so


def run_case(case):
    """Execute the case on real repositories.  Returns {"model": observation the model predicts,
    "oracle": facts the property oracle needs}."""
    from breezy import branch as _b, repository as _r
    u = case["u"]
    g = u["g"]
    n = len(g)
    tfmt = case["tgt_fmt"]
    p1, fin = source(u, case["src_fmt"])
    inv_table(u, case["src_fmt"])
    seed_fmt = tfmt if (case["src_fmt"] == "2a" and tfmt != "2a") else case["src_fmt"]
    src_t, src_tp, src_sha, src_chk = _src_testaments(u, seed_fmt)
    stacked = bool(case.get("fb"))
    work = fresh_dir("case")
    orc = {"steps": []}
    try:
        tpath = os.path.join(work, "t")
        os.makedirs(tpath)
        tb = _mk_branch(tpath, tfmt)
        if stacked:
            fpath = os.path.join(work, "fb")
            os.makedirs(fpath)
            fbr = _mk_branch(fpath, tfmt)
            for t in case["fb"]:
                fbr.repository.fetch(_r.Repository.open(p1), revision_id=rid(t))
            tb.set_stacked_on_url("../fb")
        # seed from the phase-1 source (always the target's own format so that seeding is a plain copy)
        p1t = source(u, seed_fmt)[0]
        for t in case.get("seed", []):
            open_repo(tpath, stacked).fetch(_r.Repository.open(p1t), revision_id=rid(t))
        for x in case.get("extra", []):
            if str(x) in (u.get("gdef") or {}):
                # a revision the sparse source lacks but its origin has: the target gets the real one
                xr = _r.Repository.open(origin_path(u, seed_fmt))
                open_repo(tpath, stacked).fetch(xr, revision_id=rid(x))
                with xr.lock_read():
                    inv = xr.get_inventory(rid(x))
                    _st["inv"][("xtexts", ukey(u), case["src_fmt"], tfmt, x)] = sorted(
                        (fidx(ie.file_id), idx(ie.revision)) for _p, ie in inv.iter_entries())
            else:
                open_repo(tpath, stacked).fetch(_r.Repository.open(_extra_source(x)), revision_id=rid(x))
        pre = repo_state(tpath, n, stacked)
        model = {"wf": True, "pre": pre, "steps": []}
        state = pre
        committed = set()
        for op in case["ops"]:
            names_before = pack_names(tpath)
            out = Tag("ok")
            try:
                if op[0] == "commit":
                    committed.add(op[1])
                    _do_commit(case, tpath, op[1])
                else:
                    _do_fetch(case, tpath, op[1], op[2], op[3])
            except BaseException as e:  # noqa: B902
                nm = type(e).__name__
                if nm == "ErrorFromSmartServer" and e.error_tuple:
                    nm = e.error_tuple[0].decode() if isinstance(e.error_tuple[0], bytes) else str(e.error_tuple[0])
                if nm not in EXPECTED:
                    raise
                out = Err(nm)
            after = repo_state(tpath, n, stacked)
            copied = len(after[0]) - len(state[0])
            model["steps"].append([out, copied, after])
            so = {"names_changed": pack_names(tpath) != names_before, "upload": upload_leftovers(tpath)}
            so["lost"] = [k for k in range(3) if not set(map(tuple, state[k]) if k == 2 else state[k])
                          <= set(map(tuple, after[k]) if k == 2 else after[k])]
            if orc["steps"] and after == state and not so["names_changed"]:
                # nothing was written: the facts about the repository's content are those of the previous step
                for k in FACTS:
                    so[k] = orc["steps"][-1][k]
            else:
                so.update(content_facts(tpath, stacked, u, tfmt, n, after, src_t, src_tp, src_sha, src_chk, committed))
            orc["steps"].append(so)
            state = after
        return {"model": model, "oracle": orc}
    finally:
        shutil.rmtree(work, ignore_errors=True)


def model_term(case):
    u = case["u"]
    g, iv = coq_univ(u, case["src_fmt"])
    p1g, late = phase1_graph(u)
    zf = sorted(anc_present(u["g"], late, case.get("fb") or []))
    zt = sorted(anc_present(u["g"], late, case.get("seed") or []))
    ops = [("commit", o[1]) if o[0] == "commit" else ("fetchall",) if o[3] == "all"
           else ("fetchnr", o[1], o[2]) if o[3] == "pull_ss" else ("fetch", o[1], o[2])
           for o in case["ops"]]
    xtexts = []
    for x in case.get("extra", []):
        xtexts += _st["inv"].get(("xtexts", ukey(u), case["src_fmt"], case["tgt_fmt"], x), [])
    return "run_case %s %s %s %s %s %s %s %s %s %s" % (
        g, iv, coq_cfg(case["src_fmt"], case["tgt_fmt"], case.get("fb"), case["src_via"]),
        "DRevs" if revs_only(case) else "(DAll %s)" % coq_bool(case["tgt_fmt"] != "2a"),
        coq_bool(not u.get("gdef")),
        coq_revs(zf), coq_revs(zt), coq_revs(case.get("extra", [])), coq_tkeys(xtexts), coq_ops(ops))


def revs_only(case):
    """cases compared on revision sets only (model detail DRevs): knit (pack-0.92) targets fed from a sparse
    source.  A knit text record named after a revision that is not copied may be a delta whose compression
    parent is not referenced by any copied inventory; the sink then copies that parent text too
    (get_missing_compression_parent_keys -- C06's model, not this one).  Every oracle clause still applies."""
    return case["tgt_fmt"] != "2a" and bool(case["u"].get("gdef"))


def model_obs(case, obs):
    m = obs["model"]
    if revs_only(case):
        return [m["wf"], [m["pre"][0]], [[s[0], s[1], [s[2][0]]] for s in m["steps"]]]
    return [m["wf"], m["pre"], m["steps"]]
