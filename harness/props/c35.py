"""C35 -- Git object export is consistent and round-trips (tie H, P-spec).

Case kinds
  native  a generated native 2a history (files, directories incl. empty ones, symlinks, exec
          changes, renames, kind changes, merges that take the other parent's version, a file
          named ".git").  For every revision, in topological order:
            * _tree_to_objects with the real parent trees and the store's id map  (yield set, root)
            * BazaarObjectStore._lookup_revision_sha1 -> commit -> tree  (warm, incremental path),
              expanded through BazaarObjectStore.__getitem__ (_reconstruct_tree/_reconstruct_blobs)
            * a cold from-scratch conversion (_tree_to_objects, no parents, empty DictGitShaMap)
            * a pure-hashlib reference SHA computed from the INPUT tree (oracle only)
          then `push(lossy=True)` (dpush) into a bare git repository, `pull` back into a fresh
          2a branch, and the round-tripped revision trees are listed.
  git     a git-origin history built with dulwich (nested trees, non-NFC and non-ASCII names,
          symlinks, exec bits, kind changes, merges), fetched into a 2a repository
          (import_git_objects) and re-exported with a COLD cache: tree and commit SHAs must be the
          originals.
  crash   witnesses of the still-known finding C35-unusual-modes-bytes-keys (oracle only: the run aborts).
The Coq model (Model/GitTree.v) predicts the Merkle STRUCTURE (modes, names, order, blob
contents), the yield set, and the imported tree listings; SHA equalities are oracle checks.
"""
import hashlib
import json
import os
import shutil
import stat

from vlib import Tag, Err, coq_bytes, coq_bool, coq_list, coq_nat

PROP = "C35"
COQ = {
    "property_file": "Properties/C35.v",
    "imports": "From BV Require Import Lib.Bytes Lib.Obs Model.GitTree.",
}
META = {
    "level": "translation_validation",
    "title": "Git object export is consistent and round-trips",
    "technique": ("Coq theorems over a hand model of object_store._tree_to_objects/directory_to_tree and "
                  "fetch.import_git_tree/import_git_blob (abstract SHA) + differential run on real native and "
                  "git-origin histories (incremental vs cold export, dpush + fetch back, cold re-export)"),
    "level_text": ("P-spec: for the model, incremental export = from-scratch export for every tree, parent set, change list "
                   "and consistent cache (abstract object ids; iter_changes completeness is a hypothesis), the git entry order is "
                   "a function of the entry set, import(export t) = t minus empty directories, export(import g) = g for "
                   "canonical git trees (standard modes). After the repair round (fab1455 fd41bf0 4f049bc 1182025) no refutation "
                   "remains: the old '.git' rename witness is a regression theorem. Unusual git file modes are still lost on "
                   "re-export (known finding C35-unusual-modes-bytes-keys). The model is tied to the code by differential runs on real "
                   "repositories; SHA-1/serialisation are dulwich's and enter only as an abstract function."),
    "level_note": ("Trusted: Coq kernel, vm_compute, the correspondence harness (bounded sampling), dulwich object "
                   "serialisation/SHA-1, bzrformats CHKInventory.iter_changes (modelled by `changes`, compared on every run "
                   "through the yield sets), the 2a commit machinery that assigns per-file revisions (read back, not modelled)."),
    "design_ref": "DESIGN.md §5 C35",
    "trusted_base": ["hand model coq/Model/GitTree.v of breezy/git/object_store.py, fetch.py, mapping.py",
                     "dulwich Tree/Blob serialisation and SHA-1 (abstract Hb/Ht in the theorems)",
                     "correspondence harness harness/props/c35.py"],
    "assumptions": ["object ids are a function of the object (Hb, Ht Section parameters); no SHA-1 collision among "
                    "the texts compared by find_unchanged_parent_ie (modelled as text equality)",
                    "iter_changes (bzrformats CHKInventory) reports every entry whose parent, name, kind, text or "
                    "exec bit differs (hypothesis of C35_incremental_eq_scratch: no reported change => same tree; modelled by `changes`)",
                    "cache consistency: every (file id, revision) in the id map names the blob of that text",
                    "default mapping (git-v1: BZR_DUMMY_FILE None, lossy export), 2a target format (no submodules)"],
    "rule": ("native histories of 2-7 revisions over 1-9 entries with merges; git histories of 2-6 commits; "
             "non-trivial = at least one revision whose incremental conversion yields fewer objects than the cold one"),
}
SHARD = 12

_state = {"n": 0}
_memo = {}          # json(input) -> data observed by impl that model_term needs

M_DIR, M_REG, M_EXE, M_LNK = 0o040000, 0o100644, 0o100755, 0o120000


# --------------------------------------------------------------------------------------
# reference functions on INPUT trees (oracle vocabulary; independent of breezy and of Coq)
# --------------------------------------------------------------------------------------

def _blob_sha(data):
    return hashlib.sha1(b"blob %d\0" % len(data) + data).hexdigest().encode()


def _tree_sha(entries):
    """entries: list of (mode, name bytes, hexsha)"""
    body = b""
    for mode, name, sha in sorted(entries, key=lambda e: e[1] + (b"/" if stat.S_ISDIR(e[0]) else b"")):
        body += b"%o %s\0" % (mode, name) + bytes.fromhex(sha.decode())
    return hashlib.sha1(b"tree %d\0" % len(body) + body).hexdigest().encode()


def _nest(entries):
    """flat native entries [path, fid, kind, data, exec] -> nested dict name -> (entry, children)"""
    root = {}
    for path, fid, kind, data, ex in sorted(entries, key=lambda e: e[0].split("/")):
        parts = path.split("/")
        d = root
        for p in parts[:-1]:
            d = d[p][1]
        d[parts[-1]] = ((path, fid, kind, data, ex), {})
    return root


def _ref_native_sha(nested, top=True):
    ents = []
    for name, (e, ch) in nested.items():
        if name == ".git":
            continue
        kind = e[2]
        if kind == "directory":
            s = _ref_native_sha(ch, False)
            if s is not None:
                ents.append((M_DIR, name.encode("utf-8"), s))
        elif kind == "symlink":
            ents.append((M_LNK, name.encode("utf-8"), _blob_sha(bytes(e[3]))))
        else:
            ents.append((M_EXE if e[4] else M_REG, name.encode("utf-8"), _blob_sha(bytes(e[3]))))
    if not ents and not top:
        return None
    return _tree_sha(ents)


def _ref_roundtrip_listing(nested, prefix=""):
    """what must survive push + fetch: everything except empty directories and '.git'"""
    out = []
    for name, (e, ch) in nested.items():
        if name == ".git":
            continue
        p = prefix + name
        if e[2] == "directory":
            sub = _ref_roundtrip_listing(ch, p + "/")
            if sub:
                out.append([p, Tag("directory"), b"", False])
                out.extend(sub)
        elif e[2] == "symlink":
            out.append([p, Tag("symlink"), bytes(e[3]), False])
        else:
            out.append([p, Tag("file"), bytes(e[3]), bool(e[4])])
    return out


def _ref_git_sha(tree):
    ents = []
    for mode, name, val in tree:
        if isinstance(val, list):
            ents.append((mode, bytes(name), _ref_git_sha(val)))
        else:
            ents.append((mode, bytes(name), _blob_sha(bytes(val))))
    return _tree_sha(ents)


def _ref_git_listing(tree, prefix=b""):
    out = []
    for mode, name, val in tree:
        p = prefix + bytes(name)
        if isinstance(val, list):
            out.append([p, Tag("directory"), b"", False])
            out.extend(_ref_git_listing(val, p + b"/"))
        elif stat.S_ISLNK(mode):
            out.append([p, Tag("symlink"), bytes(val), False])
        else:
            out.append([p, Tag("file"), bytes(val), bool(mode & 0o111)])
    return out


def _sorted_listing(l):
    return sorted(l, key=lambda e: e[0].encode("utf-8") if isinstance(e[0], str) else bytes(e[0]))


# --------------------------------------------------------------------------------------
# generators
# --------------------------------------------------------------------------------------

NAMES = ["a", "aa", "ab", "a-", "a0", "bb", "b.c", "x y", "été", "zz ", "dd", "d-", "ee", "A1"]
TARGETS = ["aa", "dd/aa", "../x", "été", "é", "t ", "nowhere", "dd"]
CONTENTS = [b"", b"A\n", b"B\n", b"\x00\x01", b"x \n", b"\xc3\xa9\n", b"A\r\n", b"long" * 9]


def _paths(tree):
    return {e[0] for e in tree}


def _children(tree, d):
    pre = d + "/" if d else ""
    return [e for e in tree if e[0].startswith(pre) and "/" not in e[0][len(pre):] and e[0] != d]


def _dirs(tree):
    return [""] + [e[0] for e in tree if e[2] == "directory"]


def _join(d, n):
    return d + "/" + n if d else n


def _gen_edit(rng, tree, fidn, allow_dotgit, force=None):
    """one random edit of a flat native tree (list of [path, fid, kind, data, exec])"""
    tree = [list(e) for e in tree]
    op = rng.choice(["add", "add", "modify", "modify", "chmod", "delete", "rename", "rename", "kind", "adddir",
                     "retarget", "addlink", "moveout", "moveout", "addsub", "replace", "replace"])
    if force:
        op = force
    files = [e for e in tree if e[2] == "file"]
    links = [e for e in tree if e[2] == "symlink"]

    def fresh(d):
        cands = [n for n in NAMES if _join(d, n) not in _paths(tree)]
        if allow_dotgit and rng.random() < 0.08 and _join(d, ".git") not in _paths(tree):
            return ".git"
        return rng.choice(cands) if cands else None

    if op == "replace":
        # an entry is removed and ANOTHER entry (directory with untouched contents, symlink, file) takes over its path
        movers = [e for e in tree]
        rng.shuffle(movers)
        for m in movers:
            victims = [v for v in tree if v[0] != m[0] and not v[0].startswith(m[0] + "/") and not m[0].startswith(v[0] + "/")
                       and v[0].split("/")[-1] != ".git"]
            if not victims:
                continue
            v = rng.choice(victims)
            x = v[0]
            tree = [e for e in tree if e[0] != x and not e[0].startswith(x + "/")]
            old = m[0]
            for e in tree:
                if e[0] == old:
                    e[0] = x
                elif e[0].startswith(old + "/"):
                    e[0] = x + e[0][len(old):]
            return tree
        return tree
    if op == "moveout":
        # a file/symlink leaves a directory that keeps at least one other child; nothing else in it changes
        cands = [e for e in tree if e[2] != "directory" and "/" in e[0]
                 and len(_children(tree, e[0].rsplit("/", 1)[0])) >= 2]
        if not cands:
            op = "addsub"
        else:
            e = rng.choice(cands)
            src = e[0].rsplit("/", 1)[0]
            dirs = [d for d in _dirs(tree) if d != src]
            d = rng.choice(dirs)
            n = fresh(d) if rng.random() < 0.5 else (e[0].rsplit("/", 1)[1] if _join(d, e[0].rsplit("/", 1)[1]) not in _paths(tree) else fresh(d))
            if n is None or n == ".git":
                return tree
            e[0] = _join(d, n)
            return tree
    if op == "addsub":
        # grow a directory with two leaves (raw material for "moveout")
        d = rng.choice(_dirs(tree))
        n = fresh(d)
        if n is None or n == ".git":
            return tree
        fidn[0] += 3
        sub = _join(d, n)
        tree.append([sub, b"f%d" % (fidn[0] - 2), "directory", b"", False])
        tree.append([_join(sub, "aa"), b"f%d" % (fidn[0] - 1), "file", rng.choice(CONTENTS), False])
        tree.append([_join(sub, "ll"), b"f%d" % fidn[0], "symlink", rng.choice(TARGETS).encode("utf-8"), False])
        return tree
    if op in ("add", "adddir", "addlink") or not tree:
        d = rng.choice(_dirs(tree))
        n = fresh(d)
        if n is None:
            return tree
        fidn[0] += 1
        fid = b"f%d" % fidn[0]
        if op == "adddir":
            tree.append([_join(d, n), fid, "directory", b"", False])
        elif op == "addlink":
            tree.append([_join(d, n), fid, "symlink", rng.choice(TARGETS).encode("utf-8"), False])
        else:
            tree.append([_join(d, n), fid, "file", rng.choice(CONTENTS), rng.random() < 0.3])
    elif op == "modify" and files:
        e = rng.choice(files)
        e[3] = rng.choice([c for c in CONTENTS if c != e[3]])
    elif op == "chmod" and files:
        e = rng.choice(files)
        e[4] = not e[4]
    elif op == "retarget" and links:
        e = rng.choice(links)
        e[3] = rng.choice([t for t in TARGETS if t.encode("utf-8") != e[3]]).encode("utf-8")
    elif op == "delete" and tree:
        e = rng.choice(tree)
        tree = [x for x in tree if x[0] != e[0] and not x[0].startswith(e[0] + "/")]
    elif op == "rename" and tree:
        e = rng.choice(tree)
        dirs = [d for d in _dirs(tree) if d != e[0] and not d.startswith(e[0] + "/")]
        d = rng.choice(dirs)
        n = fresh(d)
        if n is None:
            return tree
        old, new = e[0], _join(d, n)
        for x in tree:
            if x[0] == old:
                x[0] = new
            elif x[0].startswith(old + "/"):
                x[0] = new + x[0][len(old):]
    elif op == "kind" and tree:
        e = rng.choice(tree)
        if e[2] == "directory":
            if not _children(tree, e[0]):
                e[2], e[3] = "file", b"was dir\n"
        elif e[2] == "file":
            e[2], e[3], e[4] = "symlink", b"aa", False
        else:
            e[2], e[3] = "file", b"was link\n"
    return tree


def _take_other(rng, tree, other):
    """merge flavour: take the other parent's version of some entries (same file id)"""
    tree = [list(e) for e in tree]
    by_fid = {e[1]: e for e in tree}
    for o in other:
        if rng.random() < 0.5:
            if o[1] in by_fid:
                m = by_fid[o[1]]
                if m[2] == o[2] and m[2] != "directory":
                    m[3], m[4] = o[3], o[4]
            else:
                parent = o[0].rsplit("/", 1)[0] if "/" in o[0] else ""
                if o[0] not in _paths(tree) and (parent == "" or any(e[0] == parent and e[2] == "directory" for e in tree)):
                    tree.append(list(o))
                    by_fid[o[1]] = tree[-1]
    return tree


def gen_native(rng, nrev, allow_dotgit=True):
    fidn = [0]
    revs = []
    anc = {}
    for i in range(nrev):
        if i == 0:
            parents, tree = [], []
            for _ in range(rng.randint(1, 5)):
                tree = _gen_edit(rng, tree, fidn, False)
        else:
            left = i - 1 if rng.random() < 0.6 else rng.randrange(max(0, i - 3), i)
            parents = [left]
            if i >= 2 and rng.random() < 0.45:
                # bzr drops merge parents that are ancestors of another parent: only unrelated heads
                pool = [x for x in range(max(0, i - 5), i) if x != left]
                rng.shuffle(pool)
                for x in pool:
                    if len(parents) >= (2 if rng.random() < 0.8 else 3):
                        break
                    if all(x not in anc[q] and q not in anc[x] for q in parents):
                        parents.append(x)
            tree = [list(e) for e in revs[left]["tree"]]
            if len(parents) > 1 and rng.random() < 0.2:
                pass        # a merge that keeps the left parent's tree: nothing dirty, the parent's root tree is reused
            else:
                for p in parents[1:]:
                    tree = _take_other(rng, tree, revs[p]["tree"])
                x = rng.random()
                if x < 0.15:
                    tree = _gen_edit(rng, tree, fidn, allow_dotgit, force="replace")    # the only change of the revision
                elif x < 0.35:
                    tree = _gen_edit(rng, tree, fidn, allow_dotgit, force="moveout")    # the only change of the revision
                else:
                    for _ in range(rng.choice([0, 1, 1, 2, 3])):
                        tree = _gen_edit(rng, tree, fidn, allow_dotgit)
        revs.append({"parents": parents, "tree": sorted(tree, key=lambda e: e[0].split("/"))})
        anc[i] = {i}.union(*[anc[q] for q in parents])
    # make the last revision a descendant of every head so that dpush carries the whole history
    heads = set(range(nrev)) - {p for r in revs for p in r["parents"]}
    heads.discard(nrev - 1)
    if heads:
        left = nrev - 1
        tree = [list(e) for e in revs[left]["tree"]]
        tree = _gen_edit(rng, tree, fidn, False)
        revs.append({"parents": [left] + sorted(heads), "tree": sorted(tree, key=lambda e: e[0].split("/"))})
    return {"kind": "native", "revs": revs}


GIT_NAMES = [b"a", b"aa", b"ab", b"a-", b"a0", b"bb", b"x y", "\u00e9t".encode(), "e\u0301".encode(), b"zz ", b"dd", b"B.c"]
GIT_FILE_MODES = [M_REG, M_REG, M_REG, M_EXE, M_EXE, M_LNK]   # unusual modes: see corpus (C35-unusual-modes-bytes-keys)


def _gen_git_tree(rng, depth=0):
    ents = {}
    for _ in range(rng.randint(1, 4)):
        n = rng.choice(GIT_NAMES)
        if n in ents:
            continue
        if depth < 2 and rng.random() < 0.3:
            ents[n] = [M_DIR, n, _gen_git_tree(rng, depth + 1)]
        else:
            m = rng.choice(GIT_FILE_MODES)
            data = rng.choice(TARGETS).encode("utf-8") if m == M_LNK else rng.choice(CONTENTS)
            ents[n] = [m, n, data]
    return _git_sorted(list(ents.values()))


def _git_sorted(ents):
    return sorted(ents, key=lambda e: e[1] + (b"/" if isinstance(e[2], list) else b""))


def _mutate_git_tree(rng, tree, depth=0):
    tree = [[m, n, (_copy_git(v) if isinstance(v, list) else v)] for m, n, v in tree]
    op = rng.choice(["add", "modify", "chmod", "delete", "descend", "kind", "kindsame", "kindsame"])
    names = {n for _, n, _ in tree}
    if op == "descend":
        subs = [e for e in tree if isinstance(e[2], list)]
        if subs and depth < 2:
            e = rng.choice(subs)
            e[2] = _mutate_git_tree(rng, e[2], depth + 1)
            if not e[2]:
                tree.remove(e)
            return _git_sorted(tree)
        op = "add"
    if op == "add" or not tree:
        cands = [n for n in GIT_NAMES if n not in names]
        if cands:
            n = rng.choice(cands)
            if depth < 2 and rng.random() < 0.3:
                tree.append([M_DIR, n, _gen_git_tree(rng, depth + 1)])
            else:
                m = rng.choice(GIT_FILE_MODES)
                tree.append([m, n, rng.choice(TARGETS).encode("utf-8") if m == M_LNK else rng.choice(CONTENTS)])
    elif op == "modify":
        e = rng.choice(tree)
        if not isinstance(e[2], list):
            e[2] = (rng.choice([t for t in TARGETS if t.encode("utf-8") != e[2]]).encode("utf-8") if e[0] == M_LNK
                    else rng.choice([c for c in CONTENTS if c != e[2]]))
    elif op == "chmod":
        e = rng.choice(tree)
        if not isinstance(e[2], list) and e[0] != M_LNK:
            e[0] = rng.choice([m for m in (M_REG, M_EXE) if m != e[0]])
    elif op == "delete" and len(tree) > 1:
        tree.remove(rng.choice(tree))
    elif op == "kindsame":
        # symlink <-> regular file with byte-identical blob (core.symlinks=false checkouts and their repair)
        leaves = [e for e in tree if not isinstance(e[2], list) and e[1] != b"counter"]
        if leaves:
            e = rng.choice(leaves)
            if e[0] == M_LNK:
                e[0] = rng.choice([M_REG, M_EXE])
            else:
                if not _valid_target(e[2]):
                    e[2] = rng.choice(TARGETS).encode("utf-8")      # (this also edits the content)
                else:
                    e[0] = M_LNK
    elif op == "kind":
        e = rng.choice(tree)
        if isinstance(e[2], list):
            e[0], e[2] = M_REG, b"was dir\n"
        elif e[0] == M_LNK:
            e[0], e[2] = M_REG, b"was link\n"
        else:
            e[0], e[2] = M_LNK, b"aa"
    return _git_sorted(tree)


def _valid_target(data):
    try:
        # no control characters: a 2a inventory cannot hold a symlink target containing a newline (see notes)
        return bool(data) and all(c >= 32 for c in bytes(data)) and bool(bytes(data).decode("utf-8"))
    except UnicodeDecodeError:
        return False


def _copy_git(tree):
    return [[m, n, (_copy_git(v) if isinstance(v, list) else v)] for m, n, v in tree]


def gen_git(rng, ncommit):
    commits = []
    for i in range(ncommit):
        if i == 0:
            parents, tree = [], _gen_git_tree(rng)
        else:
            left = i - 1 if rng.random() < 0.7 else rng.randrange(max(0, i - 3), i)
            parents = [left]
            if i >= 2 and rng.random() < 0.3:
                pool = [x for x in range(max(0, i - 4), i) if x != left]
                parents.append(rng.choice(pool))
            tree = _copy_git(commits[left]["tree"])
            for _ in range(rng.choice([1, 1, 2, 3])):
                tree = _mutate_git_tree(rng, tree)
        # every commit changes a counter file, so that no commit is a pure mode change (see notes: C35-unusual-mode-dropped)
        tree = _git_sorted([e for e in tree if e[1] != b"counter"] + [[M_REG, b"counter", b"%d\n" % i]])
        commits.append({"parents": parents, "tree": tree})
    return {"kind": "git", "commits": commits}


def corpus():
    f = lambda p, fid, c=b"A\n", x=False: [p, fid, "file", c, x]
    d = lambda p, fid: [p, fid, "directory", b"", False]
    l = lambda p, fid, t: [p, fid, "symlink", t, False]
    out = []
    # the prototype history: modify, rename of a directory, merge taking the other side, rename to ".git" (finding)
    t0 = [f("aa", b"a-id"), d("dd", b"d-id"), f("dd/bb", b"b-id", b"B\n", True), l("ll", b"l-id", b"aa"), d("ee", b"e-id")]
    t1 = [f("aa", b"a-id", b"A2\n"), d("dd", b"d-id"), f("dd/bb", b"b-id", b"B\n", True), l("ll", b"l-id", b"aa"), d("ee", b"e-id")]
    t2 = [f("aa", b"a-id"), d("d2", b"d-id"), f("d2/bb", b"b-id", b"B\n", False), l("ll", b"l-id", b"d2")]
    t3 = [f("aa", b"a-id", b"A2\n"), d("d2", b"d-id"), f("d2/bb", b"b-id", b"B\n", False), l("ll", b"l-id", b"d2")]
    out.append({"kind": "native", "revs": [{"parents": [], "tree": t0}, {"parents": [0], "tree": t1},
                                           {"parents": [0], "tree": t2}, {"parents": [2, 1], "tree": t3}]})
    t4 = [f(".git", b"a-id", b"A2\n"), d("d2", b"d-id"), f("d2/bb", b"b-id", b"B\n", False), l("ll", b"l-id", b"d2")]
    out.append({"kind": "native", "revs": [{"parents": [], "tree": t3}, {"parents": [0], "tree": t4}]})
    # a symlink renamed from ".git" to a normal name, target unchanged: its blob is never exported (finding)
    out.append({"kind": "native", "revs": [{"parents": [], "tree": [f("aa", b"a"), l(".git", b"l-id", b"aa")]},
                                           {"parents": [0], "tree": [f("aa", b"a"), l("ee", b"l-id", b"aa")]}]})
    # pointless commit, revert to an earlier text, exec-only change, empty dir chain, ".git" directory with a file
    out.append({"kind": "native", "revs": [
        {"parents": [], "tree": [f("aa", b"a"), d("dd", b"d"), d("dd/ee", b"e")]},
        {"parents": [0], "tree": [f("aa", b"a"), d("dd", b"d"), d("dd/ee", b"e")]},
        {"parents": [1], "tree": [f("aa", b"a", b"B\n"), d("dd", b"d"), d("dd/ee", b"e"), f("dd/ee/zz", b"z", b"")]},
        {"parents": [2], "tree": [f("aa", b"a", b"A\n", True), d("dd", b"d"), d("dd/ee", b"e")]},
        {"parents": [3], "tree": [f("aa", b"a", b"A\n", True), d(".git", b"g"), f(".git/aa", b"ga"), d("dd", b"d")]},
    ]})
    # a leaf moved out of a directory that keeps another child, as the ONLY change (file; symlink; nested; into a sibling)
    b0 = [d("dd", b"d"), f("dd/aa", b"a"), f("dd/bb", b"b", b"B\n"), l("dd/ll", b"l", b"aa"), d("dd/ee", b"e"),
          f("dd/ee/xx", b"x", b"x \n"), f("dd/ee/yy", b"y", b""), d("gg", b"g"), f("gg/zz", b"z", b"\xc3\xa9\n")]
    mv = lambda t, old, new: [[new if e[0] == old else e[0]] + list(e[1:]) for e in t]
    b1 = mv(b0, "dd/bb", "bb")
    b2 = mv(b1, "dd/ll", "gg/ll")
    b3 = mv(b2, "dd/ee/yy", "dd/yy")
    b4 = mv(b3, "gg/zz", "dd/ee/zz")
    out.append({"kind": "native", "revs": [{"parents": [], "tree": b0}, {"parents": [0], "tree": b1},
                                           {"parents": [1], "tree": b2}, {"parents": [2], "tree": b3},
                                           {"parents": [3], "tree": b4}]})
    # regression (C35-renamed-dir-tree-missing, fixed by 326cdf8): a directory is renamed and loses a child in one revision
    out.append({"kind": "native", "revs": [
        {"parents": [], "tree": [d("dd", b"d"), f("dd/aa", b"a"), f("dd/bb", b"b", b"B\n")]},
        {"parents": [0], "tree": [f("bb", b"b", b"B\n"), d("ee", b"d"), f("ee/aa", b"a")]}]})
    # an entry is removed and another one takes its path in the same revision: a directory with untouched contents,
    # a symlink, a file; at the top level and inside a directory
    c0 = [f("src", b"s", b"S\n"), d("lib", b"L"), f("lib/aa", b"a"), f("lib/bb", b"b", b"B\n"), l("ln", b"n", b"lib"),
          d("top", b"T"), f("top/xx", b"x", b"x \n"), d("top/sub", b"U"), f("top/sub/yy", b"y", b""), f("zz", b"z", b"Z\n")]
    c1 = [d("src", b"L"), f("src/aa", b"a"), f("src/bb", b"b", b"B\n"), l("ln", b"n", b"lib"),
          d("top", b"T"), f("top/xx", b"x", b"x \n"), d("top/sub", b"U"), f("top/sub/yy", b"y", b""), f("zz", b"z", b"Z\n")]
    c2 = [d("src", b"L"), f("src/aa", b"a"), f("src/bb", b"b", b"B\n"),
          d("top", b"T"), f("top/xx", b"x", b"x \n"), d("top/sub", b"U"), f("top/sub/yy", b"y", b""), l("zz", b"n", b"lib")]
    c3 = [d("src", b"L"), f("src/aa", b"a"), f("src/bb", b"b", b"B\n"),
          d("top", b"T"), d("top/xx", b"U"), f("top/xx/yy", b"y", b""), l("zz", b"n", b"lib")]
    c4 = [d("src", b"L"), f("src/bb", b"b", b"B\n"),
          d("top", b"T"), d("top/xx", b"U"), f("top/xx/yy", b"y", b""), f("zz", b"a")]
    out.append({"kind": "native", "revs": [{"parents": [], "tree": c0}, {"parents": [0], "tree": c1}, {"parents": [1], "tree": c2},
                                           {"parents": [2], "tree": c3}, {"parents": [3], "tree": c4}]})
    # a merge that changes nothing relative to its left parent (root tree must come from parent 0, not parent 1)
    out.append({"kind": "native", "revs": [
        {"parents": [], "tree": [f("aa", b"a"), f("bb", b"b", b"B\n")]},
        {"parents": [0], "tree": [f("aa", b"a", b"A1\n"), f("bb", b"b", b"B\n")]},
        {"parents": [0], "tree": [f("aa", b"a"), f("bb", b"b", b"B2\n")]},
        {"parents": [1, 2], "tree": [f("aa", b"a", b"A1\n"), f("bb", b"b", b"B\n")]},
    ]})
    # git-origin: symlink, nested, non-NFC name, merge
    g0 = [[M_REG, b"aa", b"1\n"], [M_REG, b"counter", b"0\n"], [M_DIR, b"dd", [[M_REG, b"bb", b"B\n"], [M_LNK, b"ll", b"../aa"]]]]
    g1 = [[M_EXE, b"aa", b"1\n"], [M_REG, b"counter", b"1\n"], [M_DIR, b"dd", [[M_REG, b"bb", b"B\n"], [M_LNK, b"ll", b"../aa"]]]]
    g2 = [[M_REG, b"aa", b"2\n"], [M_REG, b"counter", b"2\n"], [M_DIR, b"dd", [[M_REG, b"bb", b"B\n"]]], ["é".encode(), None, None]]
    g2[3] = [M_REG, "e\u0301".encode(), b"\xc3\xa9\n"]
    g3 = [[M_EXE, b"aa", b"2\n"], [M_REG, b"counter", b"3\n"], [M_DIR, b"dd", [[M_REG, b"bb", b"B\n"]]]]
    out.append({"kind": "git", "commits": [{"parents": [], "tree": g0}, {"parents": [0], "tree": g1},
                                           {"parents": [0], "tree": _git_sorted(g2)}, {"parents": [1, 2], "tree": g3}]})
    # symlink <-> regular file with the identical blob, back and forth, also with the exec bit, also in a subdirectory
    k = lambda m1, m2, i: [[M_REG, b"counter", b"%d\n" % i], [M_DIR, b"dd", [[m2, b"tt", b"../aa"]]], [m1, b"ll", b"aa"]]
    out.append({"kind": "git", "commits": [{"parents": [], "tree": _git_sorted(k(M_LNK, M_REG, 0))},
                                           {"parents": [0], "tree": _git_sorted(k(M_REG, M_REG, 1))},
                                           {"parents": [1], "tree": _git_sorted(k(M_LNK, M_LNK, 2))},
                                           {"parents": [2], "tree": _git_sorted(k(M_EXE, M_REG, 3))},
                                           {"parents": [3], "tree": _git_sorted(k(M_LNK, M_EXE, 4))}]})
    # regression (C35-fetch-find-source-paths, fixed by fab1455): a single-character file modified in a non-root commit
    out.append({"kind": "git",
                "commits": [{"parents": [], "tree": [[M_REG, b"a", b"1"]]}, {"parents": [0], "tree": [[M_REG, b"a", b"2"]]}]})
    out.append({"kind": "crash", "what": "unusual-modes-bytes-keys",
                "commits": [{"parents": [], "tree": [[0o100664, b"aa", b"1"]]}]})
    out.append({"kind": "crash", "what": "unusual-modes-bytes-keys",
                "commits": [{"parents": [], "tree": [[M_REG, b"aa", b"1"]]},
                            {"parents": [0], "tree": [[M_REG, b"aa", b"1"], [M_DIR, b"dd", [[0o100600, b"bb", b"2"]]]]}]})
    return out


def cases(rng, tier):
    nn, ng = (26, 14) if tier == "quick" else (300, 150)
    for i in range(nn):
        yield gen_native(rng, rng.randint(2, 4) if i % 3 else rng.randint(4, 6))
    for i in range(ng):
        yield gen_git(rng, rng.randint(2, 5))
    if tier != "quick":
        # more than one import batch (batch_size = 1000 in import_git_objects)
        commits = [{"parents": [] if i == 0 else [i - 1],
                    "tree": [[M_REG, b"counter", b"%d\n" % i], [M_REG if i % 2 else M_EXE, b"ff", b"x"]]}
                   for i in range(1003)]
        yield {"kind": "git", "commits": commits, "big": True}


# --------------------------------------------------------------------------------------
# implementation driver
# --------------------------------------------------------------------------------------

def setup(scratch):
    _state["dir"] = scratch


def _dir():
    if "dir" not in _state or not os.path.isdir(_state["dir"]):
        import tempfile
        _state["dir"] = tempfile.mkdtemp(prefix="verif-C35-lazy-")
        _state["lazy"] = True
    return _state["dir"]


def teardown():
    _drop_lazy()


def _drop_lazy():
    """a directory created outside setup() (shrink / --replay) is removed right after the call"""
    if _state.get("lazy"):
        shutil.rmtree(_state.pop("dir"), ignore_errors=True)
        _state["lazy"] = False


def _rid(i):
    return b"r%d" % i


def _fmt2a():
    from breezy import controldir
    return controldir.format_registry.make_controldir("2a")


def _build_native(base, revs):
    import breezy.bzr  # noqa
    import breezy.git  # noqa
    from breezy import controldir
    wt = controldir.ControlDir.create_standalone_workingtree(base, format=_fmt2a())
    for i, r in enumerate(revs):
        with wt.lock_write():
            for n in os.listdir(base):
                if n != ".bzr":
                    p = os.path.join(base, n)
                    if os.path.isdir(p) and not os.path.islink(p):
                        shutil.rmtree(p)
                    else:
                        os.unlink(p)
            parents = [_rid(p) for p in r["parents"]]
            vp = [p for p in wt.all_versioned_paths() if p]
            if vp:
                wt.unversion(vp)
            if parents:
                wt.branch.generate_revision_history(parents[0])
                # only the left-hand parent while the entries are added: with the merged parents already set, dirstate
                # refuses to add a file id that another parent has under a different path ("already added")
                wt.set_parent_ids(parents[:1])
            paths, ids, kinds = [], [], []
            for path, fid, kind, data, ex in sorted(r["tree"], key=lambda e: e[0].split("/")):
                full = os.path.join(base, path)
                if kind == "directory":
                    os.mkdir(full)
                elif kind == "symlink":
                    os.symlink(bytes(data).decode("utf-8"), full)
                else:
                    with open(full, "wb") as f:
                        f.write(bytes(data))
                    os.chmod(full, 0o755 if ex else 0o644)
                paths.append(path)
                ids.append(bytes(fid))
                kinds.append(kind)
            if paths:
                wt.add(paths, kinds, ids)
            if len(parents) > 1:
                wt.set_parent_ids(parents)
            wt.commit("m%d" % i, rev_id=_rid(i), timestamp=1000000000 + i, timezone=0, committer="c <c@example.com>",
                      allow_pointless=True)
    return wt.branch


def _expand(lookup, sha, is_tree):
    """object id -> nested structure [[mode, name, sub]...] / blob bytes, through `lookup`"""
    o = lookup(sha)
    if not is_tree:
        return o.data
    return [[mode, name, _expand(lookup, s, stat.S_ISDIR(mode))] for name, mode, s in o.iteritems()]


def _missing_objects(store, tree_sha, path=b""):
    """paths of tree entries of the pushed git repository whose object is not in its object store"""
    if tree_sha not in store:
        return [path or b"<root>"]
    out = []
    for name, mode, sha in store[tree_sha].iteritems():
        p = path + b"/" + name if path else name
        if stat.S_ISDIR(mode):
            out.extend(_missing_objects(store, sha, p))
        elif sha not in store:
            out.append(p)
    return out


def _listing(tree):
    out = []
    for path, ie in tree.iter_entries_by_dir():
        if path == "":
            continue
        if ie.kind == "file":
            out.append([path, Tag("file"), tree.get_file_text(path), bool(tree.is_executable(path))])
        elif ie.kind == "symlink":
            out.append([path, Tag("symlink"), tree.get_symlink_target(path).encode("utf-8"), False])
        else:
            out.append([path, Tag(ie.kind), b"", False])
    return _sorted_listing(out)


def _drop_empty_listing(listing):
    dirs_with_content = set()
    for e in listing:
        if str(e[1]) != "directory" and ".git" not in e[0].split("/"):
            parts = e[0].split("/")
            for k in range(1, len(parts)):
                dirs_with_content.add("/".join(parts[:k]))
    return [e for e in listing if (str(e[1]) != "directory" or e[0] in dirs_with_content)
            and ".git" not in e[0].split("/")]


def _ktree(tree):
    """real RevisionTree -> nested [fid, rev, kind, data, exec, [[name, child]...]] for the model"""
    def node(path, ie):
        if ie.kind == "directory":
            ch = []
            for c in tree.iter_child_entries(path):
                ch.append([c.name, node((path + "/" if path else "") + c.name, c)])
            ch.sort(key=lambda nc: nc[0])
            return [ie.file_id, ie.revision, "directory", b"", False, ch]
        if ie.kind == "symlink":
            return [ie.file_id, ie.revision, "symlink", tree.get_symlink_target(path).encode("utf-8"), False, []]
        return [ie.file_id, ie.revision, "file", tree.get_file_text(path), bool(ie.executable), []]
    root = next(iter(tree.iter_entries_by_dir()))[1]
    return node("", root)


def _impl_native(inp):
    from breezy.branch import Branch
    from breezy import controldir
    from breezy.git.object_store import BazaarObjectStore, _tree_to_objects
    from breezy.git.cache import DictGitShaMap
    _state["n"] += 1
    base = os.path.join(_dir(), "n%d" % _state["n"])
    os.mkdir(base)
    try:
        try:
            br = _build_native(os.path.join(base, "w"), inp["revs"])
        except Exception as e:      # the generator's business, never a finding about the export
            raise RuntimeError("cannot materialise the history: %s: %s" % (type(e).__name__, str(e)[:120]))
        repo = br.repository
        store = BazaarObjectStore(repo)
        per_rev = []
        ktrees = []
        with repo.lock_read(), store.lock_read():
            for i, r in enumerate(inp["revs"]):
                rev = repo.get_revision(_rid(i))
                if list(rev.parent_ids) != [_rid(p) for p in r["parents"]]:
                    raise RuntimeError("history not materialised as given: r%d has parents %r" % (i, rev.parent_ids))
                tree = repo.revision_tree(_rid(i))
                ktrees.append(_ktree(tree))
                ptrees = [repo.revision_tree(p) for p in rev.parent_ids]
                # (1) the anchored generator, called exactly as _revision_to_objects calls it
                ys = list(_tree_to_objects(tree, ptrees, store._cache.idmap, {}, None, None))
                yields = sorted(p.encode("utf-8") for p, o, k in ys)
                # (2) warm incremental path through the store
                csha = store._lookup_revision_sha1(_rid(i))
                commit = store[csha]
                incr = _expand(store.__getitem__, commit.tree, True)
                direct_root = [o.id for p, o, k in ys if p == ""]
                # (3) cold from-scratch conversion
                objs = {}
                root = None
                for p, o, k in _tree_to_objects(tree, [], DictGitShaMap(), {}, None, None):
                    objs[o.id] = o
                    if p == "":
                        root = o
                if root is None:
                    from dulwich.objects import Tree
                    root = Tree()
                    objs[root.id] = root
                scratch = _expand(objs.__getitem__, root.id, True)
                ref = _ref_native_sha(_nest(r["tree"]))
                per_rev.append({"incr": incr, "yields": yields, "scratch": scratch,
                                "native_listing": _drop_empty_listing(_listing(tree)),
                                "incr_sha": commit.tree, "scratch_sha": root.id, "ref_sha": ref,
                                "direct_root_ok": (not direct_root) or direct_root[0] == commit.tree})
        # round trip: dpush into a bare git repository, pull back into a fresh 2a branch
        gd = controldir.ControlDir.create(os.path.join(base, "g"), format=controldir.format_registry.make_controldir("git-bare"))
        gd.create_repository()
        gbr = gd.create_branch()
        res = br.push(gbr, lossy=True)
        gbr = Branch.open(os.path.join(base, "g"))
        revidmap = res.revidmap
        grepo = gbr.repository
        corrupt = False
        for i, d in enumerate(per_rev):
            ent = revidmap.get(_rid(i))
            d["git_tree_ok"] = None
            d["git_missing"] = []
            d["rt_listing"] = None
            if ent is not None:
                gtree = grepo._git.object_store[ent[0]].tree
                d["git_tree_ok"] = gtree == d["incr_sha"]
                d["git_missing"] = _missing_objects(grepo._git.object_store, gtree)
                corrupt = corrupt or bool(d["git_missing"])
        _memo[_key(inp)] = ktrees
        if corrupt:
            return {"revs": per_rev}      # fetching a repository with dangling references back is pointless
        b2 = controldir.ControlDir.create_branch_convenience(os.path.join(base, "b2"), format=_fmt2a(), force_new_tree=False)
        b2.pull(gbr)
        with b2.repository.lock_read():
            for i, d in enumerate(per_rev):
                ent = revidmap.get(_rid(i))
                if ent is not None:
                    d["rt_listing"] = _listing(b2.repository.revision_tree(ent[1]))
        _memo[_key(inp)] = ktrees
        return {"revs": per_rev}
    finally:
        shutil.rmtree(base, ignore_errors=True)


def _build_git(path, commits):
    from dulwich.repo import Repo
    from dulwich.objects import Blob, Tree, Commit
    os.mkdir(path)
    r = Repo.init_bare(path)

    def mk(tree):
        t = Tree()
        for mode, name, val in tree:
            if isinstance(val, list):
                t.add(bytes(name), mode, mk(val))
            else:
                b = Blob()
                b.data = bytes(val)
                r.object_store.add_object(b)
                t.add(bytes(name), mode, b.id)
        r.object_store.add_object(t)
        return t.id

    ids = []
    for i, c in enumerate(commits):
        o = Commit()
        o.tree = mk(c["tree"])
        o.parents = [ids[p] for p in c["parents"]]
        o.author = o.committer = b"A U Thor <a@example.com>"
        o.author_time = o.commit_time = 1000000000 + i
        o.author_timezone = o.commit_timezone = 0
        o.message = b"c%d\n" % i
        r.object_store.add_object(o)
        ids.append(o.id)
    heads = set(range(len(commits))) - {p for c in commits for p in c["parents"]}
    for h in sorted(heads):
        r.refs[b"refs/heads/b%d" % h] = ids[h]
    r.refs.set_symbolic_ref(b"HEAD", b"refs/heads/b%d" % max(heads))
    trees = [r[i].tree for i in ids]
    r.close()
    return ids, trees


def _impl_git(inp):
    import breezy.bzr  # noqa
    import breezy.git  # noqa
    from breezy.branch import Branch
    from breezy.repository import Repository
    from breezy import controldir
    from breezy.git.object_store import BazaarObjectStore
    from breezy.git.mapping import default_mapping, extract_unusual_modes
    _state["n"] += 1
    base = os.path.join(_dir(), "g%d" % _state["n"])
    os.mkdir(base)
    try:
        ids, trees = _build_git(os.path.join(base, "g"), inp["commits"])
        grepo = Repository.open(os.path.join(base, "g"))
        b = controldir.ControlDir.create_branch_convenience(os.path.join(base, "b"), format=_fmt2a(), force_new_tree=False)
        b.repository.fetch(grepo)
        revids = [default_mapping.revision_id_foreign_to_bzr(i) for i in ids]
        big = inp.get("big")
        sample = range(len(ids)) if not big else [0, 1, 999, 1000, 1001, 1002]
        per = {}
        repo = b.repository
        with repo.lock_read():
            for i in sample:
                tree = repo.revision_tree(revids[i])
                um = extract_unusual_modes(repo.get_revision(revids[i]))
                per[i] = {"listing": _listing(tree),
                          "um": sorted([p.encode("utf-8") if isinstance(p, str) else p, m] for p, m in um.items())}
            # warm: ids recorded during the import
            store = BazaarObjectStore(repo)
            with store.lock_read():
                for i in sample:
                    per[i]["warm_ok"] = store._lookup_revision_sha1(revids[i]) == ids[i]
        # cold re-export: throw the id map away
        repo = None
        shutil.rmtree(os.path.join(base, "b", ".bzr", "repository", "git"), ignore_errors=True)
        repo = Repository.open(os.path.join(base, "b"))
        store = BazaarObjectStore(repo)
        with repo.lock_write(), store.lock_write():
            store._update_sha_map()
            for i in sample:
                csha = store._cache.idmap.lookup_commit(revids[i])
                c = store[csha]
                per[i]["cold_commit_ok"] = csha == ids[i]
                per[i]["cold_tree_ok"] = c.tree == trees[i]
                per[i]["ref_ok"] = _ref_git_sha(inp["commits"][i]["tree"]) == trees[i]
                per[i]["reexport"] = _expand(store.__getitem__, c.tree, True)
        return {"commits": [per[i] for i in sample], "sample": list(sample)}
    finally:
        shutil.rmtree(base, ignore_errors=True)


def _key(inp):
    return hashlib.sha1(repr(inp).encode()).hexdigest()


def impl(inp):
    try:
        return _impl(inp)
    finally:
        _drop_lazy()


def _impl(inp):
    try:
        if inp["kind"] == "native":
            return _impl_native(inp)
        return _impl_git(inp)
    except BaseException as e:
        # the known crash classes (see notes/C35.md) and panics of the Rust inventory code (pyo3 PanicException is a
        # BaseException); anything else is a driver error
        if type(e).__name__ not in ("TypeError", "AssertionError", "PanicException", "KeyError"):
            raise
        import traceback
        tb = traceback.extract_tb(e.__traceback__)
        where = [f.name for f in tb if "/breezy/" in f.filename]
        return Err(type(e).__name__ + ":" + (where[-1] if where else "?"))


def impl_obs(inp, obs):
    """the part of the observation the model predicts"""
    if isinstance(obs, Err):
        return obs
    if inp["kind"] == "native":
        return [[d["incr"], d["yields"], d["scratch"], d["native_listing"],
                 d["rt_listing"]] for d in obs["revs"]]
    return [[d["listing"], d["um"], d["reexport"]] for d in obs["commits"]]


# --------------------------------------------------------------------------------------
# model terms
# --------------------------------------------------------------------------------------

def _coq_ktree(n):
    fid, rev, kind, data, ex, ch = n
    k = f"({coq_bytes(bytes(fid))}, {coq_bytes(bytes(rev))})"
    if kind == "directory":
        return f"(KDir {k} " + coq_list([f"({coq_bytes(name)}, {_coq_ktree(c)})" for name, c in ch]) + ")"
    if kind == "symlink":
        return f"(KLink {k} {coq_bytes(bytes(data))})"
    return f"(KFile {k} {coq_bytes(bytes(data))} {coq_bool(ex)})"


def _coq_gobj(tree):
    return "(GTree " + coq_list([
        f"({mode}%N, {coq_bytes(bytes(name))}, " + (_coq_gobj(val) if isinstance(val, list) else f"GBlob {coq_bytes(bytes(val))}") + ")"
        for mode, name, val in tree]) + ")"


def model_term(inp):
    if inp["kind"] == "crash":
        return None
    if inp["kind"] == "native":
        kt = _memo.get(_key(inp))
        if kt is None:
            return None     # the implementation run failed; the oracle reports it
        revs = [f"({coq_list([coq_nat(p) for p in r['parents']])}, {_coq_ktree(k)})" for r, k in zip(inp["revs"], kt)]
        return "run_native " + coq_list(revs)
    commits = inp["commits"]
    if inp.get("big"):
        commits = [commits[i] for i in (0, 1, 999, 1000, 1001, 1002)]
    return "run_git " + coq_list([_coq_gobj(c["tree"]) for c in commits])


# --------------------------------------------------------------------------------------
# oracle, findings
# --------------------------------------------------------------------------------------

def oracle(inp, obs):
    if isinstance(obs, Err):
        return "conversion raised " + str(obs)
    if inp["kind"] == "native":
        for i, (r, d) in enumerate(zip(inp["revs"], obs["revs"])):
            if d["incr_sha"] != d["scratch_sha"]:
                return f"revision {i}: incremental tree {d['incr_sha']!r} differs from the from-scratch tree {d['scratch_sha']!r}"
            if d["scratch_sha"] != d["ref_sha"]:
                return f"revision {i}: exported tree {d['scratch_sha']!r} differs from the reference {d['ref_sha']!r}"
            if not d["direct_root_ok"]:
                return f"revision {i}: root yielded by _tree_to_objects differs from the stored commit's tree"
            if d.get("git_missing"):
                return f"revision {i}: the pushed git repository lacks the objects of {d['git_missing']!r}"
            if d["rt_listing"] is None:
                return f"revision {i} was not carried by push"
            want = _sorted_listing(_ref_roundtrip_listing(_nest(r["tree"])))
            if d["rt_listing"] != want:
                return f"revision {i}: tree after push+fetch {d['rt_listing']!r} differs from the original {want!r}"
            if d["git_tree_ok"] is False:
                return f"revision {i}: tree in the pushed git repository differs from the exported tree"
        return None
    commits = inp["commits"]
    sample = obs["sample"]
    for j, d in zip(sample, obs["commits"]):
        want = _sorted_listing([[p.decode("utf-8"), k, v, x] for p, k, v, x in _ref_git_listing(commits[j]["tree"])])
        if d["listing"] != want:
            return f"commit {j}: imported tree {d['listing']!r} differs from the git tree {want!r}"
        for k in ("ref_ok", "warm_ok", "cold_commit_ok", "cold_tree_ok"):
            if not d[k]:
                return f"commit {j}: {k} is false (re-exported SHA differs from the original)"
    return None


def _has_unusual_mode(commits):
    def un(t):
        return any(un(v) if isinstance(v, list) else m not in (M_REG, M_EXE, M_LNK) for m, n, v in t)
    return any(un(c["tree"]) for c in commits)


def finding_matches(fid, inp, obs, why):
    if fid == "C35-unusual-modes-bytes-keys":
        # export_unusual_file_modes returns bytes paths: re-exporting a revision with a non-standard git file
        # mode mixes str and bytes in _tree_to_objects (cold) or loses the mode (_check_expected_sha, warm)
        return (inp["kind"] in ("git", "crash") and isinstance(obs, Err)
                and (str(obs).startswith("TypeError:_tree_to_objects") or str(obs).startswith("AssertionError:_check_expected_sha"))
                and _has_unusual_mode(inp["commits"]))
    return False


def nontrivial(inp, obs):
    if isinstance(obs, Err):
        return False
    if inp["kind"] == "native":
        return any(len(d["yields"]) < len(_flat_count(d["scratch"])) for d in obs["revs"][1:])
    return len(inp["commits"]) > 1


def _flat_count(struct):
    out = [None]
    for m, n, s in struct:
        out.extend(_flat_count(s) if isinstance(s, list) else [None])
    return out


def distribution(inputs, observations):
    d = {"native": 0, "git": 0, "crash": 0, "revisions": 0, "merges": 0, "errors": 0,
         "symlinks": 0, "exec": 0, "empty_dirs_dropped": 0, "dotgit": 0, "unusual_modes": 0, "pointless_reuse": 0}
    for i, o in zip(inputs, observations):
        d[i["kind"]] += 1
        if isinstance(o, Err):
            d["errors"] += 1
            continue
        if i["kind"] == "native":
            for r, x in zip(i["revs"], o["revs"]):
                d["revisions"] += 1
                d["merges"] += len(r["parents"]) > 1
                d["symlinks"] += any(e[2] == "symlink" for e in r["tree"])
                d["exec"] += any(e[4] for e in r["tree"])
                d["dotgit"] += any(".git" in e[0].split("/") for e in r["tree"])
                d["empty_dirs_dropped"] += len(_listing_dirs(r["tree"])) > sum(1 for e in x["native_listing"] if str(e[1]) == "directory")
                d["pointless_reuse"] += x["yields"] == []
        else:
            for c, x in zip(i["commits"], o["commits"]):
                d["revisions"] += 1
                d["merges"] += len(c["parents"]) > 1
                d["unusual_modes"] += bool(x["um"])
    return d


def _listing_dirs(tree):
    return [e for e in tree if e[2] == "directory"]


def shrink(inp, fails):
    if inp["kind"] != "native":
        cs = inp["commits"]
        while len(cs) > 2 and not inp.get("big"):
            cand = dict(inp, commits=cs[:-1])
            if all(p < len(cs) - 1 for c in cs[:-1] for p in c["parents"]) and fails(cand):
                cs = cs[:-1]
                inp = cand
            else:
                break
        return inp
    revs = inp["revs"]
    while len(revs) > 2:
        cand = dict(inp, revs=revs[:-1])
        if fails(cand):
            revs = revs[:-1]
            inp = cand
        else:
            break
    return inp
