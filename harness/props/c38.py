"""C38 -- All git SHA-map cache backends answer identically (tie H, P-spec).

A case is a script over per-revision cache updates:
    begin | add <update> | commit | abort | reopen
followed by one fixed battery of queries run on every backend:
    lookup_commit, lookup_blob_id, lookup_tree_id, lookup_git_sha (every key/SHA of the script plus
    unknown ones), revids, sha1s, missing_revisions.
Updates come from (a) real histories: a generated native 2a history is converted by the real
BazaarObjectStore (_update_sha_map -> _revision_to_objects -> _tree_to_objects) with a recording
CacheUpdater, so the add_object sequences are exactly what the code produces; (b) synthetic updates
over a tiny id space (keys re-added, shared SHAs, empty testaments ...).
Backends: DictGitShaMap, SqliteGitShaMap (file, closed and re-opened), IndexGitShaMap (transport,
re-opened), TdbGitShaMap (only its Python logic: the `tdb` extension module is NOT installed here, a
dict-with-transactions stand-in is injected as `tdb`; reported in the evidence).
The model (Model/ShaMap.v) predicts every answer of every backend; the oracle compares every backend
with an independent reference specification and classifies each deviation.
"""
import hashlib
import os
import shutil
import sys
import types

from vlib import Tag, Err, coq_bytes, coq_bool, coq_list

PROP = "C38"
COQ = {
    "property_file": "Properties/C38.v",
    "imports": "From BV Require Import Lib.Bytes Lib.Obs Model.ShaMap.",
}
META = {
    "level": "translation_validation",
    "title": "All git SHA-map cache backends answer identically",
    "technique": ("Coq: abstract specification + faithful state machines of the four backends, spec laws, guarded agreement, "
                  "machine-checked refutations; differential run of all backends on update scripts recorded from real "
                  "conversions and on synthetic scripts, with close/re-open"),
    "level_text": ("P-spec: the specification's laws (commit SHA leads back to the revision; missing_revisions = rs minus "
                   "revids; re-opening a committed backend changes no answer) are theorems; agreement of Dict, Index and Tdb "
                   "with the specification on lookup_commit/lookup_blob_id is proved under the guard 'no key is re-added with "
                   "a different SHA'; four refutations of the unguarded statement are machine-checked and replayed (all four are "
                   "still-known design divergences; the sqlite sha1s() crash was repaired by 5287cc0). All other "
                   "agreement (Sqlite, lookup_git_sha, revids, sha1s, missing_revisions, write groups) rests on the "
                   "differential run."),
    "level_note": ("Trusted: Coq kernel, vm_compute, the harness, sqlite3 REPLACE/unique-index semantics and bzrformats "
                   "BTreeBuilder/BTreeGraphIndex/CombinedGraphIndex (as modelled: association lists), a stand-in for the "
                   "missing `tdb` module (dict with transactions)."),
    "design_ref": "DESIGN.md §5 C38",
    "trusted_base": ["hand model coq/Model/ShaMap.v of breezy/git/cache.py",
                     "sqlite3, bzrformats btree index (environment, modelled as association lists)",
                     "harness/props/c38.py incl. the tdb stand-in"],
    "assumptions": ["one CacheUpdater per revision, finished before the next starts; updates happen inside a write group",
                    "file ids and revision ids contain neither NUL, space nor newline (Index/Tdb value encoding)",
                    "tdb module absent: TdbGitShaMap/TdbCacheUpdater run on a dict-with-transactions stand-in",
                    "lookup_tree_id is documented as optional (NotImplementedError on Index/Tdb) and excluded there"],
    "rule": "scripts of 1-7 updates with 1-9 objects each; non-trivial = at least two updates and one re-open",
}
SHARD = 40

_state = {"n": 0, "tdb": None}
_memo = {}


def _key(inp):
    return hashlib.sha1(repr(sorted(inp.items(), key=lambda kv: kv[0])).encode()).hexdigest()


# --------------------------------------------------------------------------------------
# reference specification (oracle vocabulary, independent of breezy and of Coq)
# --------------------------------------------------------------------------------------

def _ekey(e):
    if str(e[0]) == "commit":
        return b"c" + e[1]
    return (b"b" if str(e[0]) == "blob" else b"t") + e[1] + b"\0" + e[2]


def _canon_entries(es):
    d = {}
    for e in es:
        d[_ekey(e)] = e
    return [d[k] for k in sorted(d)]


def _spec(updates):
    commits, blobs, trees = {}, {}, {}
    for u in updates:
        for is_tree, sha, fid, rev in u["objs"]:
            (trees if is_tree else blobs)[(bytes(fid), bytes(rev))] = bytes(sha)
        commits[bytes(u["revid"])] = (bytes(u["sha"]), bytes(u["tree"]), u["test"])
    return commits, blobs, trees


def _spec_git(spec, sha):
    commits, blobs, trees = spec
    es = [[Tag("commit"), r, t, v] for r, (s, t, v) in commits.items() if s == sha]
    es += [[Tag("blob"), k[0], k[1]] for k, s in blobs.items() if s == sha]
    es += [[Tag("tree"), k[0], k[1]] for k, s in trees.items() if s == sha]
    return _canon_entries(es) if es else None


def _consistent(updates):
    seen = {}
    for u in updates:
        for is_tree, sha, fid, rev in u["objs"]:
            k = ("o", bool(is_tree), bytes(fid), bytes(rev))
            if seen.setdefault(k, bytes(sha)) != bytes(sha):
                return False
        k = ("c", bytes(u["revid"]))
        v = (bytes(u["sha"]), bytes(u["tree"]), u["test"])
        if seen.setdefault(k, v) != v:
            return False
    return True


def _visible_all(ops):
    return [o[1] for o in ops if o[0] == "add"]


def _well_formed(ops):
    """every add inside begin..commit, no abort, nothing pending at a reopen or at the end"""
    open_ = False
    for o in ops:
        if o[0] == "begin":
            if open_:
                return False
            open_ = True
        elif o[0] == "add":
            if not open_:
                return False
        elif o[0] == "commit":
            if not open_:
                return False
            open_ = False
        elif o[0] == "abort":
            return False
        elif o[0] == "reopen" and open_:
            return False
    return not open_


def _queries(inp):
    ups = _visible_all(inp["ops"])
    revids, bkeys, tkeys, shas = [], [], [], []
    for u in ups:
        if bytes(u["revid"]) not in revids:
            revids.append(bytes(u["revid"]))
        for s in (bytes(u["sha"]), bytes(u["tree"])):
            if s not in shas:
                shas.append(s)
        for is_tree, sha, fid, rev in u["objs"]:
            k = (bytes(fid), bytes(rev))
            if k not in (tkeys if is_tree else bkeys):
                (tkeys if is_tree else bkeys).append(k)
            if bytes(sha) not in shas:
                shas.append(bytes(sha))
    unknown_sha = b"f" * 40
    qb = bkeys + [(b"nofile", b"norev")]
    qt = tkeys + [(b"nofile", b"norev")]
    if inp.get("cross"):
        qb = qb + tkeys
        qt = qt + bkeys
    return {"qr": revids + [b"norev"], "qb": qb, "qt": qt, "qs": shas + [unknown_sha],
            "qm": revids + [b"norev", b"norev2"]}


# --------------------------------------------------------------------------------------
# generators
# --------------------------------------------------------------------------------------

def _hex(tag, i):
    return hashlib.sha1(b"%s%d" % (tag, i)).hexdigest().encode()


def _gen_synthetic(rng, n, messy):
    ups = []
    for i in range(n):
        revid = b"rev%d" % (rng.randrange(n) if messy and rng.random() < 0.3 else i)
        objs = []
        for _ in range(rng.randint(0, 4)):
            is_tree = rng.random() < 0.35
            fid = rng.choice([b"fa", b"fb", b"fc"]) if not is_tree else rng.choice([b"TREE_ROOT", b"da"])
            if messy and rng.random() < 0.1:
                fid = rng.choice([b"fa", b"da"])
            rev = rng.choice([revid, b"rev%d" % rng.randrange(n)])
            sha = _hex(b"t" if is_tree else b"b", rng.randrange(3 if messy else 40))
            if not messy:
                # consistent: the SHA is a function of (kind, key)
                sha = _hex(b"t" if is_tree else b"b", hash((is_tree, fid, rev)) % 1000)
            objs.append([is_tree, sha, fid, rev])
        tree = _hex(b"t", rng.randrange(4))
        sha = _hex(b"c", rng.randrange(1000)) if messy else _hex(b"c", hash((revid, tree)) % 100000)
        test = rng.choice([None, b"abc", b"t" * 40])
        if not messy:
            test = None if hash(revid) % 2 else b"t" * 40
        ups.append({"revid": revid, "sha": sha, "tree": tree, "test": test, "objs": objs})
    return ups


def _bracket(rng, ups, mode):
    ops = []
    if mode == "each":
        for u in ups:
            ops += [["begin"], ["add", u], ["commit"]]
            if rng.random() < 0.5:
                ops.append(["reopen"])
    elif mode == "batch":
        i = 0
        while i < len(ups):
            k = rng.randint(1, 3)
            ops.append(["begin"])
            ops += [["add", u] for u in ups[i:i + k]]
            ops.append(["commit"])
            ops.append(["reopen"])
            i += k
    elif mode == "abort":
        i = 0
        while i < len(ups):
            k = rng.randint(1, 2)
            ops.append(["begin"])
            ops += [["add", u] for u in ups[i:i + k]]
            ops.append(["abort"] if rng.random() < 0.4 else ["commit"])
            if rng.random() < 0.5:
                ops.append(["reopen"])
            i += k
    elif mode == "pending":
        ops.append(["begin"])
        ops += [["add", u] for u in ups[:-1]]
        ops.append(["commit"])
        ops += [["begin"], ["add", ups[-1]]]
        if rng.random() < 0.5:
            ops.append(["reopen"])
    return ops


def _real_updates(rng, nrev):
    """convert a generated native history with the real code and record what the CacheUpdater receives"""
    import props.c35 as c35
    inp = c35.gen_native(rng, nrev, allow_dotgit=False)
    return {"kind": "real", "revs": inp["revs"]}


def corpus():
    sha = lambda c: (c * 40)
    u1 = {"revid": b"r1", "sha": sha(b"c"), "tree": sha(b"b"), "test": None,
          "objs": [[False, sha(b"a"), b"f", b"r1"], [False, sha(b"a"), b"g", b"r1"], [True, sha(b"b"), b"TREE_ROOT", b"r1"]]}
    u2 = {"revid": b"r2", "sha": sha(b"d"), "tree": sha(b"b"), "test": b"t" * 40, "objs": [[True, sha(b"b"), b"TREE_ROOT", b"r2"]]}
    u1x = {"revid": b"r1", "sha": sha(b"e"), "tree": sha(b"b"), "test": None, "objs": []}
    wf = lambda ups: [x for u in ups for x in (["begin"], ["add", u], ["commit"])]
    return [
        {"kind": "script", "ops": wf([u1])},                                       # multi-entry (+ regression: sqlite sha1s)
        {"kind": "script", "ops": wf([u1, u2]) + [["reopen"]]},                    # sqlite tree unique
        {"kind": "script", "ops": wf([u1]), "cross": True},                        # dict namespace
        {"kind": "script", "ops": wf([u1, u1x])},                                  # re-added revision id
        {"kind": "script", "ops": [["begin"], ["add", u1], ["reopen"]]},           # pending lost
        {"kind": "script", "ops": [["begin"], ["add", u1], ["abort"], ["begin"], ["add", u2], ["commit"]]},
        {"kind": "script", "ops": []},
        # regression for C38-sqlite-sha1s (fixed by 5287cc0): no backend deviates here
        {"kind": "script",
         "ops": wf([{"revid": b"r9", "sha": sha(b"9"), "tree": sha(b"8"), "test": None,
                     "objs": [[False, sha(b"7"), b"f", b"r9"], [True, sha(b"8"), b"TREE_ROOT", b"r9"]]}]) + [["reopen"]]},
    ]


def cases(rng, tier):
    nreal, nsyn = (10, 70) if tier == "quick" else (100, 1000)
    for i in range(nreal):
        yield dict(_real_updates(rng, rng.randint(2, 5)), mode=rng.choice(["each", "batch", "batch", "abort", "pending"]),
                   seed=rng.randrange(1 << 30), cross=(i % 7 == 3))
    for i in range(nsyn):
        messy = i % 3 == 0
        ups = _gen_synthetic(rng, rng.randint(1, 6), messy)
        mode = rng.choice(["each", "batch", "batch", "abort", "pending"]) if i % 4 else "batch"
        yield {"kind": "script", "ops": _bracket(rng, ups, mode), "cross": i % 11 == 5}


# --------------------------------------------------------------------------------------
# implementation driver
# --------------------------------------------------------------------------------------

def setup(scratch):
    _state["dir"] = scratch


def _dir():
    if "dir" not in _state or not os.path.isdir(_state["dir"]):
        import tempfile
        _state["dir"] = tempfile.mkdtemp(prefix="verif-C38-lazy-")
        _state["lazy"] = True
    return _state["dir"]


def teardown():
    _drop_lazy()


def _drop_lazy():
    """a directory created outside setup() (shrink / --replay) is removed right after the call"""
    if _state.get("lazy"):
        shutil.rmtree(_state.pop("dir"), ignore_errors=True)
        _state["lazy"] = False


class _TdbStub(dict):
    """stand-in for tdb.Tdb: a dict whose content persists per path when a transaction commits"""
    _store = {}

    def __init__(self, path, hash_size=0, flags=0, open_flags=0):
        super().__init__(_TdbStub._store.get(path, {}))
        self._path = path
        self._snap = None

    def transaction_start(self):
        self._snap = dict(self)

    def transaction_commit(self):
        self._snap = None
        _TdbStub._store[self._path] = dict(self)

    def transaction_cancel(self):
        snap = self._snap
        self.clear()
        self.update(snap)
        self._snap = None


def _ensure_tdb():
    if _state["tdb"] is None:
        try:
            import tdb  # noqa
            _state["tdb"] = "real"
        except ImportError:
            m = types.ModuleType("tdb")
            m.Tdb = _TdbStub
            m.DEFAULT = 0
            sys.modules["tdb"] = m
            _state["tdb"] = "stub"
    return _state["tdb"]


class _Sha:
    def __init__(self, hexsha):
        self._h = hexsha

    def digest(self):
        return bytes.fromhex(self._h.decode())

    def hexdigest(self):
        return self._h.decode()


class _Obj:
    def __init__(self, type_name, hexsha, tree=None):
        self.type_name = type_name
        self.id = hexsha
        self.tree = tree

    def sha(self):
        return _Sha(self.id)


class _Rev:
    def __init__(self, revid):
        self.revision_id = revid
        self.parent_ids = ()


def _record_real(inp):
    """native history -> list of updates as the real conversion feeds them to a CacheUpdater"""
    import breezy.bzr  # noqa
    import breezy.git  # noqa
    import props.c35 as c35
    from breezy.git.object_store import BazaarObjectStore
    from breezy.git.cache import BzrGitCache, DictGitShaMap, DictCacheUpdater
    _state["n"] += 1
    base = os.path.join(_dir(), "h%d" % _state["n"])
    os.mkdir(base)
    try:
        c35._state["dir"] = _dir()
        br = c35._build_native(os.path.join(base, "w"), inp["revs"])
        log = []

        class Recorder(DictCacheUpdater):
            def __init__(self, cache, rev):
                super().__init__(cache, rev)
                self._log = {"revid": rev.revision_id, "objs": []}

            def add_object(self, obj, bzr_key_data, path):
                if isinstance(obj, tuple):
                    tn, hexsha = obj
                else:
                    tn, hexsha = obj.type_name.decode("ascii"), obj.id
                if tn == "commit":
                    self._log.update(sha=hexsha, tree=obj.tree, test=bzr_key_data.get("testament3-sha1"))
                elif bzr_key_data is not None:
                    self._log["objs"].append([tn == "tree", hexsha, bzr_key_data[0], bzr_key_data[1]])
                return super().add_object(obj, bzr_key_data, path)

            def finish(self):
                log.append(self._log)
                return super().finish()

        repo = br.repository
        store = BazaarObjectStore(repo)
        store._cache = BzrGitCache(DictGitShaMap(), Recorder)
        store.start_write_group = store._cache.idmap.start_write_group
        store.abort_write_group = store._cache.idmap.abort_write_group
        store.commit_write_group = store._cache.idmap.commit_write_group
        with repo.lock_read(), store.lock_read():
            store._update_sha_map()
        return log
    finally:
        shutil.rmtree(base, ignore_errors=True)


def _materialise(inp):
    """the script (list of ops) of a case; real histories are converted once and memoised on the input"""
    if inp["kind"] == "script":
        return inp
    if _key(inp) not in _memo:
        import random
        ups = _record_real(inp)
        ups = [{"revid": u["revid"], "sha": u["sha"], "tree": u["tree"], "test": u["test"], "objs": u["objs"]} for u in ups]
        _memo[_key(inp)] = {"kind": "script", "ops": _bracket(random.Random(inp["seed"]), ups, inp["mode"]),
                             "cross": inp.get("cross", False)}
    return _memo[_key(inp)]


def _canon(v):
    return bytes(v) if isinstance(v, (bytes, bytearray)) else (v.encode("ascii") if isinstance(v, str) else v)


def _ask(fn, *a):
    try:
        r = fn(*a)
        if hasattr(r, "__iter__") and not isinstance(r, (bytes, str, list, tuple, set, dict)):
            r = list(r)
        return r
    except KeyError:
        return None
    except NotImplementedError:
        return Tag("unsupported")
    except AttributeError:
        return Err("AttributeError")


def _entries(r):
    if r is None or isinstance(r, (Tag, Err)):
        return r
    out = []
    for tn, data in r:
        if tn == "commit":
            v = data[2].get("testament3-sha1") if len(data) > 2 else None
            out.append([Tag("commit"), _canon(data[0]), _canon(data[1]), _canon(v) if v is not None else None])
        else:
            out.append([Tag(tn), _canon(data[0]), _canon(data[1])])
    return _canon_entries(out)


def _battery(idmap, q):
    def setq(fn, *a):
        r = _ask(fn, *a)
        return r if isinstance(r, (Tag, Err)) or r is None else sorted({_canon(x) for x in r})
    return [
        [(_canon(x) if not isinstance(x, (Tag, Err)) and x is not None else x) for x in (_ask(idmap.lookup_commit, r) for r in q["qr"])],
        [(_canon(x) if not isinstance(x, (Tag, Err)) and x is not None else x) for x in (_ask(idmap.lookup_blob_id, *k) for k in q["qb"])],
        [(_canon(x) if not isinstance(x, (Tag, Err)) and x is not None else x) for x in (_ask(idmap.lookup_tree_id, *k) for k in q["qt"])],
        [_entries(_ask(idmap.lookup_git_sha, s)) for s in q["qs"]],
        setq(idmap.revids), setq(idmap.sha1s), setq(idmap.missing_revisions, list(q["qm"])),
    ]


def _apply(cache, u):
    up = cache.get_updater(_Rev(bytes(u["revid"])))
    for is_tree, sha, fid, rev in u["objs"]:
        up.add_object(_Obj(b"tree" if is_tree else b"blob", bytes(sha)), (bytes(fid), bytes(rev)), "path")
    up.add_object(_Obj(b"commit", bytes(u["sha"]), bytes(u["tree"])),
                  {"testament3-sha1": bytes(u["test"])} if u["test"] is not None else {}, None)
    up.finish()


def impl(inp):
    try:
        return _impl(inp)
    finally:
        _drop_lazy()


def _impl(inp):
    import breezy.bzr  # noqa
    import breezy.git  # noqa
    from breezy.git import cache as C
    from breezy.transport import get_transport_from_path
    tdbkind = _ensure_tdb()
    script = _materialise(inp)
    q = _queries(script)
    _state["n"] += 1
    base = os.path.join(_dir(), "c%d" % _state["n"])
    os.makedirs(os.path.join(base, "idx"))
    sqpath = os.path.join(base, "idmap.db")
    tdbpath = os.path.join(base, "idmap.tdb")
    try:
        def open_sqlite():
            return C.SqliteBzrGitCache(sqpath)

        def close_sqlite():
            db = C.mapdbs().pop(sqpath, None)
            if db is not None:
                db.close()

        def open_index(first=False):
            t = get_transport_from_path(os.path.join(base, "idx"))
            if first:
                C.IndexGitCacheFormat().initialize(t)
            return C.IndexBzrGitCache(t)

        def open_tdb():
            return C.TdbBzrGitCache(tdbpath)

        def close_tdb():
            C.mapdbs().pop(tdbpath, None)

        caches = {"dict": C.DictBzrGitCache(), "sqlite": open_sqlite(), "index": open_index(True), "tdb": open_tdb()}
        for o in script["ops"]:
            if o[0] == "begin":
                for c in caches.values():
                    c.idmap.start_write_group()
            elif o[0] == "commit":
                for c in caches.values():
                    c.idmap.commit_write_group()
            elif o[0] == "abort":
                for c in caches.values():
                    c.idmap.abort_write_group()
            elif o[0] == "add":
                for c in caches.values():
                    _apply(c, o[1])
            elif o[0] == "reopen":
                close_sqlite()
                close_tdb()
                caches["sqlite"] = open_sqlite()
                caches["index"] = open_index()
                caches["tdb"] = open_tdb()
        res = [_battery(caches[b].idmap, q) for b in ("dict", "sqlite", "index", "tdb")]
        close_sqlite()
        close_tdb()
        _TdbStub._store.pop(tdbpath, None)
        return res
    finally:
        shutil.rmtree(base, ignore_errors=True)


# --------------------------------------------------------------------------------------
# model term
# --------------------------------------------------------------------------------------

def _coq_upd(u):
    objs = coq_list([f"{{| o_tree := {coq_bool(bool(t))}; o_sha := {coq_bytes(bytes(s))}; "
                     f"o_key := ({coq_bytes(bytes(f))}, {coq_bytes(bytes(r))}) |}}" for t, s, f, r in u["objs"]])
    test = "None" if u["test"] is None else f"(Some {coq_bytes(bytes(u['test']))})"
    return (f"{{| u_revid := {coq_bytes(bytes(u['revid']))}; u_sha := {coq_bytes(bytes(u['sha']))}; "
            f"u_tree := {coq_bytes(bytes(u['tree']))}; u_test := {test}; u_objs := {objs} |}}")


def model_term(inp):
    script = _memo.get(_key(inp)) if inp["kind"] != "script" else inp
    if script is None:
        return None
    q = _queries(script)
    ops = coq_list([{"begin": "Begin", "commit": "Commit", "abort": "Abort", "reopen": "Reopen"}.get(o[0]) or
                    f"(Add {_coq_upd(o[1])})" for o in script["ops"]])
    pk = lambda k: f"({coq_bytes(k[0])}, {coq_bytes(k[1])})"
    qs = (f"{{| qr := {coq_list([coq_bytes(r) for r in q['qr']])}; qb := {coq_list([pk(k) for k in q['qb']])}; "
          f"qt := {coq_list([pk(k) for k in q['qt']])}; qs := {coq_list([coq_bytes(s) for s in q['qs']])}; "
          f"qm := {coq_list([coq_bytes(r) for r in q['qm']])} |}}")
    return f"run_case {ops} {qs}"


# --------------------------------------------------------------------------------------
# oracle: every backend against the reference specification, deviations classified
# --------------------------------------------------------------------------------------

NAMES = ("dict", "sqlite", "index", "tdb")
PRIORITY = ["UNEXPLAINED", "dict-blob-tree-namespace", "sqlite-tree-sha-unique", "readd-overwrite",
            "git-sha-multi-entry"]


def _deviations(inp, obs):
    script = _memo.get(_key(inp)) if inp["kind"] != "script" else inp
    ops = script["ops"]
    q = _queries(script)
    ups = _visible_all(ops)
    wf = _well_formed(ops)
    devs = []
    if not wf:
        # backends legitimately differ on aborted / uncommitted groups (Dict has no groups, Sqlite's abort is a
        # no-op): only the two transactional backends are compared with each other
        if obs[2][:2] + [obs[2][4]] != obs[3][:2] + [obs[3][4]]:
            devs.append(("UNEXPLAINED" if _consistent(ups) else "readd-overwrite",
                         "index and tdb differ after an aborted or uncommitted write group"))
        return devs
    spec = _spec(ups)
    commits, blobs, trees = spec
    cons = _consistent(ups)
    tkeys = set(trees)
    bkeys = set(blobs)
    want_commit = [commits.get(r, (None,))[0] for r in q["qr"]]
    want_blob = [blobs.get(k) for k in q["qb"]]
    want_tree = [trees.get(k) for k in q["qt"]]
    want_git = [_spec_git(spec, s) for s in q["qs"]]
    want_revids = sorted(commits)
    want_sha1s = sorted({v[0] for v in commits.values()} | set(blobs.values()) | set(trees.values()))
    want_missing = sorted({r for r in q["qm"] if r not in commits})
    tree_sha_keys = {}
    for k, s in trees.items():
        tree_sha_keys.setdefault(s, set()).add(k)
    for name, got in zip(NAMES, obs):
        def dev(cls, msg):
            devs.append((cls, f"{name}: {msg}"))
        if got[0] != want_commit:
            dev("readd-overwrite" if not cons else "UNEXPLAINED", f"lookup_commit {got[0]!r} != {want_commit!r}")
        for k, g, w in zip(q["qb"], got[1], want_blob):
            if g != w:
                if name == "dict" and k in tkeys and g == trees[k]:
                    dev("dict-blob-tree-namespace", f"lookup_blob_id{k!r} answers with the tree id")
                elif not cons:
                    dev("readd-overwrite", f"lookup_blob_id{k!r} {g!r} != {w!r}")
                else:
                    dev("UNEXPLAINED", f"lookup_blob_id{k!r} {g!r} != {w!r}")
        for k, g, w in zip(q["qt"], got[2], want_tree):
            if isinstance(g, Tag) and name in ("index", "tdb"):
                continue            # documented: optional query
            if g != w:
                if name == "dict" and k in bkeys and g == blobs[k]:
                    dev("dict-blob-tree-namespace", f"lookup_tree_id{k!r} answers with the blob id")
                elif name == "sqlite" and g is None and w is not None and len(tree_sha_keys[w]) > 1:
                    dev("sqlite-tree-sha-unique", f"lookup_tree_id{k!r} is lost: the tree {w!r} was re-added under another key")
                elif not cons:
                    dev("readd-overwrite", f"lookup_tree_id{k!r} {g!r} != {w!r}")
                else:
                    dev("UNEXPLAINED", f"lookup_tree_id{k!r} {g!r} != {w!r}")
        for s, g, w in zip(q["qs"], got[3], want_git):
            if g != w:
                if not cons:
                    dev("readd-overwrite", f"lookup_git_sha({s!r}) {g!r} != {w!r}")
                elif w is not None and len(w) > 1 and g and all(e in w for e in g):
                    dev("git-sha-multi-entry", f"lookup_git_sha({s!r}) returns {len(g)} of {len(w)} entries")
                else:
                    dev("UNEXPLAINED", f"lookup_git_sha({s!r}) {g!r} != {w!r}")
        if got[4] != want_revids:
            dev("UNEXPLAINED", f"revids {got[4]!r} != {want_revids!r}")
        if isinstance(got[5], Err):
            dev("UNEXPLAINED", f"sha1s() raises {got[5]}")      # C38-sqlite-sha1s was repaired by 5287cc0
        elif got[5] != want_sha1s:
            dev("readd-overwrite" if not cons else "UNEXPLAINED", f"sha1s {got[5]!r} != {want_sha1s!r}")
        if got[6] != want_missing:
            dev("UNEXPLAINED", f"missing_revisions {got[6]!r} != {want_missing!r}")
    return devs


def oracle(inp, obs):
    if isinstance(obs, Err):
        return "driver error " + str(obs)
    devs = _deviations(inp, obs)
    if not devs:
        return None
    devs.sort(key=lambda d: PRIORITY.index(d[0]))
    return f"{devs[0][0]}: {devs[0][1]}" + (f" (+{len(devs) - 1} more)" if len(devs) > 1 else "")


def finding_matches(fid, inp, obs, why):
    cls = fid[len("C38-"):] if fid.startswith("C38-") else None
    if cls not in PRIORITY[1:] or isinstance(obs, Err):
        return False
    if not why.startswith(cls + ":"):
        return False
    # only when every deviation of the case belongs to a known class (no UNEXPLAINED one hidden behind it)
    return all(d[0] != "UNEXPLAINED" for d in _deviations(inp, obs))


def nontrivial(inp, obs):
    script = _memo.get(_key(inp)) if inp["kind"] != "script" else inp
    if script is None:
        return False
    ops = script["ops"]
    return sum(o[0] == "add" for o in ops) >= 2 and any(o[0] == "reopen" for o in ops)


def distribution(inputs, observations):
    d = {"real": 0, "script": 0, "updates": 0, "reopen": 0, "abort": 0, "well_formed": 0, "inconsistent": 0,
         "tdb_backend": _state.get("tdb") or "not probed", "deviation_classes": {}}
    for i, o in zip(inputs, observations):
        d[i["kind"]] += 1
        script = _memo.get(_key(i)) if i["kind"] != "script" else i
        if script is None or isinstance(o, Err):
            continue
        ops = script["ops"]
        d["updates"] += sum(x[0] == "add" for x in ops)
        d["reopen"] += sum(x[0] == "reopen" for x in ops)
        d["abort"] += sum(x[0] == "abort" for x in ops)
        d["well_formed"] += _well_formed(ops)
        d["inconsistent"] += not _consistent(_visible_all(ops))
        for cls, _ in _deviations(i, o):
            d["deviation_classes"][cls] = d["deviation_classes"].get(cls, 0) + 1
    return d
