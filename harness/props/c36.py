"""C36 -- Git identifier mappings round-trip (tie H, exhaustive small domains + URL grammar).

A Python str is carried as a list of code points ("cps") so that lone surrogates
survive JSON; bytes are carried as bytes.
"""
import itertools
import os
import shutil

from vlib import Err, coq_bytes, coq_bool

PROP = "C36"
COQ = {
    "property_file": "Properties/C36.v",
    "imports": "From BV Require Import Lib.Bytes Model.GitIds.",
}
RUST_PACKAGES = ["git-py"]
META = {
    "level": "proof",
    "title": "Git identifier mappings round-trip",
    "technique": ("Coq theorems over a hand model of breezy/git/{mapping,refs,urls,branch}.py and "
                  "crates/git/src/lib.rs + exhaustive small-domain correspondence (vm_compute) per codec, "
                  "URL grammar cases and real git branches for set_parent/get_parent"),
    "level_text": ("Round trips proved in Coq for ALL inputs: unescape(escape b)=b; encode_git_path(decode_git_path b)=b "
                   "(UTF-8 surrogateescape) and parse_file_id(generate_file_id p)=p for every byte path; sha<->revision id "
                   "through the mapping registry; branch/tag name<->ref under the exact guard (name does not start with "
                   "refs/), with machine-checked refutations outside the guard; "
                   "bzr_url_to_git_url(git_url_to_bzr_url(u,branch,ref)) = (norm u with commas quoted, branch', ref') for EVERY "
                   "recognised URL, where (branch', ref') denotes the same ref; set_parent/_get_parent_location round trip for "
                   "every named branch."),
    "level_note": ("Trusted: Coq kernel, vm_compute, the hand model's correspondence (bounded: exhaustive to length 3/4 over "
                   "alphabets that contain every escape character, grammar-generated URLs), CPython UTF-8 codec, urllib quote, "
                   "dromedary urlutils and dulwich parse_rsync_url as modelled and exercised; str(URL) for ssh:// locations and "
                   "relative_url are abstract functions of the model."),
    "design_ref": "DESIGN.md §5 C36",
    "trusted_base": ["hand model coq/Model/GitIds.v",
                     "correspondence harness harness/props/c36.py",
                     "modelled environment: CPython utf-8 codec (strict/surrogateescape), urllib.parse.quote, "
                     "dromedary.urlutils escape/unescape/split_segment_parameters/join_segment_parameters/"
                     "strip_trailing_slash, dulwich.client.parse_rsync_url"],
    "assumptions": ["URL.from_string(location) succeeds (no invalid port number)",
                    "str(URL) of an ssh:// location after scheme replacement is an abstract function (ssh_reser)",
                    "urlutils.relative_url(this_url, target) is an abstract function (rel); the parent-location "
                    "theorem assumes it returns target (unrelated URLs)",
                    "GitBranch config starts without remote/branch sections (fresh repository)"],
    "rule": ("exhaustive byte strings up to the tier's length over alphabets containing every escape character for each "
             "codec; structured ref/branch names; git URLs from a grammar (schemes, rsync style, user/host/port/path with "
             "escapes, commas) x branch/ref names with ',', '=', '%', space, unicode and already-escaped-looking text "
             "(%20 %25 %2C %3D %2F %41 %% %zz trailing %; _c _s __ for file ids; %3A in revision ids) in every kind incl. "
             "set_parent/get_parent on real git branches; non-trivial = contains an escape "
             "character / non-ASCII byte / segment parameter"),
}
SHARD = 250

_state = {}


# --------------------------------------------------------------------------
# helpers
# --------------------------------------------------------------------------

def cps(s):
    return [ord(c) for c in s]


def ustr(c):
    return "".join(chr(x) for x in c)


def coq_str(c):
    return "[" + ";".join(str(x) for x in c) + "]%N" if len(c) else "(@nil N)"


def coq_opt(v, f):
    return "None" if v is None else f"(Some {f(v)})"


def _exc(e):
    return Err(type(e).__name__)


def _try(f, *a, conv=lambda x: x, **k):
    try:
        return conv(f(*a, **k))
    except (ValueError, KeyError, TypeError) as e:     # incl. UnicodeError, InvalidRevisionId is below
        return _exc(e)
    except Exception as e:
        from breezy import errors
        from breezy.urlutils import InvalidURL
        if isinstance(e, (errors.InvalidRevisionId, InvalidURL)):
            return _exc(e)
        raise


def setup(scratch):
    import breezy
    import breezy.bzr  # noqa
    import breezy.git  # noqa
    _state["dir"] = scratch
    _state["n"] = 0


# --------------------------------------------------------------------------
# generator
# --------------------------------------------------------------------------

ZERO = b"0" * 40
SHA1 = b"0123456789abcdef0123456789abcdef01234567"

URLS_FIXED = [
    "git://h/r", "git://h/r/", "git://h", "git://h/", "https://example.com/a/b.git", "http://u@h:8080/x%20y/z",
    "git+ssh://u@h/~u/r", "ftp://h/r", "ssh://u@h:22/r", "ssh://h/r", "ssh://u@h/%7Eu/%41", "u@h:r", "u@h:/r",
    "h:r", "h:", ":p", "@h:p", "u@v@h:p:q@", "a:b@h:p", "[::1]:p", "file:///p", "HTTP://h/p", "/local/p", "local/p",
    "chroot-123:///p", "chroot-://h", "git://h/r,a=b", "git://h/r,a", "git://h/a,b=c/", "git://h/a,b/r",
    "git://h/r,branch=old", "git://h/r,zz=1,aa=2,aa=3", "git://h/r, zz = 1", "u@h:/r,1 2", "u@h:\u00e9 p",
    "git://h/\u00e9", "", "x://", "://", "a:b", "ab:/", "ab:x/", "git://h/r//", "git://h/a\nb/", "a\nb://h/",
    "git://h/r,", "git://h/,", "git://h/r,=", "git://h/r,=v", "git://h/r,ref=", "svn://h/r", "h:p,q", "h:p/q,r=s",
]
BRANCHES = [None, "", "x", "main", "a b", "a,b=c%\u00e9", "refs/heads/x", "refs/tags/t", "f/g", "\u20ac", "\U0001f600",
            "%41", "~._-", " x ", "HEAD", "a\u00a0", "a/"]
REFS = [None, b"", b"HEAD", b"refs/heads/x", b"refs/heads/", b"refs/tags/v1", b"refs/heads/\xff", b"refs/heads/\xc3\xa9",
        b"refs/heads/refs/y", b"refs/x y~._-", b"refs/pull/1/head", b"a,b=c", b"%41", b"\xff\x00", b"refs/tags/a ",
        b"refs/heads/a/", b"x/"]
# values that look already escaped: the double-decoding / double-encoding class
ESCNAMES = ["rel%20notes", "a%25b", "%2C", "x%3Dy", "a%2Fb", "%41", "%%", "100%", "50%off", "%zz", "a%2520b", "%C3%A9", "%",
            "%2", "%2%20", "a__b_sc", "a+b", "%e9", "%00", "\u00e9%20"]
BRANCHES += ESCNAMES
REFS += ([b"refs/tags/" + n.encode("utf-8") for n in ESCNAMES] + [b"refs/heads/" + n.encode("utf-8") for n in ESCNAMES]
         + [b"refs/%2F", b"%2520", b"refs/heads/%FF"])
URLS_FIXED += ["git://h/a%2520b", "git://h/a%25b/%2C", "https://h/%%/r%", "git://h/r%2Cx", "ssh://h/a%2520b", "u@h:a%20b",
               "u@h:a%2520b/%zz", "git://h/r%3Dx%2F"]
ESCTOK = [b"_c", b"_s", b"__", b"_", b" ", b"\x0c", b"%20", b"%5F", b"a", b"s", b"c"]
BACK_FIXED = [
    "git://h/r,branch=\u00e9", "git://h/r,branch=%e9", "git://h/r,branch=%C3%A9,branch=x", "git://h/r,x",
    "git://h/r, branch = a%20 ,ref=\u00a0%zz%4\u2003", "git://h/r,ref=\u00e9%", "git://h/r/,ref=a/", "git://h/r,ref=a/",
    "git://h/r,ref=a//", "ab://,ref=a", "ab:/,ref=a/", "ab:x/,ref=a/", "a,ref=x/", "a\nb://h/,ref=x/",
    "ab://h\n/,ref=x/", "ab://h/,ref=x\n/", "git://h/r,ref=%41%4", "git://h/r,ref=%4", "git://h/r,ref=%", "git://h/r,ref=%%41",
    "git://h/r,ref=%aF%Ag", "git://h/r,branch=%FF", "git://h/r,branch=%ED%A0%80", "git://h/r,ref=a=b", "git://h/r,revno=3",
    "git://h/r,ref=x,branch=y", "git://h/r,branch=y,ref=x", "git://h/r,ref=x,ref=y", "git://h/a,ref=x/b", "a/,ref=x",
    "/,ref=x", "//,ref=x/", "git:///,ref=x/", "git://,ref=x/", "g://h/,ref=x", "g:/,ref=x/", "gi:/a/,ref=x/",
    "git://h/r,ref=x\u2003", "git://h/r,\u3000ref\u1680=x", ",ref=x", "", "/", ",", "=", ",=", "git://h/r,branch=", "git://h/r,branch=%",
    "git://h/r,branch=rel%2520notes", "git://h/r,branch=rel%20notes", "git://h/r,ref=refs%2Ftags%2Fa%2520b", "git://h/r,branch=%2525",
    "git://h/r,branch=%252C", "git://h/r,branch=a%253Db", "git://h/r,ref=%2541", "git://h/r,branch=100%25", "git://h/r,branch=%25%25",
    "git://h/r,branch=%25zz", "git://h/a%2520b,branch=x%2520y", "git://h/r,branch=%25C3%25A9",
]


def _words(alpha, maxlen):
    for n in range(maxlen + 1):
        for t in itertools.product(alpha, repeat=n):
            yield t


def corpus():
    out = [
        {"kind": "fileid_str", "s": [0xDCC3, 0xDCA9]},           # str path that is not a decoded git path
        {"kind": "revid", "exp": False, "x": ZERO},
        {"kind": "revid", "exp": False, "x": b"git-v1:" + ZERO},
        {"kind": "refname", "s": cps("refs/heads/x")},          # C36-branch-name-refs-prefix
        {"kind": "refname", "s": cps("refs/tags/x")},
        {"kind": "ref", "x": b"refs/heads/refs/x"},             # C36-ref-heads-refs-prefix (refs.py residue, known)
        {"kind": "ref", "x": b"refs/heads/"},
        {"kind": "url", "loc": cps("git://h/r,a=b"), "branch": cps("x"), "ref": None},   # C36-url-comma, fixed 3b37c3b: must pass
        {"kind": "url", "loc": cps("git://h/r,a"), "branch": None, "ref": None},
        {"kind": "url", "loc": cps("git://h/r"), "branch": None, "ref": b"refs/heads/refs/y"},   # fixed c5a74d8: must pass
        {"kind": "url", "loc": cps("git://h/r"), "branch": None, "ref": b"refs/heads/"},
        {"kind": "parent", "name": "foo", "loc": cps("git://h/r,ref=refs%2Fheads%2Frefs%2Fy")},
        {"kind": "url", "loc": cps("git://h/r"), "branch": None, "ref": b"refs/tags/v1"},  # repaired F-C36
        {"kind": "url", "loc": cps("git://h/r"), "branch": cps("a b"), "ref": None},
        {"kind": "parent", "name": "foo", "loc": cps("git://h/r,branch=b")},               # C36-parent-branch-section, fixed e7f72ba: must pass
        {"kind": "parent", "name": "origin", "loc": cps("git://h/r,branch=b")},
        {"kind": "parent", "name": "foo", "loc": cps("git://h/r,branch=rel%2520notes")},   # seeded double-decode in set_parent
        {"kind": "url", "loc": cps("git://h/r"), "branch": cps("rel%20notes"), "ref": None},
    ]
    return out


def cases(rng, tier):
    quick = tier == "quick"
    # 1 file-id escaping: every escape character + the letters that follow "_"
    for t in _words([95, 32, 12, 115, 99, 97, 255], 4 if quick else 5):
        yield {"kind": "escape", "x": bytes(t)}
    for t in _words(ESCTOK, 3):
        yield {"kind": "escape", "x": b"".join(t)}
    # 2 UTF-8 surrogateescape: lead bytes of every class, boundary continuation bytes
    alpha8 = [0x41, 0x80, 0xBF, 0xC1, 0xC2, 0xE0, 0xED, 0xA0, 0x9F, 0xF0, 0xF4, 0x90, 0x8F, 0xF5]
    for t in _words(alpha8, 3):
        yield {"kind": "utf8", "x": bytes(t)}
    if not quick:
        for t in itertools.product([0x41, 0x80, 0xBF, 0xC2, 0xE0, 0xED, 0xA0, 0xF0, 0xF4, 0x90], repeat=4):
            yield {"kind": "utf8", "x": bytes(t)}
    for _ in range(400 if quick else 6000):
        s = "".join(chr(rng.choice([0x41, 0x7F, 0x80, 0x7FF, 0x800, 0xD7FF, 0xE000, 0xFFFF, 0x10000, 0x10FFFF,
                                    rng.randrange(0x110000)])) for _ in range(rng.randint(1, 6)))
        s = "".join(c for c in s if not 0xD800 <= ord(c) < 0xE000)
        yield {"kind": "utf8", "x": s.encode("utf-8")}
    for t in _words([0x41, 0xE9, 0xD7FF, 0xD800, 0xDC7F, 0xDC80, 0xDCC3, 0xDCA9, 0xDCFF, 0xDD00, 0xDFFF, 0xE000,
                     0x10FFFF], 2 if quick else 3):
        yield {"kind": "utf8enc", "s": list(t)}
    # 3 file ids
    for t in _words([95, 32, 12, 115, 103, 58, 0xC3, 0xA9, 0xFF], 3 if quick else 4):
        yield {"kind": "fileid", "x": bytes(t)}
    for x in (b"TREE_ROOT", b"git:", b"git:a_sb", b"git:_", b"git:_x", b"git:\xff_c", b"git", b"gitx:a", b"TREE_ROOTx",
              b"git:TREE_ROOT", b"git:a b"):
        yield {"kind": "fileid", "x": x}
    for t in _words(ESCTOK[:8], 2 if quick else 3):
        yield {"kind": "fileid", "x": b"".join(t)}
        yield {"kind": "fileid", "x": b"git:" + b"".join(t)}          # parse_file_id of escaped-looking raw ids
        yield {"kind": "fileid_str", "s": cps(b"".join(t).decode("latin-1"))}
    for t in _words([0x41, 0x20, 0x5F, 0xE9, 0xDCC3, 0xDCA9, 0xDCFF, 0xD800], 2 if quick else 3):
        yield {"kind": "fileid_str", "s": list(t)}
    # 4 revision ids
    pool = [ZERO, SHA1, b"git-v1:" + SHA1, b"git-experimental:" + SHA1, b"git-v1:" + ZERO, b"git-experimental:" + ZERO,
            b"git-foo:abc", b"git-v1", b"git-", b"git", b"null:", b"", b"git-v1:ab:cd", b"hg-v1:abc", b"git-v1:",
            b"git-v10:x", b"git-v1x", b":", b"git-:x", ZERO[:-1], ZERO + b"0", b"ab:cd", b"git-experimental", b"git-v1::",
            b"git-v1%3A" + SHA1, b"git-v1:%3A" + SHA1, b"git%2Dv1:" + SHA1, b"git-v1:" + SHA1[:38] + b"%4", b"git-v1:%30" + ZERO[:39],
            b"%30" + ZERO[:39], b"git-v1:git-v1:" + SHA1, b"null%3A", b"git-v1:null:", SHA1[:37] + b"%41", b"git-v1:a_sb__c"]
    for x in pool:
        for exp in (False, True):
            yield {"kind": "revid", "exp": exp, "x": x}
    for _ in range(60 if quick else 1500):
        x = bytes(rng.choice(b"0123456789abcdef") for _ in range(40))
        if rng.random() < 0.3:
            x = rng.choice([b"git-v1:", b"git-experimental:", b"git-v2:", b"git-"]) + x[:rng.randint(0, 40)]
        yield {"kind": "revid", "exp": rng.random() < 0.5, "x": x}
    # 5 names and refs
    tails = ["".join(t) for t in _words(["a", "/", "\u00e9", "\u20ac", "\U0001f600", " "], 2 if quick else 3)]
    for pre in ("", "refs/", "refs/heads/", "refs/tags/", "refs", "ref/", "HEAD", "heads/", "Refs/"):
        for t in tails:
            yield {"kind": "refname", "s": cps(pre + t)}
    for pre in ("", "refs/", "refs/heads/", "refs%2F", "refs%2Fheads%2F", "HEAD%00"):
        for n in ESCNAMES:
            yield {"kind": "refname", "s": cps(pre + n)}
    for s in ([0xDC80], [97, 0xD800], cps("refs/") + [0xDFFF]):
        yield {"kind": "refname", "s": s}
    for pre in (b"", b"refs/heads/", b"refs/tags/", b"refs%2Fheads%2F", b"refs/heads%2F", b"HEAD%00", b"refs/heads/refs%2F"):
        for n in ESCNAMES:
            yield {"kind": "ref", "x": pre + n.encode("utf-8")}
    btails = [bytes(t) for t in _words([97, 47, 0xC3, 0xA9, 0xFF], 3 if quick else 4)]
    for pre in (b"", b"HEAD", b"refs/heads/", b"refs/tags/", b"refs/heads/refs/", b"refs/remotes/o/", b"refs/head/", b"refs/"):
        for t in btails:
            yield {"kind": "ref", "x": pre + t}
    # 6 URLs
    for loc in URLS_FIXED:
        for b in BRANCHES:
            yield {"kind": "url", "loc": cps(loc), "branch": None if b is None else cps(b), "ref": None}
        for r in REFS[1:]:
            yield {"kind": "url", "loc": cps(loc), "branch": None, "ref": r}
    yield {"kind": "url", "loc": cps("git://h/r"), "branch": cps("x"), "ref": b"y"}
    yield {"kind": "url", "loc": cps("git://h/r"), "branch": [0xDC80], "ref": None}
    for _ in range(1500 if quick else 15000):
        yield _rand_url(rng)
    for u in BACK_FIXED:
        yield {"kind": "back", "loc": cps(u)}
    for _ in range(800 if quick else 8000):
        yield {"kind": "back", "loc": cps(_rand_bzr_url(rng))}
    # 7 real git branches
    names = ["origin", "foo", "master"]
    k = 0
    for loc in ["git://h/r", "git://h/r,branch=foo", "git://h/r,ref=refs%2Ftags%2Fv1", "git://h/r,branch=a%20b",
                "git://h/r,branch=%C3%A9", "git://h/r,ref=refs%2Fheads%2Fx", "git://h/r,ref=HEAD", "git://h/r,branch=refs%2Fx",
                "git+ssh://u@h/~u/r,branch=b", "https://h/a/b.git,branch=b", "git://h/r,ref=%FF", "git://h/r,ref=refs%2Fheads%2F%FF",
                "git://h/r,x", "git://h/r,branch=", "ssh://u@h/r,branch=b"]:
        for name in names:
            yield {"kind": "parent", "name": name, "loc": cps(loc)}
            k += 1
    import breezy.git  # noqa
    from breezy.git.urls import git_url_to_bzr_url
    for n in ESCNAMES:
        for kw in ({"branch": n}, {"ref": b"refs/tags/" + n.encode("utf-8")}, {"ref": b"refs/heads/" + n.encode("utf-8")},
                   {"ref": n.encode("utf-8")}):
            loc = git_url_to_bzr_url(rng.choice(["git://h/r", "https://h/a%2520b/r.git", "git+ssh://u@h/~u/%25"]), **kw)
            yield {"kind": "parent", "name": names[k % 3], "loc": cps(loc)}
            k += 1
    for loc in ["git://h/r,branch=rel%2520notes", "git://h/r,branch=rel%20notes", "git://h/r,branch=%2541", "git://h/r,ref=%2541",
                "git://h/r,branch=%25", "git://h/r,branch=%", "git://h/r,branch=%zz", "git://h/r,ref=refs%2Fheads%2Fa%2520b"]:
        yield {"kind": "parent", "name": names[k % 3], "loc": cps(loc)}
        k += 1
    for _ in range(30 if quick else 300):
        c = _rand_url(rng)
        try:
            loc = git_url_to_bzr_url(ustr(c["loc"]), None if c["branch"] is None else ustr(c["branch"]), c["ref"])
        except Exception:
            continue
        if "://" not in loc or loc.startswith("file:"):
            continue
        yield {"kind": "parent", "name": rng.choice(names), "loc": cps(loc)}


SEG = ["a%2520b", "a%25b", "%%", "x%", "%3D", "%2F", "%41", "r", "repo.git", "a%20b", "~u", "x,y", "x,k=v", "%7Eu", "\u00e9", "a b", "%2C", "", "a=b", "A", "-._", "%zz", "p q,r=s "]
HOSTS = ["h", "example.com", "[::1]", "h%41", "H"]
USERS = ["", "u@", "u:pw@", "u%40v@", "@"]
PORTS = ["", ":22", ":", ":8080", ":0"]
SCHEMES = ["git", "git+ssh", "http", "https", "ftp", "ssh", "ssh", "chroot-1", "svn", "file", "bzr+ssh", "SSH", "g", ""]
NAMECH = ["%20", "%25", "%2C", "%3D", "%2F", "%41", "%%", "%zz", "2", "0", "5", "a", "b", "/", ",", "=", "%", " ", "\u00e9", "\u20ac", "~", "_", "-", ".", "\u00a0", "r", "e", "f", "s", "4", "1"]
REFPRE = [b"refs/heads/", b"refs/tags/", b"refs/", b"", b"refs/heads/refs/", b"refs/remotes/origin/"]
REFCH = [97, 98, 47, 44, 61, 37, 32, 0xC3, 0xA9, 0xFF, 126, 52, 49, 0, 10]
REFTOK = [bytes([c]) for c in REFCH] + [b"%20", b"%25", b"%2C", b"%3D", b"%2F", b"%41", b"%%", b"%zz", b"2", b"0", b"5"]


def _rand_url(rng):
    r = rng.random()
    nseg = rng.randint(0, 3)
    path = "".join("/" + rng.choice(SEG) for _ in range(nseg)) + rng.choice(["", "", "/"])
    if r < 0.7:
        loc = rng.choice(SCHEMES) + "://" + rng.choice(USERS) + rng.choice(HOSTS) + rng.choice(PORTS) + path
    elif r < 0.9:
        loc = rng.choice(["", "u@", "u@v@"]) + rng.choice(["h", "example.com", ""]) + ":" + path.lstrip("/" if rng.random() < 0.5 else "")
    else:
        loc = path
    branch = ref = None
    k = rng.random()
    if k < 0.45:
        branch = cps("".join(rng.choice(NAMECH) for _ in range(rng.randint(0, 6))))
    elif k < 0.9:
        ref = rng.choice(REFPRE) + b"".join(rng.choice(REFTOK) for _ in range(rng.randint(0, 5)))
        if rng.random() < 0.05:
            ref = b"HEAD"
    return {"kind": "url", "loc": cps(loc), "branch": branch, "ref": ref}


PARCH = ["%25", "%2520", "%3D", "%252C", "2", "0", "5", "a", "%", "4", "1", "F", "f", "g", " ", "=", "\u00a0", "\u2003", "/", "%C3%A9", "%FF", "%2C", "%20", "\u00e9", "\n", "+"]


def _rand_bzr_url(rng):
    base = rng.choice(["git://h/r", "git://h/r/", "git://h/", "git://h", "a/b", "a/", "", "ab:x", "ab://h/a,b/c", "/x/y/", "g://h/r",
                       "git://h/r\u00e9"])
    n = rng.randint(0, 3)
    ps = []
    for _ in range(n):
        key = rng.choice(["branch", "ref", "branch", "ref", " ref", "branch ", "revno", "", "Ref"])
        val = "".join(rng.choice(PARCH) for _ in range(rng.randint(0, 5)))
        ps.append(key + rng.choice(["=", "=", "=", "", " = "]) + val)
    return base + "".join("," + p for p in ps) + rng.choice(["", "", "/", "//"])


# --------------------------------------------------------------------------
# implementation driver
# --------------------------------------------------------------------------

def _back(u):
    from breezy.git.urls import bzr_url_to_git_url

    def conv(t):
        return [cps(t[0]), None if t[1] is None else cps(t[1]), t[2]]
    return _try(bzr_url_to_git_url, u, conv=conv)


def impl(inp):
    import breezy.bzr  # noqa
    import breezy.git  # noqa
    from breezy.git import mapping as M, refs as R
    k = inp["kind"]
    if k == "escape":
        x = bytes(inp["x"])
        e = M.escape_file_id(x)
        return [e, _try(M.unescape_file_id, e), _try(M.unescape_file_id, x)]
    if k == "utf8":
        x = bytes(inp["x"])
        s = M.decode_git_path(x)
        return [cps(s), _try(M.encode_git_path, s), _try(x.decode, "utf-8", conv=cps)]
    if k == "utf8enc":
        s = ustr(inp["s"])
        b = _try(M.encode_git_path, s)
        return [b, _try(s.encode, "utf-8"), b if isinstance(b, Err) else _try(M.decode_git_path, b, conv=cps)]
    m = M.BzrGitMappingv1()
    if k == "fileid":
        x = bytes(inp["x"])
        f = m.generate_file_id(x)
        return [f, _try(m.parse_file_id, f, conv=cps), _try(m.parse_file_id, x, conv=cps)]
    if k == "fileid_str":
        s = ustr(inp["s"])
        f = _try(m.generate_file_id, s)
        if isinstance(f, Err):
            return f
        return [f, _try(m.parse_file_id, f, conv=cps)]
    if k == "revid":
        x = bytes(inp["x"])
        cls = M.BzrGitMappingExperimental if inp["exp"] else M.BzrGitMappingv1

        def creg(t):
            return [t[0], None if t[1] is None else t[1].revid_prefix]
        r = cls.revision_id_foreign_to_bzr(x)
        return [r,
                _try(cls.revision_id_bzr_to_foreign, r, conv=lambda t: t[0]),
                _try(M.mapping_registry.revision_id_bzr_to_foreign, r, conv=creg),
                _try(cls.revision_id_bzr_to_foreign, x, conv=lambda t: t[0]),
                _try(M.mapping_registry.revision_id_bzr_to_foreign, x, conv=creg)]
    if k == "refname":
        s = ustr(inp["s"])
        br = _try(R.branch_name_to_ref, s)
        tg = _try(R.tag_name_to_ref, s)
        return [br, br if isinstance(br, Err) else _try(R.ref_to_branch_name, br, conv=cps),
                tg, tg if isinstance(tg, Err) else _try(R.ref_to_tag_name, tg, conv=cps)]
    if k == "ref":
        x = bytes(inp["x"])
        n = _try(R.ref_to_branch_name, x)
        t = _try(R.ref_to_tag_name, x)
        return [n if isinstance(n, Err) else cps(n), n if isinstance(n, Err) else _try(R.branch_name_to_ref, n),
                t if isinstance(t, Err) else cps(t), t if isinstance(t, Err) else _try(R.tag_name_to_ref, t)]
    if k == "back":
        return _back(ustr(inp["loc"]))
    if k == "url":
        from breezy.git.urls import git_url_to_bzr_url
        b = None if inp["branch"] is None else ustr(inp["branch"])
        r = None if inp["ref"] is None else bytes(inp["ref"])
        u = _try(git_url_to_bzr_url, ustr(inp["loc"]), branch=b, ref=r)
        if isinstance(u, Err):
            return u
        return [cps(u), _back(u)]
    if k == "parent":
        return _parent(inp)
    raise AssertionError(k)


def _parent(inp):
    from breezy.controldir import ControlDir
    from breezy.git.dir import LocalGitControlDirFormat
    _state["n"] += 1
    base = os.path.join(_state["dir"], "g%d" % _state["n"])
    try:
        d = ControlDir.create(base, format=LocalGitControlDirFormat())
        d.create_repository()
        name = inp["name"]
        b = d.create_branch(name=name)
        assert b.name == name, (b.name, name)
        r = _try(b.set_parent, ustr(inp["loc"]))
        if isinstance(r, Err):
            return r
        cs = b.repository._git.get_config()
        try:
            url = cps(cs.get((b"remote", b"origin"), b"url").decode("utf-8"))
        except KeyError:
            url = None
        try:
            merge = cs.get((b"branch", name.encode("utf-8")), b"merge") if name else None
        except KeyError:
            merge = None
        got = _try(b._get_parent_location, conv=lambda s: None if s is None else cps(s))
        return [url, merge, got]
    finally:
        shutil.rmtree(base, ignore_errors=True)


# --------------------------------------------------------------------------
# model term
# --------------------------------------------------------------------------

def _reser(loc):
    """environment: str(URL.from_string(loc)) after url.scheme = 'git+ssh' (only used for ssh://)."""
    from breezy import urlutils
    try:
        u = urlutils.URL.from_string(loc)
        u.scheme = "git+ssh"
        return str(u)
    except Exception:
        return ""


def _target_env(loc):
    """environment: relative_url(this_url, target_url) with target split by dromedary (not by the code under test)."""
    from breezy import urlutils
    try:
        target = urlutils.split_segment_parameters(loc)[0]
    except Exception:
        return ""
    return urlutils.relative_url("file:///nonexistent/verif/g/", target)


def model_term(inp):
    k = inp["kind"]
    if k in ("escape", "utf8", "fileid", "ref"):
        return f"run_{k} {coq_bytes(bytes(inp['x']))}"
    if k in ("utf8enc", "fileid_str", "refname"):
        return f"run_{k} {coq_str(inp['s'])}"
    if k == "revid":
        return f"run_revid {coq_bool(inp['exp'])} {coq_bytes(bytes(inp['x']))}"
    if k == "back":
        return f"run_back {coq_str(inp['loc'])}"
    if k == "url":
        loc = ustr(inp["loc"])
        return (f"run_url {coq_str(cps(_reser(loc)))} {coq_str(inp['loc'])} "
                f"{coq_opt(inp['branch'], coq_str)} {coq_opt(inp['ref'], lambda r: coq_bytes(bytes(r)))}")
    if k == "parent":
        loc = ustr(inp["loc"])
        relv = _target_env(loc)
        return (f"run_parent {coq_str(cps(_reser(relv)))} {coq_str(cps(relv))} {coq_bytes(inp['name'].encode())} "
                f"{coq_bytes(b'origin')} {coq_str(inp['loc'])}")
    raise AssertionError(k)


# --------------------------------------------------------------------------
# the property itself, on the implementation's observation
# --------------------------------------------------------------------------

def _recognised(loc):
    """Independent reference: does git_url_to_bzr_url treat loc as a git URL, and what is the normal form?
    returns None (not recognised) or a predicate on the normalised URL."""
    if "://" in loc and ":" not in loc.split("://", 1)[0]:
        scheme = loc.split("://", 1)[0]
        if scheme in ("git+ssh", "git", "http", "https", "ftp") or scheme.startswith("chroot-"):
            return lambda t: t == loc.replace(",", "%2C")    # commas are quoted (3b37c3b)
        if scheme == "ssh":
            return lambda t: t.startswith("git+ssh://")
    if ":" in loc:
        return lambda t: t.startswith("git+ssh://")
    return None


def _eff(branch, ref):
    """the ref a (branch, ref) pair denotes (what set_parent stores)."""
    from breezy.git.refs import branch_name_to_ref
    if branch:
        return branch_name_to_ref(branch)
    if ref:
        return ref
    return b"HEAD"


def oracle(inp, obs):
    k = inp["kind"]
    if k == "escape":
        x = bytes(inp["x"])
        if obs[1] != x:
            return f"unescape_file_id(escape_file_id({x!r})) = {obs[1]!r}"
        return None
    if k == "utf8":
        x = bytes(inp["x"])
        if obs[1] != x:
            return f"encode_git_path(decode_git_path({x!r})) = {obs[1]!r}"
        return None
    if k == "fileid":
        x = bytes(inp["x"])
        want = cps(x.decode("utf-8", "surrogateescape"))
        if obs[1] != want:
            return f"parse_file_id(generate_file_id({x!r})) = {obs[1]!r}, expected the decoded path"
        return None
    if k == "fileid_str":
        s = ustr(inp["s"])
        try:
            canonical = s.encode("utf-8", "surrogateescape").decode("utf-8", "surrogateescape") == s
        except UnicodeError:
            return None if isinstance(obs, Err) else "generate_file_id accepted an unencodable str"
        if canonical and (isinstance(obs, Err) or obs[1] != inp["s"]):
            return f"parse_file_id(generate_file_id({s!r})) = {obs!r}"
        return None
    if k == "revid":
        x = bytes(inp["x"])
        r, cls_back, reg_back, cls_x, reg_x = obs
        if isinstance(reg_back, Err) or reg_back[0] != x:
            return f"registry.revision_id_bzr_to_foreign(foreign_to_bzr({x!r})) = {reg_back!r}"
        if x != ZERO and cls_back != x:
            return f"revision_id_bzr_to_foreign(revision_id_foreign_to_bzr({x!r})) = {cls_back!r}"
        if not isinstance(cls_x, Err) and cls_x != ZERO:
            from breezy.git import mapping as M
            cls = M.BzrGitMappingExperimental if inp["exp"] else M.BzrGitMappingv1
            if cls.revision_id_foreign_to_bzr(cls_x) != x:
                return f"revision_id_foreign_to_bzr(revision_id_bzr_to_foreign({x!r})) differs"
        return None
    if k == "refname":
        s = inp["s"]
        br, brn, tg, tgn = obs
        if any(0xD800 <= c < 0xE000 for c in s):
            return None
        if brn != s:
            return f"ref_to_branch_name(branch_name_to_ref({ustr(s)!r})) = {brn!r} (ref {br!r})"
        if tgn != s:
            return f"ref_to_tag_name(tag_name_to_ref({ustr(s)!r})) = {tgn!r}"
        return None
    if k == "ref":
        x = bytes(inp["x"])
        n, nb, t, tb = obs
        if not isinstance(n, Err) and nb != x:
            return f"branch_name_to_ref(ref_to_branch_name({x!r})) = {nb!r}"
        if not isinstance(t, Err) and tb != x:
            return f"tag_name_to_ref(ref_to_tag_name({x!r})) = {tb!r}"
        return None
    if k in ("back", "utf8enc"):
        return None         # correspondence only
    if k == "url":
        loc = ustr(inp["loc"])
        b = None if inp["branch"] is None else ustr(inp["branch"])
        r = None if inp["ref"] is None else bytes(inp["ref"])
        if b is not None and r is not None:
            return None if obs == Err("ValueError") else "branch and ref together accepted"
        if b is not None and any(0xD800 <= ord(c) < 0xE000 for c in b):
            return None
        pred = _recognised(loc)
        if pred is None:
            return None
        if isinstance(obs, Err):
            return f"git_url_to_bzr_url({loc!r}, {b!r}, {r!r}) raises {obs}"
        u, back = obs
        if isinstance(back, Err):
            return f"bzr_url_to_git_url({ustr(u)!r}) raises {back} (from {loc!r}, {b!r}, {r!r})"
        t, bb, br = ustr(back[0]), (None if back[1] is None else ustr(back[1])), back[2]
        from breezy.git.urls import git_url_to_bzr_url
        norm = git_url_to_bzr_url(loc)
        if t != norm or not pred(t):
            return f"URL {loc!r} (normalised {norm!r}) comes back as {t!r}"
        if _eff(bb, br) != _eff(b, r):
            return f"({b!r}, {r!r}) on {loc!r} comes back as ({bb!r}, {br!r})"
        if b and (bb != b or br is not None):
            return f"branch {b!r} comes back as ({bb!r}, {br!r})"
        return None
    if k == "parent":
        loc = ustr(inp["loc"])
        from breezy.git.urls import bzr_url_to_git_url
        try:
            t, b, r = bzr_url_to_git_url(loc)
        except ValueError:
            return None
        if _target_env(loc) != t:
            return None         # relative_url rewrote it: outside the modelled class
        if _recognised(t) is None or "://" not in t:
            return None         # not a git location: git_url_to_bzr_url returns it unchanged (documented)
        if isinstance(obs, Err):
            return f"set_parent({loc!r}) raises {obs}"
        got = obs[2]
        if isinstance(got, Err) or got is None:
            return f"set_parent({loc!r}) then _get_parent_location() = {got!r}"
        try:
            t2, b2, r2 = bzr_url_to_git_url(ustr(got))
        except ValueError:
            return f"parent read back as unparsable {ustr(got)!r}"
        from breezy.git.urls import git_url_to_bzr_url
        if t2 != git_url_to_bzr_url(t):
            return f"parent URL {loc!r} read back as {ustr(got)!r}"
        if inp["name"] and _eff(b2, r2) != _eff(b, r):
            return f"parent {loc!r} on branch {inp['name']!r} read back as {ustr(got)!r}"
        return None
    return "unknown kind"


def finding_matches(fid, inp, obs, why):
    k = inp["kind"]
    if fid == "C36-branch-name-refs-prefix":
        return k == "refname" and ustr(inp["s"]).startswith("refs/")
    if fid == "C36-ref-heads-refs-prefix":
        # residue after c5a74d8: only the pure refs.py pair ref -> name -> ref
        if k == "ref":
            x = bytes(inp["x"])
            return x == b"refs/heads/" or x.startswith(b"refs/heads/refs/")
        return False
    return False


def nontrivial(inp, obs):
    k = inp["kind"]
    if k in ("escape", "fileid"):
        return any(c in (95, 32, 12) or c >= 128 for c in bytes(inp["x"]))
    if k == "utf8":
        return any(c >= 128 for c in bytes(inp["x"]))
    if k in ("utf8enc", "fileid_str", "refname"):
        return any(c >= 128 for c in inp["s"]) or len(inp["s"]) > 0
    if k == "revid":
        return not isinstance(obs, Err)
    if k == "ref":
        return not isinstance(obs[0], Err) or not isinstance(obs[2], Err)
    if k == "url":
        return inp["branch"] is not None or inp["ref"] is not None
    if k == "back":
        return "," in ustr(inp["loc"])
    return True


def distribution(inputs, observations):
    d = {"by_kind": {}, "errors": 0, "url_with_params_roundtrip": 0, "url_unrecognised": 0}
    for i, o in zip(inputs, observations):
        d["by_kind"][i["kind"]] = d["by_kind"].get(i["kind"], 0) + 1
        if isinstance(o, Err):
            d["errors"] += 1
        if i["kind"] == "url":
            if _recognised(ustr(i["loc"])) is None:
                d["url_unrecognised"] += 1
            elif not isinstance(o, Err) and not isinstance(o[1], Err) and (o[1][1] is not None or o[1][2] is not None):
                d["url_with_params_roundtrip"] += 1
    return d


def shrink(inp, fails):
    key = "x" if "x" in inp else ("s" if "s" in inp else "loc")
    if key not in inp:
        return inp
    x = inp[key]
    changed = True
    while changed:
        changed = False
        for i in range(len(x)):
            y = x[:i] + x[i + 1:]
            if fails(dict(inp, **{key: y})):
                x, changed = y, True
                break
    return dict(inp, **{key: x})
