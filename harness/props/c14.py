"""C14 -- Transform previews match their applied result (tie H).

One case = (base tree, op sequence).  The driver builds a real 2a working tree (explicit file ids
f<N>), opens `tree.transform()`, registers a trans id for every base path in list order (so that
trans id k is "new-k" on both sides), runs the ops through the public TreeTransform API, and
observes

  ops status | raw conflicts | resolve_conflicts outcome (+ returned conflict tuples, raw conflicts
  afterwards) | preview listing | apply() status | working-tree listing after apply/finalize

A listing row is a list of ints  path-bytes ++ [-1, kind, exec, fid+1, -1] ++ content-bytes  (kind
0 = nothing on disk, 1 = file, 2 = directory); listings and conflict sets are sorted as int lists
(the same order in Python and in Coq).  The Coq model (Model/Transform14.v) must predict the whole
observation.  The oracle is the property itself on the implementation: resolve_conflicts ends
clean or with MalformedTransform; a clean transform applies without error and the preview listing
equals the working tree afterwards; otherwise the working tree is untouched.

git trees run through the same driver but are checked by the oracle only (the model covers the
inventory-based transform); see notes/C14.md.
"""
import os
import shutil
import stat

from vlib import Err, Tag, coq_bool, coq_bytes, coq_list, coq_nat, coq_option

PROP = "C14"
COQ = {
    "property_file": "Properties/C14.v",
    "imports": "From BV Require Import Lib.Bytes Model.Transform14.",
}
META = {
    "level": "proof",
    "title": "Transform previews match their applied result",
    "technique": ("Coq theorems over a hand model of the TreeTransform bookkeeping (final_* accessors, "
                  "find_raw_conflicts, the seven resolvers, the 10-pass resolve loop, _generate_inventory_delta, "
                  "the PreviewTree accessors, the node-level effect of apply) + correspondence on random op "
                  "sequences against real 2a working trees (preview listing vs tree after apply, raw conflict "
                  "sets, resolver outcomes)"),
    "level_text": ("partial (P-core). Proved for every base tree and transform state (code as of the repair "
                   "round): every trans id the preview shows as a file is shown with exactly the contents and "
                   "executable bit of the node apply leaves for it (no hypotheses); without overwrite conflicts "
                   "and outside the replaced-directory situation (executable guard late_failure) that node has "
                   "the previewed kind and sits in the node of its final parent under its final name; the "
                   "inventory entries written by _generate_inventory_delta are the entries the preview shows. "
                   "Machine-checked refutations of what is still false (each reproduced on the real code and a "
                   "known finding): apply failing after a clean conflict check (replaced directory), "
                   "resolve_conflicts raising KeyError/DuplicateKey. The old preview behaviour "
                   "(content/exec looked up at the new path in the old tree) is kept as a refuted statement about "
                   "an _old definition. The resolve loop runs at most 10 passes, a clean result has no raw "
                   "conflicts, MalformedTransform only after all passes, the tree is not touched; four resolvers "
                   "provably remove their conflict. Path rendering, untouched inventory entries and the rename "
                   "sequence of apply are tied only by the correspondence run (disk phase: C13)."),
    "level_note": ("Trusted: Coq kernel, vm_compute, the hand model's correspondence (bounded sampling), the "
                   "environment model of apply_inventory_delta."),
    "design_ref": "DESIGN.md §5 C14",
    "trusted_base": ["hand model coq/Model/Transform14.v of breezy/transform.py and breezy/bzr/transform.py",
                     "correspondence harness harness/props/c14.py"],
    "assumptions": ["every base-tree path has a trans id before the ops run (what _add_tree_children establishes)",
                    "case-sensitive POSIX file system with executable bit; names printable ASCII",
                    "kinds file and directory only (no symlinks, tree references)",
                    "base tree: every versioned entry present on disk with its stored kind; unversioned entries "
                    "only directly below versioned directories; file ids unique",
                    "default orphan policy (conflict); path_tree=None in conflict_pass",
                    "bzrformats apply_inventory_delta removes old entries by file id and adds the new ones",
                    "dirstate update_by_delta drops unmentioned entries below a parent that is no directory any more "
                    "and raises InconsistentDelta for written entries without directory parent / duplicate siblings",
                    "limbo placement (_limbo_children) is not modelled (C13); cancel_creation only below the root",
                    "git trees: oracle only (no model), listings not compared"],
    "rule": ("random op sequences (create_path/new_file/new_directory/create_file/create_directory/delete_contents/"
             "adjust_path/version_file/unversion_file/set_executability/cancel_*) over generated base trees, biased "
             "to parent loops, duplicates, missing and non-directory parents; non-trivial = at least one raw "
             "conflict or a change of the tree"),
}
SHARD = 40

_state = {}
_cache = {}

KIND = {None: 0, "file": 1, "directory": 2, "symlink": 3}
CCODE = {"unversioned parent": 1, "parent loop": 2, "duplicate": 3, "missing parent": 4,
         "non-directory parent": 5, "versioning no contents": 6, "unversioned executability": 7,
         "non-file executability": 8, "overwrite": 9, "duplicate id": 10, "versioning bad kind": 11,
         "deleting parent": 12}
MSG = {"Unversioned existing file": 1, "Moved existing file to": 2, "Cancelled move": 3, "Not deleting": 4,
       "Created directory": 5, "Versioned directory": 6, "Moved to root": 7}


def setup(scratch):
    import breezy
    import breezy.bzr  # noqa
    import breezy.git  # noqa
    os.environ.setdefault("BRZ_EMAIL", "verif <verif@example.com>")
    _state["dir"] = scratch
    _state["n"] = 0


def _scratch():
    if "dir" not in _state or not os.path.isdir(_state["dir"]):
        import tempfile
        import atexit
        d = tempfile.mkdtemp(prefix="verif-c14-")
        atexit.register(shutil.rmtree, d, True)
        setup(d)
    return _state["dir"]


# --------------------------------------------------------------------------- base trees

def _base_paths(base):
    """paths[i] of trans id i (0 = root)."""
    paths = [""]
    for parent, name, kind, content, ex, fid in base:
        pp = paths[parent]
        paths.append(name if pp == "" else pp + "/" + name)
    return paths


def _fid(n):
    return None if n is None else b"f%d" % n


def _unfid(b):
    if b is None:
        return 0
    if b.startswith(b"f") and b[1:].isdigit():
        return int(b[1:]) + 1
    if b in _state.get("gen", {}):
        return _state["gen"][b] + 1          # fabricated id (gen_file_id): 1000 + trans id
    raise ValueError("unexpected file id %r" % (b,))


def _build(inp, where):
    from breezy import controldir
    fmt = inp.get("fmt", "bzr")
    wt = controldir.ControlDir.create_standalone_workingtree(
        where, format=controldir.format_registry.make_controldir("2a" if fmt == "bzr" else "git"))
    paths = _base_paths(inp["base"])
    if fmt == "bzr":
        wt.set_root_id(b"f0")
    add, ids = [], []
    for i, (parent, name, kind, content, ex, fid) in enumerate(inp["base"]):
        p = os.path.join(where, paths[i + 1])
        if kind == "d":
            os.mkdir(p)
        else:
            with open(p, "wb") as f:
                f.write(content.encode())
            os.chmod(p, 0o755 if ex else 0o644)
        if fid is not None:
            add.append(paths[i + 1])
            ids.append(_fid(fid))
    if add:
        if fmt == "bzr":
            wt.add(add, ids=ids)
        else:
            wt.add(add)
    wt.commit("base")
    return wt, paths


# --------------------------------------------------------------------------- observations

def _row(path, kind, ex, fid, content):
    return list(path.encode()) + [-1, kind, int(ex), fid, -1] + list(content)


def _ambiguous(pt, tt, path):
    """PreviewTree._path2trans_id takes the first live child with the right name out of a set (a dead one
    only when nothing else matches): with several candidates the answer depends on the set's iteration
    order (unobservable among dead candidates of the last segment)."""
    cur = tt.root
    segs = path.split("/") if path else []
    for i, seg in enumerate(segs):
        m = [c for c in pt._all_children(cur) if tt.final_name(c) == seg]
        live = [c for c in m if not (tt.final_kind(c) is None and not tt.final_is_versioned(c))]
        if len(live) > 1:
            return True
        if len(live) == 1:
            cur = live[0]
            continue
        if not m:
            return False
        if len(m) > 1:
            return i < len(segs) - 1
        cur = m[0]
    return False


def _conflict_row(c, names=True):
    row = [CCODE[c[0]]]
    for x in c[1:]:
        if isinstance(x, str) and x.startswith("new-"):
            row.append(int(x[4:]))
        elif isinstance(x, str):
            row.append(-1)
            row.extend(x.encode())
        else:
            raise ValueError("conflict component %r" % (x,))
    return row


def _newconflict_row(c):
    # (c_type, message, trans ids...)
    row = [CCODE[c[0]], MSG[c[1]]]
    for x in c[2:]:
        row.append(int(x[4:]))
    return row


def _preview_listing(tt, fmt):
    pt = tt.get_preview_tree()
    rows = {}
    paths = []
    for path, entry in pt.iter_entries_by_dir():
        paths.append(path)
    for path in pt.extras():
        paths.append(path)
    for path in paths:
        if path in rows:
            continue
        if _ambiguous(pt, tt, path):
            rows[path] = list(path.encode()) + [-1, -3]
            continue
        try:
            kind = pt.kind(path)
        except Exception as e:
            kind = None
        if fmt == "bzr":
            fid = pt.path2id(path)
        else:
            fid = b"f0" if pt.is_versioned(path) else None
            if kind == "directory":
                fid = None           # git does not version directories
        content = []
        if kind == "file":
            try:
                content = list(pt.get_file_text(path))
            except Exception:
                content = [-2]
        ex = 1 if kind == "file" and pt.is_executable(path) else 0
        if kind is None and fid is None:
            continue
        rows[path] = _row(path, KIND[kind], ex, _unfid(fid), content)
    return sorted(rows.values())


def _disk_listing(root, wt, fmt):
    rows = {}
    seen = set()
    for dirpath, dirnames, filenames in os.walk(root):
        rel = os.path.relpath(dirpath, root)
        rel = "" if rel == "." else rel.replace(os.sep, "/")
        if rel == "":
            dirnames[:] = [d for d in dirnames if d not in (".bzr", ".git")]
        dirnames.sort()
        for n in sorted(dirnames + filenames):
            seen.add(n if rel == "" else rel + "/" + n)
    seen.add("")
    with wt.lock_read():
        inv = {}
        for path, entry in wt.iter_entries_by_dir():
            inv[path] = entry.file_id if fmt == "bzr" else b"f0"
        for path in sorted(seen | set(inv)):
            full = os.path.join(root, path)
            try:
                st = os.lstat(full)
            except OSError:
                st = None
            if st is None:
                kind, ex, content = None, False, []
            elif stat.S_ISDIR(st.st_mode):
                kind, ex, content = "directory", False, []
            elif stat.S_ISREG(st.st_mode):
                kind, ex = "file", bool(st.st_mode & 0o100)
                with open(full, "rb") as f:
                    content = list(f.read())
            else:
                kind, ex, content = "symlink", False, []
            fidn = _unfid(inv.get(path))
            if fmt != "bzr" and kind == "directory":
                fidn = 0
            rows[path] = _row(path, KIND[kind], ex, fidn, content)
    return sorted(rows.values())


def _apply_op(tt, op, tid):
    k = op[0]
    T = lambda n: "new-%d" % n
    if k == "create_path":
        tt.create_path(op[1], T(op[2]))
    elif k == "new_file":
        tt.new_file(op[1], T(op[2]), [op[3].encode()], _fid(op[4]), op[5])
    elif k == "new_dir":
        tt.new_directory(op[1], T(op[2]), _fid(op[3]))
    elif k == "create_file":
        tt.create_file([op[1].encode()], T(op[2]))
    elif k == "create_dir":
        tt.create_directory(T(op[1]))
    elif k == "delete":
        tt.delete_contents(T(op[1]))
    elif k == "adjust":
        tt.adjust_path(op[1], T(op[2]), T(op[3]))
    elif k == "version":
        tt.version_file(T(op[1]), file_id=_fid(op[2]))
    elif k == "unversion":
        tt.unversion_file(T(op[1]))
    elif k == "exec":
        tt.set_executability(op[1], T(op[2]))
    elif k == "cancel_creation":
        tt.cancel_creation(T(op[1]))
    elif k == "cancel_deletion":
        tt.cancel_deletion(T(op[1]))
    elif k == "cancel_versioning":
        tt.cancel_versioning(T(op[1]))
    else:
        raise ValueError(k)


def _ename(e):
    return type(e).__name__


def impl(inp):
    from breezy import transform as _tf
    fmt = inp.get("fmt", "bzr")
    _state["n"] = _state.get("n", 0) + 1
    where = os.path.join(_scratch(), "t%d" % _state["n"])
    os.mkdir(where)
    try:
        wt, paths = _build(inp, where)
        base_listing = _disk_listing(where, wt, fmt)
        tt = wt.transform()
        try:
            for p in paths:
                tt.trans_id_tree_path(p)
            for i, op in enumerate(inp["ops"]):
                try:
                    _apply_op(tt, op, None)
                except Exception as e:
                    return [Err(_ename(e)), i]
            try:
                raw0 = sorted(_conflict_row(c) for c in tt.find_raw_conflicts())
            except Exception as e:
                return [Tag("ok"), Err(_ename(e))]
            try:
                newc = _tf.resolve_conflicts(tt)
                status = Tag("clean")
                newc = sorted(_newconflict_row(c) for c in newc)
            except _tf.MalformedTransform:
                status, newc = Err("MalformedTransform"), []
            except Exception as e:
                status, newc = Err(_ename(e)), []
            if isinstance(status, Err):
                tt.finalize()
                wt2 = wt.controldir.open_workingtree()
                after = _disk_listing(where, wt2, fmt)
                return [Tag("ok"), raw0, status, Tag("untouched" if after == base_listing else "CHANGED")]
            _state["gen"] = {f: 1000 + int(t[4:]) for t, f in getattr(tt, "_new_id", {}).items()
                             if not (f.startswith(b"f") and f[1:].isdigit())}
            raw1 = sorted(_conflict_row(c) for c in tt.find_raw_conflicts())
            try:
                preview = _preview_listing(tt, fmt)
            except Exception as e:
                preview = Err(_ename(e))
            try:
                tt.apply()
                astatus = Tag("applied")
            except Exception as e:
                astatus = Err(_ename(e))
                try:
                    tt.finalize()
                except Exception:
                    pass
            wt2 = wt.controldir.open_workingtree()
            after = _disk_listing(where, wt2, fmt)
            return [Tag("ok"), raw0, status, newc, raw1, preview, astatus, after]
        finally:
            try:
                tt.finalize()
            except Exception:
                pass
    finally:
        shutil.rmtree(where, ignore_errors=True)


# --------------------------------------------------------------------------- model term

def _cname(s):
    return coq_bytes(s.encode())


def _copt_nat(v):
    return coq_option(v, coq_nat)


def _cop(op):
    k = op[0]
    if k == "create_path":
        return f"OCreatePath {_cname(op[1])} {coq_nat(op[2])}"
    if k == "new_file":
        return (f"ONewFile {_cname(op[1])} {coq_nat(op[2])} {_cname(op[3])} {_copt_nat(op[4])} "
                f"{coq_option(op[5], coq_bool)}")
    if k == "new_dir":
        return f"ONewDir {_cname(op[1])} {coq_nat(op[2])} {_copt_nat(op[3])}"
    if k == "create_file":
        return f"OCreateFile {_cname(op[1])} {coq_nat(op[2])}"
    if k == "create_dir":
        return f"OCreateDir {coq_nat(op[1])}"
    if k == "delete":
        return f"ODelete {coq_nat(op[1])}"
    if k == "adjust":
        return f"OAdjust {_cname(op[1])} {coq_nat(op[2])} {coq_nat(op[3])}"
    if k == "version":
        return f"OVersion {coq_nat(op[1])} {coq_nat(op[2])}"
    if k == "unversion":
        return f"OUnversion {coq_nat(op[1])}"
    if k == "exec":
        return f"OExec {coq_option(op[1], coq_bool)} {coq_nat(op[2])}"
    if k == "cancel_creation":
        return f"OCancelCreation {coq_nat(op[1])}"
    if k == "cancel_deletion":
        return f"OCancelDeletion {coq_nat(op[1])}"
    if k == "cancel_versioning":
        return f"OCancelVersioning {coq_nat(op[1])}"
    raise ValueError(k)


def model_term(inp):
    if inp.get("fmt", "bzr") != "bzr":
        return 'OT "oracle-only"%string'
    base = coq_list([f"mkB {coq_nat(p)} {_cname(n)} {'KDir' if k == 'd' else 'KFile'} {_cname(c)} "
                     f"{coq_bool(bool(e))} {_copt_nat(f)}" for p, n, k, c, e, f in inp["base"]])
    ops = coq_list(["(" + _cop(o) + ")" for o in inp["ops"]])
    return f"run_case {base} {ops}"


def impl_obs(inp, obs):
    if inp.get("fmt", "bzr") != "bzr":
        return Tag("oracle-only")
    return obs


# --------------------------------------------------------------------------- generator

NAMES = ["a", "b", "c", "d", "e"]


def gen_base(rng, tier):
    """Entries [parent tid, name, kind, content, exec, fid]; entry i has trans id i+1."""
    n = rng.randint(2, 5 if tier == "quick" else 7)
    base = []
    used = {0: set()}
    dirs_v = [0]            # versioned directories (trans ids)
    for i in range(n):
        tid = i + 1
        parent = rng.choice(dirs_v)
        avail = [x for x in NAMES if x not in used[parent]]
        if not avail:
            parent, avail = 0, [x for x in NAMES + ["f", "g", "h"] if x not in used[0]]
        name = rng.choice(avail)
        used[parent].add(name)
        versioned = rng.random() < 0.8
        isdir = rng.random() < (0.4 if versioned else 0.15)
        if isdir:
            base.append([parent, name, "d", "", False, tid if versioned else None])
            if versioned:
                dirs_v.append(tid)
                used[tid] = set()
        else:
            base.append([parent, name, "f", name.upper() + str(tid), rng.random() < 0.3,
                         tid if versioned else None])
    return base


class _Gen:
    """Tracks just enough of the transform to keep the ops free of DuplicateKey/KeyError."""

    def __init__(self, rng, base):
        self.rng, self.base = rng, base
        self.next = len(base) + 1
        self.contents, self.ids, self.fids, self.execs = set(), set(), set(), set()
        self.removed, self.ops = set(), []
        self.unv = {i + 1 for i, b in enumerate(base) if b[5] is None}   # trans ids without a file id
        self.fresh = 20
        self.created = []
        self.par = {i + 1: b[0] for i, b in enumerate(base)}
        self.dead = set()

    def tids(self):
        return list(range(1, self.next))

    def any_tid(self, root=True):
        return self.rng.choice(([0] if root else []) + self.tids())

    def dir_tid(self):
        ds = [0] + [i + 1 for i, b in enumerate(self.base) if b[2] == "d"] + \
             [t for t, k in self.created if k == "d"]
        return self.rng.choice(ds)

    def name(self):
        r = self.rng.random()
        if r < 0.75:
            return self.rng.choice(NAMES)
        if r < 0.85:
            return self.rng.choice(NAMES) + ".moved"
        if r < 0.95:
            return self.rng.choice(NAMES) + ".new"
        return self.rng.choice(["a.b", "a!"])

    def newfid(self):
        r = self.rng.random()
        if r < 0.12:
            return None
        if r < 0.22 and self.base:
            f = self.rng.choice([b[5] for b in self.base if b[5] is not None] or [None])
            if f is not None and f not in self.fids:
                return f
        self.fresh += 1
        return self.fresh

    def emit(self, op):
        k = op[0]
        if k in ("new_file", "new_dir", "create_path"):
            t = self.next
            if op[2] in self.dead:
                return
            self.par[t] = op[2]
            self.next += 1
            self.created.append((t, {"new_file": "f", "new_dir": "d", "create_path": None}[k]))
            fid = op[4] if k == "new_file" else (op[3] if k == "new_dir" else None)
            if fid is not None:
                if fid in self.fids:
                    return
                self.ids.add(t)
                self.fids.add(fid)
            else:
                self.unv.add(t)
            if k != "create_path":
                self.contents.add(t)
            if k == "new_file" and op[5] is not None:
                self.execs.add(t)
        elif k in ("create_file", "create_dir"):
            t = op[-1]
            if t in self.contents:
                return
            self.contents.add(t)
        elif k == "version":
            if op[1] in self.ids or op[2] in self.fids:
                return
            if op[1] not in self.unv and self.rng.random() < 0.6:
                return      # re-versioning a versioned path: InconsistentDelta at apply (notes/C14.md)
            self.unv.discard(op[1])
            self.ids.add(op[1])
            self.fids.add(op[2])
        elif k == "exec":
            if op[1] is None:
                if op[2] not in self.execs:
                    return
                self.execs.discard(op[2])
            else:
                if op[2] in self.execs:
                    return
                self.execs.add(op[2])
        elif k == "adjust":
            if op[3] == 0 or op[3] in self.dead or op[2] in self.dead:
                return
            if op[2] == op[3] and op[3] > len(self.base):
                return      # a new directory moved into itself: KeyError in the limbo bookkeeping (not modelled)
            if op[3] > len(self.base) and self.par.get(op[3], 0) > len(self.base):
                # a new entry that lives inside its new parent's limbo directory, moved below one of its own
                # descendants: _rename_in_limbo would rename a directory into itself (OSError EINVAL from
                # adjust_path, nothing applied; limbo placement is not modelled)
                y, seen = op[2], set()
                while y in self.par and y not in seen:
                    seen.add(y)
                    y = self.par[y]
                    if y == op[3]:
                        return
            self.par[op[3]] = op[2]
        elif k == "delete":
            if 1 <= op[1] <= len(self.base):
                self.removed.add(op[1])
        elif k == "cancel_creation":
            if op[1] not in self.contents or self.par.get(op[1]) != 0:
                return      # a content-less id that once had contents, below a file: TransformRenameFailed
            self.contents.discard(op[1])
            self.dead.add(op[1])
        elif k == "cancel_deletion":
            if op[1] not in self.removed:
                return
            self.removed.discard(op[1])
        elif k == "cancel_versioning":
            if op[1] not in self.ids:
                return
            self.ids.discard(op[1])
            if op[1] > len(self.base) or self.base[op[1] - 1][5] is None:
                self.unv.add(op[1])
            # the file id stays reserved on our side (keeps the generator simple)
        elif k == "unversion":
            t = op[1]
            if 1 <= t <= len(self.base) and self.base[t - 1][5] is None and self.rng.random() < 0.97:
                return          # find_raw_conflicts raises NoSuchFile (finding), keep it rare
            if t == 0:
                return
            if t > len(self.base) and self.rng.random() < 0.9:
                return          # apply raises KeyError (finding), keep it rare
            if t not in self.ids:
                self.unv.add(t)
        self.ops.append(op)

    def random_op(self):
        r = self.rng.random()
        g = self
        if r < 0.14:
            g.emit(["new_file", g.name(), g.dir_tid() if g.rng.random() < 0.8 else g.any_tid(), "N" + str(g.next),
                    g.newfid(), g.rng.choice([None, None, True, False])])
        elif r < 0.24:
            g.emit(["new_dir", g.name(), g.dir_tid() if g.rng.random() < 0.8 else g.any_tid(), g.newfid()])
        elif r < 0.28:
            g.emit(["create_path", g.name(), g.any_tid()])
        elif r < 0.34:
            g.emit(["create_file", "C" + str(len(g.ops)), g.any_tid(False)])
        elif r < 0.38:
            g.emit(["create_dir", g.any_tid(False)])
        elif r < 0.52:
            g.emit(["delete", g.any_tid(False)])
        elif r < 0.74:
            g.emit(["adjust", g.name(), g.dir_tid() if g.rng.random() < 0.7 else g.any_tid(), g.any_tid(False)])
        elif r < 0.80:
            g.fresh += 1
            g.emit(["version", g.any_tid(False), g.fresh if g.rng.random() < 0.7 else g.rng.randint(1, len(g.base))])
        elif r < 0.87:
            g.emit(["unversion", g.any_tid(False)])
        elif r < 0.94:
            g.emit(["exec", g.rng.choice([True, False]), g.any_tid(False)])
        elif r < 0.96:
            g.emit(["cancel_creation", g.any_tid(False)])
        elif r < 0.98:
            g.emit(["cancel_deletion", g.any_tid(False)])
        else:
            g.emit(["cancel_versioning", g.any_tid(False)])


def _reversion_shuffle(rng, g):
    """unversion_file(t) followed by version_file(t, X) on the same trans id, X being the id of ANOTHER tree
    entry (still versioned, or unversioned/deleted in this transform too), t's own old id, or a fresh one;
    optionally combined with a move or a content change of either entry."""
    base = g.base
    vers = [i + 1 for i, b in enumerate(base) if b[5] is not None]
    if len(vers) < 2:
        return
    t, other = rng.sample(vers, 2)
    r = rng.random()
    if r < 0.2 and rng.random() < 0.5:
        g.emit(["adjust", g.name(), g.dir_tid(), t])
    g.emit(["unversion", t])
    if r < 0.55:
        fid = base[other - 1][5]                 # the other entry keeps its id: duplicate id
    elif r < 0.75:
        fid = base[other - 1][5]                 # the other entry gives its id away
        g.emit(["unversion", other])
        if rng.random() < 0.5:
            g.emit(["delete", other])
    elif r < 0.88:
        fid = base[t - 1][5]                     # its own id again
    else:
        g.fresh += 1
        fid = g.fresh
    g.emit(["version", t, fid])
    if rng.random() < 0.3:
        g.emit(["adjust", g.name(), g.dir_tid(), rng.choice([t, other])])


def _limbo_shuffle(rng, g):
    """New directories nested in new directories, files created inside them, then moved between them,
    names re-used, the directories renamed or moved: everything happens in limbo, so the preview reads
    the limbo files while apply moves them into place (the class the limbo bookkeeping of
    DiskTreeTransform.adjust_path / _rename_in_limbo / _limbo_descendants is there for)."""
    top = g.dir_tid() if rng.random() < 0.4 else 0
    names = rng.sample(["g", "p", "q", "r", "s", "t"], 4)
    G = g.next
    g.emit(["new_dir", names[0], top, g.newfid()])
    P1 = g.next
    g.emit(["new_dir", names[1], G, g.newfid()])
    files = []
    for i in range(rng.randint(1, 2)):
        files.append((g.next, "cdef"[i]))
        g.emit(["new_file", "cdef"[i], P1, "C%d" % g.next, g.newfid(), rng.choice([None, None, True])])
    P2par = rng.choice([G, G, top, P1])
    P2 = g.next
    g.emit(["new_dir", names[2], P2par, g.newfid()])
    targets = [G, P2, P2, top]
    for _ in range(rng.randint(1, 3)):
        r = rng.random()
        if r < 0.45 and files:                      # move a file to another new directory
            c, n = rng.choice(files)
            g.emit(["adjust", n if rng.random() < 0.7 else n + "2", rng.choice(targets), c])
        elif r < 0.8:                               # a new file takes a (possibly vacated) name
            t = g.next
            n = rng.choice([f[1] for f in files] or ["c"])
            g.emit(["new_file", n, rng.choice([P1, P1, P2]), "D%d" % t, g.newfid(), None])
            files.append((t, n))
        else:                                       # a new directory inside
            g.emit(["new_dir", names[3], rng.choice([P1, P2]), g.newfid()])
    # finally rename / move one of the directories that have (or had) children in limbo
    d = rng.choice([P1, P1, P2])
    dest = rng.choice([G, G, top]) if d == P1 else rng.choice([G, top])
    g.emit(["adjust", rng.choice(names[1:3]) + rng.choice(["", "x"]), dest, d])
    if rng.random() < 0.3 and files:
        c, n = rng.choice(files)
        g.emit(["adjust", n, rng.choice(targets), c])


def _template(rng, g):
    """Structured scenarios aimed at each conflict kind and at the preview/apply comparison."""
    base = g.base
    files = [i + 1 for i, b in enumerate(base) if b[2] == "f"]
    dirs = [i + 1 for i, b in enumerate(base) if b[2] == "d"]
    kids = {d: [i + 1 for i, b in enumerate(base) if b[0] == d] for d in [0] + dirs}
    k = rng.randrange(21)
    if k >= 19:
        return _reversion_shuffle(rng, g)
    if k >= 16:
        return _limbo_shuffle(rng, g)
    if k == 0 and len(files) >= 2:                      # swap two files
        x, y = rng.sample(files, 2)
        bx, by = base[x - 1], base[y - 1]
        g.emit(["adjust", by[1], by[0], x])
        g.emit(["adjust", bx[1], bx[0], y])
    elif k == 1 and dirs:                               # parent loop through a tree directory
        d = rng.choice(dirs)
        sub = [c for c in kids[d] if base[c - 1][2] == "d"]
        g.emit(["adjust", g.name(), rng.choice(sub) if sub else d, d])
    elif k == 2:                                        # parent loop among new directories
        p = g.next
        g.emit(["new_dir", "p", 0, g.newfid()])
        g.emit(["new_dir", "q", p, g.newfid()])
        g.emit(["adjust", "p", p + 1, p])
    elif k == 3 and files:                              # duplicate name
        x = rng.choice(files)
        bx = base[x - 1]
        if rng.random() < 0.5:
            g.emit(["new_file", bx[1], bx[0], "DUP", g.newfid(), None])
        else:
            g.emit(["new_dir", bx[1], bx[0], g.newfid()])
    elif k == 4 and dirs:                               # delete a directory that keeps children
        d = rng.choice(dirs)
        g.emit(["delete", d])
        if rng.random() < 0.5:
            g.emit(["unversion", d])
        if rng.random() < 0.3:
            g.emit(["create_dir", d] if rng.random() < 0.5 else ["create_file", "R", d])
    elif k == 5 and files:                              # child below a file
        x = rng.choice(files)
        g.emit(["new_file", g.name(), x, "K", g.newfid(), None])
    elif k == 6:                                        # versioned without contents
        p = g.next
        g.emit(["create_path", g.name(), g.dir_tid()])
        g.fresh += 1
        g.emit(["version", p, g.fresh])
    elif k == 7:                                        # versioned file in an unversioned new directory
        p = g.next
        g.emit(["new_dir", "n", g.dir_tid(), None])
        g.emit(["new_file", "f", p, "F", g.newfid(), None])
    elif k == 8 and files:                              # replace a file (same or other kind)
        x = rng.choice(files)
        g.emit(["delete", x])
        g.emit(["create_file", "NEW", x] if rng.random() < 0.6 else ["create_dir", x])
    elif k == 9 and files:                              # move a file into a (new) directory
        x = rng.choice(files)
        if rng.random() < 0.5 and dirs:
            g.emit(["adjust", g.name(), rng.choice(dirs), x])
        else:
            p = g.next
            g.emit(["new_dir", "m", 0, g.newfid()])
            g.emit(["adjust", base[x - 1][1], p, x])
    elif k == 10 and dirs:                              # rename a directory with children
        d = rng.choice(dirs)
        g.emit(["adjust", g.name(), base[d - 1][0], d])
    elif k == 11 and files:                             # delete + unversion
        x = rng.choice(files)
        g.emit(["delete", x])
        g.emit(["unversion", x])
    elif k == 12 and files:                             # executability
        x = rng.choice(files + dirs)
        g.emit(["exec", rng.choice([True, False]), x])
    elif k == 13 and files:                             # file id moves to a new file
        x = rng.choice(files)
        if base[x - 1][5] is not None:
            g.emit(["unversion", x])
            if rng.random() < 0.7:
                g.emit(["delete", x])
            g.emit(["new_file", g.name(), g.dir_tid(), "MV", base[x - 1][5], None])
    elif k == 14 and dirs:                              # overwrite
        x = rng.choice(files + dirs)
        g.emit(["create_file", "OW", x])
    elif k == 15 and dirs:                              # empty a directory and delete it
        d = rng.choice(dirs)
        for c in kids[d]:
            g.emit(["delete", c])
            if rng.random() < 0.8 and base[c - 1][5] is not None:
                g.emit(["unversion", c])
        g.emit(["delete", d])
        g.emit(["unversion", d])


def gen_case(rng, tier):
    base = gen_base(rng, tier)
    g = _Gen(rng, base)
    r = rng.random()
    if r < 0.6:
        _template(rng, g)
        extra = rng.randint(0, 2)
    else:
        extra = rng.randint(1, 5 if tier == "quick" else 7)
    for _ in range(extra):
        g.random_op()
    return {"base": base, "ops": g.ops}


B0 = [[0, "a", "f", "A", True, 1], [0, "d", "d", "", False, 2], [2, "x", "f", "X", False, 3],
      [0, "u", "f", "U", False, None], [0, "b", "f", "B", False, 4]]


def corpus():
    ops = [
        [["adjust", "b2", 2, 1]],                                            # rename: repaired 2ecf5bb, must pass
        [["adjust", "b", 0, 1], ["adjust", "a", 0, 5]],                      # swap: repaired 2ecf5bb, must pass
        [["delete", 2], ["create_dir", 2]],                                  # replaced directory (finding)
        [["new_dir", "p", 0, 10], ["new_dir", "q", 6, 11], ["adjust", "p", 7, 6]],   # KeyError (finding)
        [["adjust", "d2", 2, 2]],
        [["new_dir", "p", 0, None], ["new_file", "f", 6, "F", 12, None]],    # was ValueError: repaired 4df7934, must pass
        [["new_file", "a", 0, "N", 13, None]],
        [["delete", 2]],
        [["new_file", "k", 1, "K", 14, None]],
        [["create_path", "z", 0], ["version", 6, 15]],
        [["new_file", "n", 0, "N", 1, None]],
        [["exec", True, 4]],
        [["delete", 1], ["unversion", 1]],
        [["new_file", "w", 0, "W", None, None]],                             # unversioned new file: repaired 2ecf5bb, must pass
        [["unversion", 4]],                                                  # NoSuchFile (finding)
        [["new_file", "w", 0, "W", 16, True]],
        [["delete", 1], ["create_file", "A2", 1]],
        [["delete", 1], ["create_dir", 1]],
        [["exec", False, 1]],
        [["create_file", "X", 1]],
        [["create_file", "X", 1], ["create_file", "Y", 1]],                  # DuplicateKey
        [["adjust", "r", 0, 0]],                                             # CantMoveRoot
        [["exec", None, 1]],                                                 # KeyError
        [["delete", 3], ["unversion", 3], ["delete", 2], ["unversion", 2]],
        [["unversion", 1], ["delete", 1], ["new_file", "a", 0, "MV", 1, None]],
        [["new_file", "b", 0, "N1", 17, None], ["new_file", "b", 0, "N2", 18, None]],
        [["adjust", "k", 1, 5], ["delete", 5]],       # deleted but versioned, below a file (finding)
        [["version", 5, 30]],                         # re-versioning (finding)
        [["new_file", "x", 2, "N", 19, None], ["unversion", 6]],   # unversion of a new id (finding)
        [["unversion", 1], ["delete", 1], ["new_file", "a", 0, "MV", 1, None]],   # path lookup: repaired 33f6199
        [["new_dir", "p", 0, None], ["new_dir", "q", 6, 11], ["adjust", "p", 7, 6]],   # was RecursionError: repaired 3ace332 (now C14-resolve-keyerror)
    ]
    ops += [
        # limbo shuffles: a file moved out of a new directory, its name re-used, the directory renamed/moved
        [["new_dir", "g", 0, 40], ["new_dir", "p", 6, 41], ["new_file", "c", 7, "C", 42, None],
         ["new_dir", "q", 6, 43], ["adjust", "c", 9, 8], ["new_file", "c", 7, "D", 44, None], ["adjust", "px", 6, 7]],
        [["new_dir", "g", 2, 40], ["new_dir", "p", 6, 41], ["new_file", "c", 7, "C", 42, True],
         ["new_dir", "q", 0, 43], ["adjust", "c2", 9, 8], ["new_file", "c", 7, "D", 44, None], ["adjust", "p", 9, 7]],
        [["new_dir", "g", 0, None], ["new_dir", "p", 6, None], ["new_file", "c", 7, "C", None, None],
         ["new_file", "d", 7, "E", None, None], ["new_dir", "q", 6, None], ["adjust", "c", 9, 8],
         ["new_file", "c", 7, "D", None, None], ["adjust", "px", 0, 7], ["adjust", "d", 6, 9]],
    ]
    ops += [
        # a deleted but still versioned entry and a new entry of the same name in the same directory:
        # must be reported as a duplicate (a conflict-free transform must apply)
        [["delete", 1], ["new_file", "a", 0, "N", 31, None]],
        [["new_dir", "x", 2, 32], ["delete", 3]],
        [["delete", 5], ["adjust", "b", 0, 1]],
    ]
    ops += [
        # unversion + version of the same trans id with the id of another tree entry (duplicate id), with an id
        # the other entry gave away, with its own id
        [["unversion", 1], ["version", 1, 4]],
        [["unversion", 3], ["version", 3, 2]],
        [["unversion", 1], ["unversion", 5], ["version", 1, 4]],
        [["unversion", 1], ["version", 1, 1]],
        [["unversion", 5], ["version", 5, 1], ["adjust", "b", 2, 5]],
    ]
    out = [{"base": B0, "ops": o} for o in ops]
    # unversioned tree directory with a versioned child, moved into itself: repaired 3ace332, must pass
    out.append({"base": [[0, "u", "d", "", False, None], [0, "b", "f", "B", False, 4]],
                "ops": [["adjust", "b", 1, 2], ["adjust", "u", 1, 1]]})
    out.append({"base": B0, "ops": [["new_dir", "n", 0, None], ["new_file", "f", 6, "F", 21, None]], "fmt": "git"})
    out.append({"base": B0, "ops": [["new_file", "w", 0, "W", None, None]], "fmt": "git"})   # is_versioned: repaired 027384d, must pass
    out.append({"base": B0, "ops": [["new_file", "k", 0, "K", 14, None], ["new_file", "c", 6, "C", 15, None]]})  # DuplicateKey
    out.append({"base": [[0, "e", "f", "E1", True, 1], [0, "a", "d", "", False, 2]],
                "ops": [["new_dir", "a", 0, 2]], "fmt": "git"})     # duplicate directories (git finding)
    return out


def cases(rng, tier):
    n = 260 if tier == "quick" else 2000
    for _ in range(n):
        yield gen_case(rng, tier)
    ng = 30 if tier == "quick" else 150
    for _ in range(ng):
        c = gen_case(rng, tier)
        c["fmt"] = "git"
        yield c


# --------------------------------------------------------------------------- oracle

def _mask(rows):
    out = []
    for r in rows:
        i = r.index(-1)
        out.append(r[:i + 2] + [r[i + 3]])        # path, kind, fid
    return out


def oracle(inp, obs):
    if isinstance(obs, Err):
        return "driver error " + str(obs)
    if isinstance(obs[0], Err):
        return None                    # an op itself was rejected: nothing was resolved or applied
    if isinstance(obs[1], Err):
        return f"find_raw_conflicts raised {obs[1]}"
    status = obs[2]
    if isinstance(status, Err):
        if obs[3] != "untouched":
            return f"resolve_conflicts raised {status} and the tree was changed"
        if status != "MalformedTransform":
            return f"resolve_conflicts raised {status} (neither clean nor MalformedTransform)"
        return None
    _, raw0, status, newc, raw1, preview, astatus, after = obs
    if raw1:
        return "resolve_conflicts returned but raw conflicts remain"
    if isinstance(astatus, Err):
        return f"apply of a conflict-free transform raised {astatus}"
    if isinstance(preview, Err):
        return f"preview tree raised {preview}"
    if inp.get("fmt", "bzr") != "bzr":
        return None      # git: directory versioning and extras() differ by design; listings not compared
    if any(r[-1] == -3 for r in preview):
        return "preview path lookup is ambiguous (a dead trans id shares parent and name with another one)"
    if preview != after:
        if _mask(preview) == _mask(after):
            return "preview differs from the applied tree in content/exec only"
        return "preview differs from the applied tree (paths, kinds or versioning)"
    return None


def _created(inp):
    created, n = set(), len(inp["base"]) + 1
    for o in inp["ops"]:
        if o[0] in ("create_path", "new_file", "new_dir"):
            created.add(n)
            n += 1
    return created


def _reversion(inp):
    """version_file on a base path that is versioned and was not unversioned before."""
    unv = set()
    for o in inp["ops"]:
        if o[0] == "unversion":
            unv.add(o[1])
        if (o[0] == "version" and 1 <= o[1] <= len(inp["base"]) and inp["base"][o[1] - 1][5] is not None
                and o[1] not in unv):
            return True
    return False


def _dead_versioned(inp):
    """delete_contents of a versioned base path that stays versioned."""
    unv = {o[1] for o in inp["ops"] if o[0] == "unversion"}
    return any(o[0] == "delete" and 1 <= o[1] <= len(inp["base"]) and inp["base"][o[1] - 1][5] is not None
               and o[1] not in unv for o in inp["ops"])


def _dead_child_below_file(inp, obs):
    """The preview (after resolve) lists a versioned entry without contents whose parent is a FILE (on disk,
    or -- when the parent has no contents either -- a file in the inventory)."""
    if len(obs) < 8 or not isinstance(obs[5], list):
        return False
    stored = {b[5] + 1: b[2] for b in inp["base"] if b[5] is not None}
    isfile = {}
    dead = []
    for r in obs[5]:
        if r[-1] == -3:
            continue
        i = r.index(-1)
        path = bytes(r[:i]).decode()
        kind, fid = r[i + 1], r[i + 3]
        isfile[path] = kind == 1 or (kind == 0 and stored.get(fid) == "f")
        if kind == 0 and fid > 0:
            dead.append(path)
    return any("/" in p and isfile.get(p.rsplit("/", 1)[0]) for p in dead)


def finding_matches(fid, inp, obs, why):
    nbase = len(inp["base"])
    if fid == "C14-replaced-directory":
        dirs = {i + 1 for i, b in enumerate(inp["base"]) if b[2] == "d"
                and any(c[0] == i + 1 for c in inp["base"])}
        return (why.startswith("apply of a conflict-free transform raised OSError")
                and any(o[0] == "delete" and o[1] in dirs for o in inp["ops"]))
    if fid == "C14-resolve-keyerror":
        return (why.startswith("resolve_conflicts raised KeyError")
                and any(r[0] == 2 for r in obs[1]))
    if fid == "C14-git-duplicate-dirs-keyerror":
        return (why.startswith("resolve_conflicts raised KeyError") and inp.get("fmt") == "git"
                and any(r[0] == 3 for r in obs[1]))
    if fid == "C14-resolve-duplicatekey":
        return (why.startswith("resolve_conflicts raised DuplicateKey")
                and any(r[0] in (1, 5, 10) for r in obs[1]))
    if fid == "C14-unversion-new-id":
        return (why.startswith("apply of a conflict-free transform raised KeyError")
                and any(o[0] == "unversion" and o[1] in _created(inp) for o in inp["ops"]))
    if fid == "C14-reversion":
        return ((why.startswith("apply of a conflict-free transform raised InconsistentDelta")
                 or why.startswith("preview differs from the applied tree")) and _reversion(inp))
    if fid == "C14-dead-versioned-child":
        return ((why.startswith("apply of a conflict-free transform raised InconsistentDelta")
                 or why.startswith("preview differs from the applied tree (paths"))
                and not _reversion(inp) and _dead_versioned(inp) and _dead_child_below_file(inp, obs))
    if fid == "C14-unversion-unversioned":
        return (why.startswith("find_raw_conflicts raised NoSuchFile")
                and any(o[0] == "unversion" and 1 <= o[1] <= nbase and inp["base"][o[1] - 1][5] is None
                        for o in inp["ops"]))
    return False


def nontrivial(inp, obs):
    if isinstance(obs, Err) or isinstance(obs[0], Err) or isinstance(obs[1], Err):
        return False
    return bool(obs[1]) or len(obs) > 4


def distribution(inputs, observations):
    d = {"op_error": 0, "raw_error": 0, "clean_no_conflicts": 0, "resolved": 0, "malformed": 0,
         "resolve_raised": 0, "apply_failed": 0, "preview_eq": 0, "preview_ne": 0, "git": 0,
         "conflict_kinds": {}, "ops": {}}
    for i, o in zip(inputs, observations):
        if i.get("fmt") == "git":
            d["git"] += 1
        for op in i["ops"]:
            d["ops"][op[0]] = d["ops"].get(op[0], 0) + 1
        if isinstance(o, Err):
            continue
        if isinstance(o[0], Err):
            d["op_error"] += 1
            continue
        if isinstance(o[1], Err):
            d["raw_error"] += 1
            continue
        for r in o[1]:
            d["conflict_kinds"][str(r[0])] = d["conflict_kinds"].get(str(r[0]), 0) + 1
        if isinstance(o[2], Err):
            d["malformed" if o[2] == "MalformedTransform" else "resolve_raised"] += 1
            continue
        d["resolved" if o[1] else "clean_no_conflicts"] += 1
        if isinstance(o[6], Err):
            d["apply_failed"] += 1
        d["preview_eq" if o[5] == o[7] else "preview_ne"] += 1
    return d


def shrink(inp, fails):
    ops = list(inp["ops"])
    changed = True
    while changed:
        changed = False
        for i in range(len(ops)):
            cand = dict(inp, ops=ops[:i] + ops[i + 1:])
            try:
                if fails(cand):
                    ops, changed = cand["ops"], True
                    break
            except Exception:
                pass
    return dict(inp, ops=ops)


FINDINGS = ["C14-replaced-directory", "C14-resolve-keyerror", "C14-resolve-duplicatekey",
            "C14-unversion-unversioned", "C14-unversion-new-id", "C14-reversion",
            "C14-dead-versioned-child", "C14-git-duplicate-dirs-keyerror"]
FIXED = ["C14-preview-content-exec", "C14-preview-path-lookup", "C14-resolve-valueerror",
         "C14-git-preview-is-versioned", "C14-resolve-recursionerror"]
# repaired in /repo (2ecf5bb 33f6199 4df7934 027384d 3ace332)
