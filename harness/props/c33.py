"""C33 -- search recipes sent to the server describe exactly the intended revisions (tie H).

Revisions are small ints: 0 <-> b"" (what the server's split of an empty line yields),
1 <-> b"null:", n >= 2 <-> b"r<n>".  A case carries the server graph g, the client's
cached parent map pm, its missing_keys and (limited recipe) tip keys + depth.  The real
client functions build the recipe, the real _serialise_search_recipe puts it on the wire,
the real recreate_search_from_recipe replays it over g (stub repository whose get_graph()
is a real vcsgraph Graph).  The Coq model (Model/Search.v) predicts every observation.
"""
import contextlib
import itertools

from vlib import Err, coq_list, coq_nat

PROP = "C33"
COQ = {
    "property_file": "Properties/C33.v",
    "imports": "From BV Require Import Lib.DagSearch Model.Search.",
}
META = {
    "level": "proof",
    "title": "Search recipes sent to the server describe exactly the intended revisions",
    "technique": ("Coq theorems (unbounded DAGs, any cached fragment, any tips/depth) over a hand model of vf_search / "
                  "_serialise_search_recipe / recreate_search_from_recipe + a Gallina breadth-first searcher validated "
                  "against vcsgraph._BreadthFirstSearcher; exhaustive small-DAG and random correspondence"),
    "level_text": ("For every acyclic parent-map fragment of any server graph, every ghost set and every tip set / depth, the "
                   "recipe built by search_result_from_parent_map (resp. limited_search_result_from_parent_map) makes the "
                   "server's breadth-first replay include exactly the cached keys (resp. exactly the keys of the client's own "
                   "limited walk, a subset of the cache excluding the tips), the count check passes, and the wire format "
                   "round-trips.  Two machine-checked refutations show the client-state hypotheses are necessary."),
    "level_note": ("Trusted: Coq kernel, vm_compute, the hand model's correspondence (bounded sampling: exhaustive DAGs up to 3/4 "
                   "non-null revisions, random DAGs up to 30), the Gallina BFS as a model of the compiled vcsgraph searcher."),
    "design_ref": "DESIGN.md §5 C33",
    "trusted_base": ["hand model coq/Model/Search.v of breezy/bzr/vf_search.py, remote.py:_serialise_search_recipe, "
                     "smart/repository.py:recreate_search_from_recipe",
                     "coq/Lib/DagSearch.v:bfs as a model of vcsgraph._BreadthFirstSearcher (validated on every run, kind=bfs and every replay)",
                     "correspondence harness harness/props/c33.py (stub repository: lock_read + get_graph over a dict; plus two real 2a repositories)"],
    "assumptions": ["the client's cached parent map is a faithful fragment of the server graph (same parents tuple per key)",
                    "revision graphs are acyclic (modelled: every parent id is smaller than its child)",
                    "missing_keys are absent on the server (except null:), and disjoint from the cached keys",
                    "the server graph maps null: to () and has no revision b''",
                    "revision ids contain no space or newline (wire round trip)",
                    "vcsgraph._BreadthFirstSearcher / invert_parent_map / DictParentsProvider behave like Lib/DagSearch.bfs (environment)",
                    "Python str(int)/int(bytes) are inverse on non-negative ints (modelled by dec/undec, proved inverse)"],
    "rule": ("exhaustive: all DAGs over <=3 (quick) / <=4 (thorough) non-null revisions with ghosts x all cached key subsets x "
             "missing sets x tips/depths; random DAGs up to 30 revisions; non-trivial = the server walk includes >= 2 revisions"),
}
SHARD = 200

EMPTY, NULL = 0, 1


def enc(n):
    return b"" if n == 0 else (b"null:" if n == 1 else b"r%d" % n)


def dec(b):
    if b == b"":
        return 0
    if b == b"null:":
        return 1
    if b[:1] == b"r" and b[1:].isdigit():
        return int(b[1:])
    raise ValueError("unexpected key %r" % (b,))


def _ints(keys):
    return sorted(dec(k) for k in keys)


class _StubRepo:
    """What recreate_search_from_recipe needs from a repository: lock_read() and get_graph()."""

    def __init__(self, pmap):
        from vcsgraph.graph import DictParentsProvider, Graph
        self._graph = Graph(DictParentsProvider(pmap))

    def lock_read(self):
        return contextlib.nullcontext()

    def get_graph(self):
        return self._graph


# real repositories (built once in setup): spec graphs, ids as everywhere else; 2 and 9 are ghosts
REAL = {
    "R0": [[1, []], [3, [1]], [4, [3]], [5, [3]], [6, [4, 5]], [7, [6, 2]]],
    "R1": [[1, []], [3, [1]], [4, [3]], [5, [3]], [6, [4, 5]], [7, [3]], [8, [6, 7]], [10, [8, 9]], [11, [8]],
           [12, [10, 11]], [13, [12, 2]], [14, [11]], [15, [13, 14]], [16, [15]]],
}
_repos = {}


def setup(scratch):
    import breezy.bzr  # noqa
    from breezy.branchbuilder import BranchBuilder
    from dromedary.memory import MemoryTransport
    for name, spec in REAL.items():
        b = BranchBuilder(MemoryTransport("memory:///c33-%s/" % name), format="2a")
        b.start_series()
        first = True
        for k, ps in spec:
            if k == NULL:
                continue
            if first:
                b.build_snapshot(None, [("add", ("", b"root-id", "directory", None))], revision_id=enc(k))
                first = False
            else:
                b.build_snapshot([enc(p) for p in ps], [], revision_id=enc(k))
        b.finish_series()
        repo = b.get_branch().repository
        with repo.lock_read():
            ids = [enc(k) for k in range(0, 20)]
            real = {dec(k): [dec(p) for p in v] for k, v in repo.get_graph().get_parent_map(ids).items()}
        if real != {k: ps for k, ps in spec}:
            raise RuntimeError("real repository %s does not have the specified graph: %r" % (name, real))
        _repos[name] = repo


def teardown():
    _repos.clear()


def _bytes_map(pairs):
    return {enc(k): tuple(enc(p) for p in ps) for k, ps in pairs}


# ---------------------------------------------------------------- guards (mirror Model/Search.v client_okb)
def guard_common(inp):
    g = {k: list(ps) for k, ps in inp["g"]}
    pmk = [k for k, _ in inp["pm"]]
    if len(set(pmk)) != len(pmk):
        return False
    for k, ps in inp["pm"]:
        if k not in g or g[k] != list(ps):
            return False
        if any(p >= k for p in ps):
            return False
    return EMPTY not in g


def guard_full(inp):
    if not guard_common(inp):
        return False
    g = {k: list(ps) for k, ps in inp["g"]}
    if g.get(NULL) != []:
        return False
    pmk = {k for k, _ in inp["pm"]}
    for m in inp["missing"]:
        if m in pmk:
            return False
        if m != NULL and m in g:
            return False
    return True


# ---------------------------------------------------------------- implementation driver
def _server(g, start, stop, count, real=None):
    from breezy.bzr.remote import RemoteRepository
    from breezy.bzr.smart.repository import SmartServerRepositoryRequest
    recipe = ("manual", start, stop, count)
    body = RemoteRepository._serialise_search_recipe(None, recipe)
    req = SmartServerRepositoryRequest(None)
    # SmartServerRepositoryGetParentMap._do_repository_request: body_bytes.split(b"\n")
    repo = _repos[real] if real else _StubRepo(_bytes_map(g))
    sr, err = req.recreate_search_from_recipe(repo, body.split(b"\n"))
    if err is not None:
        sobs = Err(err.args[0].decode("ascii"))
    else:
        _kind, started, excludes, n = sr.get_recipe()
        sobs = [_ints(started), _ints(excludes), _ints(sr.get_keys()), n]
    wire = RemoteRepository._serialise_search_recipe(
        None, ("manual", [enc(k) for k in _ints(start)], [enc(k) for k in _ints(stop)], count))
    return [_ints(start), _ints(stop), count, wire, sobs]


def _walk(graph, start, excl):
    """The loop of recreate_search_from_recipe / _run_search around the real searcher."""
    s = graph._make_breadth_first_searcher(start)
    refs = set()
    while True:
        try:
            next_revs = next(s)
        except StopIteration:
            break
        for ps in s._current_parents.values():
            refs.update(ps)
        s.stop_searching_any(excl.intersection(next_revs))
    for ps in s._current_parents.values():
        refs.update(ps)
    started, excludes, included = s.get_state()
    return set(s.seen), set(excludes), set(included), refs


def impl(inp):
    import breezy.bzr  # noqa
    from breezy.bzr import vf_search
    kind = inp["kind"]
    if kind == "bfs":
        from vcsgraph.graph import DictParentsProvider, Graph
        graph = Graph(DictParentsProvider(_bytes_map(inp["g"])))
        seen, excludes, included, refs = _walk(graph, {enc(k) for k in inp["start"]}, {enc(k) for k in inp["excl"]})
        return [_ints(seen), _ints(excludes), _ints(included), _ints(refs)]
    pm = _bytes_map(inp["pm"])
    missing = {enc(k) for k in inp["missing"]}
    if kind == "full":
        start, stop, count = vf_search.search_result_from_parent_map(pm, missing)
        return _server(inp["g"], start, stop, count, inp.get("real"))
    if kind == "limited":
        tips = {enc(k) for k in inp["tips"]}
        depth = inp["depth"]
        heads = vf_search._find_possible_heads(pm, set(tips), depth)
        s, found_heads = vf_search._run_search(pm, set(heads), set(tips))
        client_keys = s.get_state()[2]
        start, stop, count = vf_search.limited_search_result_from_parent_map(pm, missing, set(tips), depth)
        return [_ints(heads), _ints(found_heads), _ints(client_keys)] + _server(inp["g"], start, stop, count, inp.get("real"))
    raise ValueError(kind)


# ---------------------------------------------------------------- model term
def _bound(inp):
    m = 2
    for k, ps in list(inp["g"]) + list(inp.get("pm", [])):
        m = max([m, k] + list(ps))
    for f in ("missing", "tips", "start", "excl"):
        m = max([m] + list(inp.get(f, [])))
    return m + 1


def _graph(pairs):
    return coq_list([f"({k}, {coq_list([str(p) for p in ps])})" for k, ps in pairs])


def _set(xs):
    return coq_list([str(x) for x in xs])


def model_term(inp):
    b = _bound(inp)
    if b > 4000:
        raise ValueError("ids too large")
    kind = inp["kind"]
    if kind == "bfs":
        t = f"run_bfs {b} {_graph(inp['g'])} {_set(inp['start'])} {_set(inp['excl'])}"
    elif kind == "full":
        t = f"run_full {b} {_graph(inp['g'])} {_graph(inp['pm'])} {_set(inp['missing'])}"
    else:
        t = (f"run_limited {b} {_graph(inp['g'])} {_graph(inp['pm'])} {_set(inp['missing'])} "
             f"{_set(inp['tips'])} {inp['depth']}")
    return f"({t})%nat"


# ---------------------------------------------------------------- the property on the implementation
def oracle(inp, obs):
    if isinstance(obs, Err):
        return "driver error " + str(obs)
    kind = inp["kind"]
    if kind == "bfs":
        return None
    pmk = {k for k, _ in inp["pm"]}
    if kind == "full":
        if not guard_full(inp):
            return None
        start, stop, count, wire, sobs = obs
        refs = {p for _, ps in inp["pm"] for p in ps}
        intended = set(pmk)
        if NULL in refs and NULL in inp["missing"]:
            intended.add(NULL)
        if isinstance(sobs, Err):
            return f"server rejects the recipe ({sobs}): start={start} stop={stop} count={count}, intended {sorted(intended)}"
        walked = set(sobs[2])
        if walked != intended:
            return (f"server walk {sorted(walked)} != intended {sorted(intended)} "
                    f"(missing {sorted(intended - walked)}, extra {sorted(walked - intended)})")
        if sobs[3] != count:
            return "count mismatch accepted"
        return None
    if not guard_common(inp):
        return None
    heads, found_heads, client_keys, start, stop, count, wire, sobs = obs
    if isinstance(sobs, Err):
        return f"server rejects the limited recipe ({sobs}): start={start} stop={stop} count={count}"
    walked = set(sobs[2])
    if not walked <= pmk:
        return f"limited walk includes revisions the client has not seen: {sorted(walked - pmk)}"
    if walked & set(inp["tips"]):
        return f"limited walk includes requested tips {sorted(walked & set(inp['tips']))}"
    if walked != set(client_keys):
        return f"server walk {sorted(walked)} != client walk {sorted(client_keys)}"
    return None


def finding_matches(fid, inp, obs, why):
    return False


def nontrivial(inp, obs):
    if isinstance(obs, Err):
        return False
    if inp["kind"] == "bfs":
        return len(obs[2]) >= 2
    sobs = obs[-1]
    return (not isinstance(sobs, Err)) and len(sobs[2]) >= 2


def distribution(inputs, observations):
    d = {"full": 0, "limited": 0, "bfs": 0, "real_repository": 0, "guard_holds": 0, "server_rejects": 0, "with_ghosts": 0,
         "null_rule_fires": 0, "found_heads_nonempty": 0, "by_nodes": {}, "by_walk_size": {}}
    for i, o in zip(inputs, observations):
        d[i["kind"]] += 1
        if i.get("real"):
            d["real_repository"] += 1
        present = {k for k, _ in i["g"]}
        refs = {p for _, ps in i["g"] for p in ps}
        if refs - present:
            d["with_ghosts"] += 1
        k = str(min(len(i["g"]), 31))
        d["by_nodes"][k] = d["by_nodes"].get(k, 0) + 1
        if isinstance(o, Err) or i["kind"] == "bfs":
            continue
        if (guard_full(i) if i["kind"] == "full" else guard_common(i)):
            d["guard_holds"] += 1
        sobs = o[-1]
        if isinstance(sobs, Err):
            d["server_rejects"] += 1
        else:
            w = str(min(len(sobs[2]), 20))
            d["by_walk_size"][w] = d["by_walk_size"].get(w, 0) + 1
        if i["kind"] == "full" and NULL in i["missing"] and any(NULL in ps for _, ps in i["pm"]):
            d["null_rule_fires"] += 1
        if i["kind"] == "limited" and o[1]:
            d["found_heads_nonempty"] += 1
    return d


# ---------------------------------------------------------------- generators
def _subsets(xs):
    xs = list(xs)
    for r in range(len(xs) + 1):
        for c in itertools.combinations(xs, r):
            yield list(c)


def _small_graphs(n):
    """All graphs over ids 2..n+1 (+ null: = 1 -> ()): each id is a ghost or has any set of lower parents."""
    ids = list(range(2, n + 2))
    opts = []
    for i in ids:
        lower = [1] + [j for j in ids if j < i]
        opts.append([None] + [ps for ps in _subsets(lower)])
    for choice in itertools.product(*opts):
        g = [[1, []]]
        for i, ps in zip(ids, choice):
            if ps is not None:
                g.append([i, ps])
        # a ghost that nobody references does not exist
        yield g, [i for i, ps in zip(ids, choice) if ps is None]


def _sub(g, keys):
    d = dict((k, ps) for k, ps in g)
    return [[k, d[k]] for k in keys]


def _exhaustive(n, rng, limited_per_graph):
    for g, ghosts in _small_graphs(n):
        present = [k for k, _ in g]
        for keys in _subsets(present[1:]):
            pm = _sub(g, keys)
            refs = {p for _, ps in pm for p in ps}
            ghost_refs = [x for x in ghosts if x in refs]
            for miss in _subsets(ghost_refs):
                for with_null in ((False, True) if 1 in refs else (False,)):
                    yield {"kind": "full", "g": g, "pm": pm, "missing": miss + ([1] if with_null else [])}
            universe = list(range(2, n + 3))
            for _ in range(limited_per_graph):
                tips = [x for x in universe if rng.random() < 0.4]
                yield {"kind": "limited", "g": g, "pm": pm, "missing": [], "tips": tips,
                       "depth": rng.choice([0, 1, 1, 2, 3, 100])}


def _random_graph(rng, n):
    ids = list(range(2, n + 2))
    ghosts = set(i for i in ids if rng.random() < 0.12)
    g = [[1, []]]
    shape = rng.random()
    for i in ids:
        if i in ghosts:
            continue
        lower = [j for j in ids if j < i]
        if not lower or rng.random() < 0.08:
            ps = [1] if rng.random() < 0.9 else []
        else:
            k = 1 if shape < 0.3 else rng.choice([1, 1, 2, 2, 3])
            recent = lower[-6:] if rng.random() < 0.7 else lower
            ps = rng.sample(recent, min(k, len(recent)))
        g.append([i, ps])
    return g, ghosts


def _closed_fragment(rng, g):
    """Keys returned by a BFS of bounded depth from some heads (what a client cache usually holds)."""
    d = dict((k, ps) for k, ps in g)
    present = [k for k in d if k != 1]
    if not present:
        return []
    cur = set(rng.sample(present, min(len(present), rng.randint(1, 3))))
    keys = set()
    for _ in range(rng.randint(1, 8)):
        keys |= {k for k in cur if k in d}
        cur = {p for k in cur if k in d for p in d[k]} - keys
    return sorted(keys)


def _random_case(rng, n, kind):
    g, ghosts = _random_graph(rng, n)
    d = dict((k, ps) for k, ps in g)
    present = sorted(d)
    if kind == "bfs":
        allids = list(range(0, n + 3))
        return {"kind": "bfs", "g": g, "start": rng.sample(allids, rng.randint(0, min(4, len(allids)))),
                "excl": [x for x in allids if rng.random() < 0.2]}
    r = rng.random()
    if r < 0.5:
        keys = _closed_fragment(rng, g)
    elif r < 0.9:
        keys = [k for k in present if k != 1 and rng.random() < rng.choice([0.3, 0.6, 0.9])]
    else:
        keys = [k for k in present if rng.random() < 0.7]           # may cache null: itself
    if rng.random() < 0.1 and 1 not in keys:
        keys = [1] + keys
    pm = _sub(g, sorted(keys))
    refs = {p for _, ps in pm for p in ps}
    missing = [x for x in sorted(refs) if x not in d and rng.random() < 0.6]
    if 1 in refs and rng.random() < 0.25:
        missing.append(1)
    q = rng.random()
    if q < 0.06:          # stale negative cache: a "missing" key the server now has (guard false)
        cand = [x for x in refs if x in d and x not in keys and x != 1]
        if cand:
            missing.append(rng.choice(cand))
    elif q < 0.09 and pm:  # cache disagrees with the server (guard false)
        i = rng.randrange(len(pm))
        pm[i] = [pm[i][0], [p for p in pm[i][1][1:]]]
    if kind == "full":
        return {"kind": "full", "g": g, "pm": pm, "missing": missing}
    notcached = [k for k in range(2, n + 4) if k not in keys]
    frontier = [p for p in refs if p not in keys]
    tips = set()
    for _ in range(rng.randint(0, 4)):
        q2 = rng.random()
        pool = frontier if (frontier and q2 < 0.4) else (list(keys) if (keys and q2 < 0.8) else notcached)
        if pool:
            tips.add(rng.choice(pool))
    return {"kind": "limited", "g": g, "pm": pm, "missing": missing, "tips": sorted(tips),
            "depth": rng.choice([0, 1, 1, 2, 2, 3, 5, 100])}


def _real_cases(rng, n):
    for i in range(n):
        name = rng.choice(sorted(REAL))
        g = REAL[name]
        d = dict((k, ps) for k, ps in g)
        r = rng.random()
        if r < 0.5:
            keys = _closed_fragment(rng, g)
        else:
            keys = [k for k in sorted(d) if (k != 1 or rng.random() < 0.1) and rng.random() < rng.choice([0.3, 0.6, 0.9])]
        pm = _sub(g, sorted(keys))
        refs = {p for _, ps in pm for p in ps}
        missing = [x for x in sorted(refs) if x not in d and rng.random() < 0.6]
        if 1 in refs and 1 not in keys and rng.random() < 0.25:
            missing.append(1)
        if i % 2 == 0:
            yield {"kind": "full", "real": name, "g": g, "pm": pm, "missing": missing}
        else:
            pool = [p for p in refs if p not in keys] + list(keys) + [17, 18]
            tips = sorted(set(rng.choice(pool) for _ in range(rng.randint(0, 3))))
            yield {"kind": "limited", "real": name, "g": g, "pm": pm, "missing": missing, "tips": tips,
                   "depth": rng.choice([0, 1, 1, 2, 3, 100])}


def _found_head_cases(rng, n):
    """Limited recipes on merge-heavy caches with several tips, so that heads are found again while walking."""
    for _ in range(n):
        ids = list(range(2, rng.choice([6, 8, 10, 14]) + 2))
        g = [[1, []]]
        for i in ids:
            lower = [j for j in ids if j < i][-3:]
            g.append([i, rng.sample(lower, min(len(lower), rng.randint(1, 2))) if lower else [1]])
        keys = [k for k in ids if rng.random() < 0.95]
        pm = _sub(g, keys)
        tips = sorted(set(rng.sample(keys, min(len(keys), rng.randint(1, 3)))))
        yield {"kind": "limited", "g": g, "pm": pm, "missing": [], "tips": tips, "depth": rng.choice([1, 1, 2, 3])}


def corpus():
    g = [[1, []], [3, [1]], [4, [3]], [5, [3]], [6, [4, 5]], [7, [6, 2]]]      # 2 is a ghost
    out = [
        # nothing cached: recipe ([], [], 0) -> server starts at {b""}
        {"kind": "full", "g": g, "pm": [], "missing": []},
        {"kind": "limited", "g": g, "pm": [], "missing": [], "tips": [7], "depth": 100},
        # the NULL_REVISION-in-missing_keys rule
        {"kind": "full", "g": g, "pm": _sub(g, [3, 4]), "missing": [1]},
        # a ghost that is known missing, and one that is not
        {"kind": "full", "g": g, "pm": _sub(g, [6, 7]), "missing": [2]},
        {"kind": "full", "g": g, "pm": _sub(g, [6, 7]), "missing": []},
        # non search-closed fragment
        {"kind": "full", "g": g, "pm": _sub(g, [3, 7]), "missing": []},
        # refutation witnesses of Properties/C33.v (guard false -> server rejects; model must agree)
        {"kind": "full", "g": [[1, []], [2, [1]], [3, [2]]], "pm": [[3, [2]]], "missing": [2]},
        {"kind": "full", "g": [[1, []], [2, [1]]], "pm": [[1, []], [2, [1]]], "missing": [1]},
        {"kind": "full", "g": [[1, []], [2, [1]], [3, [2]], [4, [3]]], "pm": [[4, [2]], [2, [1]]], "missing": []},
        # limited: heads found again while walking
        {"kind": "limited", "g": g, "pm": _sub(g, [4, 5, 6, 7]), "missing": [], "tips": [3], "depth": 1},
        {"kind": "limited", "g": g, "pm": _sub(g, [4, 5, 6, 7]), "missing": [], "tips": [3], "depth": 100},
        {"kind": "limited", "g": g, "pm": _sub(g, [4, 5, 6, 7]), "missing": [], "tips": [3, 4], "depth": 1},
        {"kind": "limited", "g": g, "pm": _sub(g, [4, 5, 6, 7]), "missing": [], "tips": [3, 6], "depth": 2},
        {"kind": "limited", "g": g, "pm": _sub(g, [4, 5, 6, 7]), "missing": [], "tips": [3, 8], "depth": 0},
        # the same through a real 2a repository (index-backed graph, null: handling of get_graph())
        {"kind": "full", "real": "R0", "g": REAL["R0"], "pm": _sub(g, [6, 7]), "missing": [2]},
        {"kind": "full", "real": "R0", "g": REAL["R0"], "pm": [], "missing": []},
        {"kind": "full", "real": "R0", "g": REAL["R0"], "pm": _sub(g, [3, 4]), "missing": [1]},
        {"kind": "limited", "real": "R0", "g": REAL["R0"], "pm": _sub(g, [4, 5, 6, 7]), "missing": [], "tips": [3, 4], "depth": 1},
        {"kind": "bfs", "g": g, "start": [7], "excl": [4]},
        {"kind": "bfs", "g": g, "start": [], "excl": []},
    ]
    return out


def cases(rng, tier):
    quick = tier == "quick"
    for n in ((1, 2, 3) if quick else (1, 2, 3, 4)):
        if n == 4:
            # 4 non-null revisions: 3*5*9*17 = 2295 graphs; sample the fragments
            allc = _exhaustive(4, rng, 1)
            for c in allc:
                if rng.random() < 0.06:
                    yield c
        else:
            yield from _exhaustive(n, rng, 2 if quick else 4)
    yield from _real_cases(rng, 200 if quick else 1500)
    yield from _found_head_cases(rng, 250 if quick else 1500)
    nrand = 900 if quick else 6000
    for i in range(nrand):
        n = rng.choice([4, 6, 8, 12, 20, 30]) if not quick else rng.choice([4, 6, 8, 12, 20])
        kind = ("full", "limited", "limited", "bfs")[i % 4]
        yield _random_case(rng, n, kind)


def shrink(inp, fails):
    cur = inp
    changed = True
    while changed:
        changed = False
        # drop server revisions from the tip, cached keys, missing, tips
        for field in ("g", "pm", "missing", "tips", "start", "excl"):
            xs = cur.get(field)
            if not xs or (field == "g" and cur.get("real")):
                continue
            for i in range(len(xs) - 1, -1, -1):
                if field == "g" and xs[i][0] == 1:
                    continue
                cand = dict(cur)
                cand[field] = xs[:i] + xs[i + 1:]
                if field == "g":
                    gone = xs[i][0]
                    cand["pm"] = [kv for kv in cur.get("pm", []) if kv[0] != gone]
                try:
                    if fails(cand):
                        cur, changed = cand, True
                        break
                except Exception:
                    pass
            if changed:
                break
    return cur


def search(hints, rng):
    """Wider oracle search around disagreeing inputs / after a broken obligation."""
    import random
    r = random.Random(rng.random())
    pool = list(hints)
    for _ in range(3000):
        n = r.choice([3, 4, 5, 6, 8])
        pool.append(_random_case(r, n, r.choice(["full", "limited"])))
    for inp in pool:
        try:
            o = impl(inp)
        except Exception:
            continue
        why = oracle(inp, o)
        if why:
            return inp, o, why
    return None
