"""C40 -- Bundles and merge directives reproduce the revisions they carry.

Tie H.  Two families of cases:
  * codec cases (kinds codec / tamper / stanza / date / verify / name): the merge-directive
    codec, the RIO-patch layer under it, patch dates, _verify_patch and the v4 record names
    are executed on the real code and compared with coq/Model/Directive.v byte for byte;
  * history cases (kind bundle / merge): generated histories (renames, exec changes, symlinks,
    binary files, merges, odd names) are materialised in real repositories; bundles of every
    (base, target) ancestor pair are written (formats 4, 0.9, 0.8), installed into a repository
    holding the base's ancestry, and compared with the originals (testaments, file texts,
    revision set = coq/Model/BundleSet.v); merge directives are merged and compared with a
    merge from the branch; single bytes of the bundle text are tampered with.
"""
import base64
import os
import shutil
import tempfile
from io import BytesIO

from vlib import Err, Tag, coq_bytes, coq_list, coq_Z, coq_N, coq_nat, coq_option, coq_pair

PROP = "C40"
COQ = {
    "property_file": "Properties/C40.v",
    "imports": "From BV Require Import Lib.Bytes Lib.Dag Model.OsUtils Model.Directive Model.BundleSet.",
}
RUST_PACKAGES = ["patch-py"]
SHARD = 300
META = {
    "level": "proof",
    "title": "Bundles and merge directives reproduce the revisions they carry",
    "technique": ("Coq theorems over a hand model of the MergeDirective2 codec (incl. the RIO-patch layer and patch dates), "
                  "of _verify_patch, of the v4 record names and of bundle contents as revision sets over Lib/Dag; "
                  "byte-exact correspondence of the codec with the real code; generated real histories bundled, installed, "
                  "merged and tampered with in formats 4 / 0.9 / 0.8"),
    "level_text": ("Proved for all inputs of the model: from_lines(to_lines(d)) = d for every MergeDirective2 satisfying the "
                   "executable guard dir_ok (all field values, unbounded lengths; the RIO-patch wrapping/unwrapping of bzrformats is "
                   "part of the model and of the proof), with a machine-checked witness for every excluded class (CR at a line end, "
                   "backslash cut by the 68-column wrap, sub-second time, patch line '# Begin bundle'); "
                   "parse_patch_date(format_patch_date) round trip on its whole domain (negative half-hour zones included since the "
                   "repair of C40-patch-date-negative-minutes); "
                   "_verify_patch detects every difference outside blanks/line ends (so every changed non-blank byte) and provably "
                   "accepts blank-only changes; v4 record names decode back unless a later name starts with '/' or an inner one is "
                   "empty; a bundle record with a changed text is refused over an abstract collision-free hash; installing "
                   "bundle(src, base, tgt) into a repository holding the base's ancestry equals fetch as a finite map (P-spec over "
                   "Lib/Dag, abstract payload). The hand model is tied to the real code byte for byte; payload equality "
                   "(testaments, texts, metadata, graphs) and bundle-merge = branch-merge are checked on generated real histories."),
    "level_note": ("Trusted: Coq kernel, vm_compute, the hand models' correspondence (exhaustive small domains + seeded sampling), the "
                   "environment models of bzrformats rio/rio_patch, Python bytes.splitlines/rstrip/re.sub/re.split and chrono's "
                   "%Y-%m-%d %H:%M:%S (years 0..9999). The text-level round trip (reading from a file) is correspondence-only "
                   "(_partial). Bundle payloads are abstract in Coq: equality of what is installed is an oracle on real "
                   "repositories (formats 4 / 0.9 / 0.8; 2a, pack-0.92, 1.14-rich-root). MergeDirective format 1 parsing and the "
                   "compiled reader's look-ahead on CRLF-damaged input are not modelled."),
    "design_ref": "DESIGN.md §5 C40",
    "trusted_base": ["hand models coq/Model/Directive.v and coq/Model/BundleSet.v",
                     "correspondence harness harness/props/c40.py + harness/props/_c40_hist.py",
                     "coq/Model/OsUtils.v calendar functions (fmt_fields, parse_dt) shared with C47"],
    "assumptions": ["bzrformats rio.Stanza(**kw) sorts its keys, Stanza.to_lines / read_stanza (trim_newline) behave as modelled (validated by the run)",
                    "bzrformats rio_patch.to_patch_lines / read_patch_stanza behave as modelled on the writer's image and clean LF-terminated input (validated byte for byte); the reader consumes the iterator exactly up to the blank line",
                    "field values are valid UTF-8 (Python str); models work on the UTF-8 bytes",
                    "bytes.splitlines(True), bytes.rstrip, re.sub(b'\\r\\n?'), re.sub(b' *\\n'), re.split(b'(//?)') as modelled (validated by the run)",
                    "chrono %Y-%m-%d %H:%M:%S formatting/parsing = proleptic Gregorian calendar, canonical widths, years 0..9999; parse_patch_date's regex is more lenient than the canonical shape modelled",
                    "C40_record_tamper_detected: H is collision-free on the two compared texts (hypothesis of the statement)",
                    "C40_install_eq_fetch: what a repository stores for a revision is a function of the source (abstract payload); Repository.fetch adds exactly the missing present ancestors"],
    "rule": ("codec: corpus of finding witnesses and guard edges; ALL stanza values over {a,SP,LF,CR,backslash} up to length 3 (4 thorough); "
             "every line length around the 68-column wrap x break character x distance from the cut; generated directives (unicode, "
             "newlines, long lines, odd timezones, year boundaries, binary/CRLF/marker-like patches, base64 bundles) with to_lines compared "
             "byte for byte and from_lines on the list and on the joined text; single-byte tampering of the payload; date grid; "
             "perturbed _verify_patch pairs; all record-name combinations over an id pool. histories: seeded graphs (merges, ghosts, "
             "extra roots) materialised through a working tree with adds/modifies/exec/moves/removes of files, directories and symlinks, "
             "non-ASCII and odd names, binary contents, unicode metadata; every ancestor (base,target) pair + a non-ancestor base in "
             "random order, formats 4/0.9/0.8; merges through five directive modes; single-byte tampering of bundle texts. "
             "non-trivial = message/patch present, continuation lines, > 1 bundled revision"),
}

EXPECTED = ("ValueError", "KeyError", "TypeError", "AttributeError", "UnicodeEncodeError", "NoMergeSource",
            "IllegalMergeDirectivePayload", "NotAMergeDirective", "AssertionError")

_state = {"tmp": None}


def _u(s):
    return s if isinstance(s, bytes) else s.encode("utf-8")


# ---------------------------------------------------------------------------------------------
# codec inputs
# ---------------------------------------------------------------------------------------------

def _dir(**kw):
    d = {"k": "codec", "rid": b"joe@example.com-20240102030405-abcdef", "sha": "0123456789abcdef0123456789abcdef01234567",
         "t": 1700000000, "ns": 0, "tz": 3600, "target": "http://example.com/trunk", "source": "http://example.com/feature",
         "msg": None, "base": b"null:", "patch": None, "bundle": None}
    d.update(kw)
    return d


DIFF = (b"=== modified file 'a'\n--- a\t2024-01-01 00:00:00 +0000\n+++ a\t2024-01-02 00:00:00 +0000\n"
        b"@@ -1,1 +1,1 @@\n-old\n+new\n\n")


def corpus():
    out = []
    # --- witnesses of the refuted round trip (candidate findings) and of the guard's edges
    out.append(_dir(msg="a\r"))                                   # CR at the end of a value line is lost
    out.append(_dir(msg="a\r\nb"))
    out.append(_dir(msg="x" * 58 + "\\" + "yyyy"))               # backslash split by the 68-column wrap
    out.append(_dir(target="C:\\" + "d" * 41 + "\\" + "e" * 30))  # same, a windows path
    out.append(_dir(tz=-12600))                                   # regression: -0330 used to parse as -0230 (repaired)
    out.append(_dir(tz=-1800))
    out.append(_dir(ns=750000000))                                # sub-second time
    out.append(_dir(patch=b"a\n# Begin bundle\nb\n", bundle=b"QUJD"))
    out.append(_dir(patch=b"abc", bundle=b"QUJD"))                # no final newline before the bundle marker
    out.append(_dir(patch=b"abc", bundle=None))
    out.append(_dir(patch=b"# Begin bundle\n"))
    # --- the guard's domain edges (refused, not wrong)
    out.append(_dir(tz=90))
    out.append(_dir(tz=86400))
    out.append(_dir(tz=-86400))
    out.append(_dir(t=100, tz=-3600))
    out.append(_dir(t=0, tz=3600))
    out.append(_dir(t=253402300799, tz=0))
    out.append(_dir(t=253402300799, tz=60))
    out.append(_dir(t=-5, tz=0))
    out.append(_dir(sha="caf\u00e9"))
    out.append(_dir(source=None, bundle=None))
    out.append(_dir(sha=None, source=None, bundle=b"QUJD\n", patch=DIFF, msg="m"))
    # --- tamper witnesses: white-space-only changes of the preview patch are not detected
    out.append({"k": "tamper", "d": _dir(patch=b"a \nb\n", bundle=b"QUJD"), "i": 15, "b": 13})
    out.append({"k": "tamper", "d": _dir(patch=DIFF, bundle=b"QUJD"), "i": 14 + len(DIFF) - 1, "b": 13})
    out.append({"k": "verify", "stored": b"a\r\nb \n", "calc": b"a\nb\n"})
    # --- v4 record names
    out.append({"k": "name", "kind": "file", "r": b"r1", "f": b"/x"})
    out.append({"k": "name", "kind": "file", "r": b"", "f": b"x"})
    out.append({"k": "name", "kind": "revision", "r": b"/r", "f": None})
    out.append({"k": "name", "kind": "file", "r": b"r1/", "f": b"x"})
    out.append({"k": "date", "s": 1000000, "o": -12600})
    out.append({"k": "date", "s": 1000000, "o": -86340})
    # --- 0.9 bundles: minimal histories for the four known findings of the patch-based formats
    meta = [["m", "Joe <joe@example.com>", 1700000000, 0, 0, []], ["m2", "Joe <joe@example.com>", 1700000100, 0, 0, []]]

    def hist(fmt, ops0, ops1, meta=meta):
        return {"g": [[], [0]], "fmt": fmt, "style": 0, "ops": [ops0, ops1], "meta": meta}

    def bcase(h, base, tgt, bfmt="0.9"):
        return {"k": "bundle", "h": h, "base": base, "tgt": tgt, "bfmt": bfmt, "extra": [], "stream": True, "dfmt": None}

    dirfile = [["add", b"d1", None, "dir", "directory", None, False], ["add", b"f1", b"d1", "f", "file", b"x\n", False]]
    out.append(bcase(hist("2a", dirfile, [["mv", b"d1", None, "dir2"]]), 0, 1))                  # regression: C40-v09-chk-dir-rename (repaired by b515e80)
    out.append(bcase(hist("pack-0.92", dirfile, [["mv", b"d1", None, "dir2"]]), 0, 1))           # same history, not CHK: fine
    ml = [["m", "Joe <joe@example.com>", 1700000000, 0, 0, [["k", "multi\nline"]]], meta[1]]
    out.append(bcase(hist("2a", [["add", b"f1", None, "f", "file", b"x\n", False]], [], meta=ml), None, 0))   # multiline revprop
    plain = [["add", b"f1", None, "plain", "file", b"x\n", False]]
    out.append(bcase(hist("pack-0.92", plain, [["mv", b"f1", None, "=> b"]]), 0, 1))             # '=> ' prefix
    out.append(bcase(hist("pack-0.92", [], [["add", b"f1", None, "a" * 63 + "\u00e9", "file", b"x\n", False]]), 0, 1))  # regression: 79-byte wrap inside a character (repaired by 6372b00)
    out.append(bcase(hist("pack-0.92", [], [["add", b"f1", None, "a" * 62 + "\u00e9", "file", b"x\n", False]]), 0, 1))  # one byte earlier: fine
    out.append(bcase(hist("2a", dirfile, [["mv", b"d1", None, "dir2"]]), 0, 1, bfmt="4"))
    # a file changed in place below a directory that is renamed in the same step (single revision and roll-up)
    modin = [["mv", b"d1", None, "dir2"], ["mod", b"f1", b"x\ny\n"]]
    for fmt, bfmts in (("pack-0.92", ("0.9", "0.8", "4")), ("2a", ("0.9", "4"))):
        for bf in bfmts:
            out.append(bcase(hist(fmt, dirfile, modin), 0, 1, bfmt=bf))
    three = {"g": [[], [0], [1]], "fmt": "pack-0.92", "style": 0, "meta": meta + [meta[1]],
             "ops": [dirfile, [["mv", b"d1", None, "dir2"]], [["exec", b"f1", True]]]}
    out.append(bcase(three, 0, 2))                                                       # roll-up 0..2
    # an executable binary file added by an OLDER revision of the range (roll-up: 'added' action with all five
    # fields path // file-id // last-changed // executable // encoding), also arriving through a merge parent
    meta3 = meta + [["m3", "Joe <joe@example.com>", 1700000200, 0, 0, []]]
    binx = [["add", b"f2", None, "tool", "file", b"\x00\xff\x01binary\n", True]]
    for fmt, bfmts in (("pack-0.92", ("0.9", "0.8", "4")), ("2a", ("0.9",))):
        rolled = {"g": [[], [0], [1]], "fmt": fmt, "style": 0, "meta": meta3,
                  "ops": [dirfile, binx, [["mod", b"f1", b"x\ny\n"]]]}
        for bf in bfmts:
            out.append(bcase(rolled, 0, 2, bfmt=bf))
    viamerge = {"g": [[], [0], [0], [1, 2], [3]], "fmt": "pack-0.92", "style": 0, "meta": meta3 + [meta3[2], meta3[2]],
                "ops": [dirfile, [["add", b"f2", None, "tool", "file", b"#!/bin/sh\n", True]],
                        [["mod", b"f1", b"x\ny\n"]], [["merge", 1]], [["mod", b"f1", b"z\n"]]]}
    out.append(bcase(viamerge, 0, 4))       # the merge is an older revision here: its added file is base64-encoded
    out.append(bcase(viamerge, 2, 3))
    # tampering confined to the section of an OLDER revision of a multi-revision 0.9/0.8 bundle
    for bf in ("0.9", "0.8"):
        for find, off, byte in ((b"#   m2", 4, 110), (b"executable:yes", 11, 110), (b"# committer: Joe", 13, 88)):
            out.append({"k": "btamper", "h": rolled if bf == "0.9" else dict(rolled, fmt="pack-0.92"), "base": 0, "tgt": 2,
                        "bfmt": bf, "stream": True, "pos": 0, "byte": byte, "cut": 0, "find": find, "off": off})
    # a merge whose left-hand parent was installed 12 inventories earlier (RevisionInstaller's LRUCache(10))
    side = 12
    lg = [[], [0]] + [[1 + i] for i in range(side)] + [[1, 1 + side]]
    lops = [dirfile, [["add", b"f2", None, "trunk.txt", "file", b"t\n", False]]]
    lops += [[["add", b"s%d" % i, b"d1", "s%d" % i, "file", b"%d\n" % i, False]] + ([["mod", b"f1", b"side\n"]] if i == 3 else [])
             for i in range(side)]
    lops += [[["merge", 1]]]
    lmeta = [["m%d" % i, "Joe <joe@example.com>", 1700000000 + 10 * i, 0, 0, []] for i in range(len(lg))]
    longside = {"g": lg, "fmt": "2a", "style": 0, "ops": lops, "meta": lmeta}
    for base in (None, 1):
        out.append(bcase(longside, base, len(lg) - 1, bfmt="4"))
    out.append({"k": "merge", "h": longside, "submit": 1, "tgt": len(lg) - 1, "mode": "2 bundle patch", "msg": None})
    # cross-serializer install (XML inventories -> 2a) with the parent inventory in the receiving repository
    cross = bcase(hist("1.14-rich-root", dirfile, [["mod", b"f1", b"x\ny\n"]]), 0, 1, bfmt="4")
    cross["dfmt"] = "2a"
    out.append(cross)                                       # C40-v4-cross-format-parent-inventory
    cross0 = bcase(hist("1.14-rich-root", dirfile, [["mod", b"f1", b"x\ny\n"]]), None, 1, bfmt="4")
    cross0["dfmt"] = "2a"
    out.append(cross0)                                      # all parents inside the bundle: fine
    # regression (repaired by 098494b): a v4 bundle that lost its last 30 bytes must be refused at once, read as a
    # stream (BadBundle; it used to make the container reader spin for ever) or not (bz2 reports the damage)
    for stream in (True, False):
        out.append({"k": "btamper", "h": hist("2a", dirfile, [["mv", b"d1", None, "dir2"]]), "base": None, "tgt": 1,
                    "bfmt": "4", "stream": stream, "pos": 0, "byte": 0, "cut": 30})
    return out


WORDS = ["fix", "the", "bug", "in", "merge-directive", "path/to/file", "\u00e9t\u00e9", "\u4e2d\u6587", "a-b", "x",
         "C:\\dir", "na\u0308ive", "\U0001f600", "tab\there", "semi: colon", "#hash", "back\\slash", "=>", " // "]
URLS = ["http://example.com/trunk", "bzr+ssh://host/~user/project/branch-name", "file:///C:/dir/sub",
        "lp:~user/proj/br", "/abs/path with space/", "C:\\Users\\me\\br", "http://h/" + "seg/" * 20,
        "http://h/" + "a" * 70, "http://h/" + "long-" * 30, "sftp://h/\u00e9/\u4e2d", ""]


URLS_PLAIN = [u for u in URLS if "\\" not in u]


def _text_line(rng, lo, hi, odd=True):
    """a line whose length and break characters sit near the wrap constants (68 / last 20 / index 3);
    odd=False keeps CR and backslash (the known-finding classes) out"""
    mode = rng.randrange(6)
    if not odd:
        return _text_line(rng, lo, hi).replace("\r", "r").replace("\\", "b")
    n = rng.randint(lo, hi)
    if mode == 0:
        return "".join(rng.choice("ab") for _ in range(n))
    if mode == 1:
        s = []
        while len(" ".join(s)) < n:
            s.append(rng.choice(WORDS))
        return " ".join(s)
    if mode == 2:
        # one break character at a chosen distance from the 68-column cut
        ch = rng.choice(" -/")
        pos = rng.choice([0, 1, 2, 3, 4, 44, 45, 46, 47, 48, 49, 50, 56, 57, 58, 59, 60, 66, 67, 68, 69]) % max(1, n)
        s = ["x"] * n
        if n:
            s[pos] = ch
        return "".join(s)
    if mode == 3:
        return "".join(rng.choice("ab -/\\\r\t ") for _ in range(n))
    if mode == 4:
        return " " * rng.randint(0, 3) + "".join(rng.choice("ab ") for _ in range(n)) + " " * rng.randint(0, 3)
    return "".join(rng.choice(["\u00e9", "\u4e2d", "a", " ", "\U0001f600", "e\u0301"]) for _ in range(n // 2))


def _message(rng, odd=True):
    r = rng.random()
    if r < 0.08:
        return None
    if r < 0.14:
        return rng.choice(["", " ", "\n", "\n\n", "a\n", "\na", "a\n\nb", "\t", "a\n\tb", "a \nb ", "  ", "a\\", "\\"])
    nl = rng.choice([1, 1, 1, 2, 3])
    lines = []
    for _ in range(nl):
        lo, hi = rng.choice([(0, 12), (40, 75), (55, 62), (120, 150), (60, 70)])
        lines.append(_text_line(rng, lo, hi, odd))
    return "\n".join(lines)


def _tz(rng):
    r = rng.random()
    if r < 0.7:
        return rng.choice([0, 3600, -3600, 19800, 20700, 34200, 50400, -18000, -28800, -43200, 45900])
    if r < 0.76:
        return rng.choice([-12600, -34200, -1800, -9000, -900, -86340])
    if r < 0.88:
        return rng.choice([rng.randrange(0, 86400, 60), rng.randrange(-82800, 1, 3600)])
    return rng.choice([30, -90, 59, 86400, -86400, 90000, 360000, 1])


def _time(rng):
    r = rng.random()
    if r < 0.6:
        return rng.randint(86400, 2000000000)
    if r < 0.8:
        return rng.choice([0, 1, 59, 86399, 86400, 951782400, 951868799, 4107542399, 253402300799, 253402300800,
                           253402214400, 43200, 100])
    return rng.randint(0, 100000)


def _patch(rng):
    r = rng.random()
    if r < 0.25:
        return None
    if r < 0.3:
        return b""
    if r < 0.55:
        return DIFF
    n = rng.randint(1, 6)
    parts = []
    for _ in range(n):
        parts.append(rng.choice([b"+line", b"-line ", b" ctx\t", b"@@ -1 +1 @@", b"\xff\x00bin", b"# Begin patch", b"# Begin bundl",
                                 b"#", b"", b"+caf\xc3\xa9", b"x" * 70, b"  ", b"\\ No newline at end of file"]))
        parts.append(rng.choice([b"\n", b"\n", b"\n", b"\r\n", b"\r", b" \n"]))
    if rng.random() < 0.06:
        parts.pop()
    if rng.random() < 0.04:
        parts.insert(rng.randrange(len(parts) + 1), rng.choice([b"# Begin bundle\n", b"\n# Begin bundle junk\n"]))
    return b"".join(parts)


def _bundle(rng):
    r = rng.random()
    if r < 0.3:
        return None
    raw = bytes(rng.randrange(256) for _ in range(rng.choice([0, 1, 3, 30, 60, 100])))
    if r < 0.7:
        return base64.b64encode(raw)
    if r < 0.9:
        return base64.encodebytes(raw)
    return rng.choice([b"", b"\n", b"not base64 \xff\r\n# Begin patch\n", b"QUJD\r\nQUJD"])


def _gen_dir(rng):
    odd = rng.random() < 0.12
    ns = 0 if rng.random() < 0.96 else rng.choice([250000000, 500000000, 750000000])   # exact in a double
    rid = rng.choice([b"joe@example.com-20240102030405-abcdef", b"r1", b"svn-v4:uuid:trunk/sub:12", "r\u00e9v-1".encode(),
                      b"null:", b"a b", b"x" * 80])
    source = rng.choice(URLS if odd else URLS_PLAIN) if rng.random() < 0.7 else None
    bundle = _bundle(rng)
    if source is None and bundle is None and rng.random() < 0.9:
        source = "http://example.com/feature"
    return _dir(rid=rid, sha=rng.choice([None, "0123456789abcdef0123456789abcdef01234567", "", "zz"]),
                t=_time(rng), ns=ns, tz=_tz(rng), target=rng.choice(URLS if odd else URLS_PLAIN), source=source, msg=_message(rng, odd),
                base=rng.choice([b"null:", b"joe@example.com-20231231235959-fedcba", "b\u00e4se".encode(), b"y" * 75]),
                patch=_patch(rng), bundle=bundle)


def _codec_cases(rng, tier):
    quick = tier == "quick"
    # exhaustive small domain: messages over a 5-letter alphabet up to length 3 (quick) / 4
    alpha = ["a", " ", "\n", "\r", "\\"]
    import itertools
    for n in range(0, 4 if quick else 5):
        for t in itertools.product(alpha, repeat=n):
            yield {"k": "stanza", "items": [["message", "".join(t)]]}
    # every line length around the wrap width, for each break character position class
    for n in list(range(50, 75)) + list(range(118, 140, 3 if quick else 1)):
        for ch in ["", " ", "-", "/", "\\", "\r"]:
            for back in ([1, 19, 20, 21, 40] if quick else [1, 2, 18, 19, 20, 21, 22, 40, 60]):
                s = ["x"] * n
                if ch and back <= n:
                    s[n - back] = ch
                yield {"k": "stanza", "items": [["t", "".join(s)]]}
    for _ in range(150 if quick else 700):
        items = []
        for _ in range(rng.randint(1, 3)):
            m = _message(rng)
            items.append([rng.choice(["message", "target_branch", "a", "x-y_z", "T9"]), m if m is not None else ""])
        yield {"k": "stanza", "items": items}
    for _ in range(250 if quick else 1500):
        yield _gen_dir(rng)
    for _ in range(120 if quick else 600):
        d = _gen_dir(rng)
        if d["patch"] is None and d["bundle"] is None:
            d["patch"] = DIFF
        plen = (14 + len(d["patch"]) if d["patch"] is not None else 0) + (15 + len(d["bundle"]) if d["bundle"] is not None else 0)
        i = rng.randrange(plen) if rng.random() < 0.9 else plen + rng.randrange(2)
        b = rng.choice([10, 13, 32, 35, 43, 45, 65, 66, 0, 255, 9])
        yield {"k": "tamper", "d": d, "i": i, "b": b}
    # dates: grid
    for s in [1, 59, 3600, 86399, 86400, 951782400, 951868799, 1700000000, 4107542399, 253402300799, 253402300800, 0]:
        for o in list(range(-50400, 50401, 1800 if quick else 900)) + [-86340, 86340, 86400, -86400, 30, -30]:
            yield {"k": "date", "s": s, "o": o}
    for _ in range(100 if quick else 800):
        yield {"k": "date", "s": _time(rng), "o": _tz(rng)}
    # _verify_patch
    for _ in range(200 if quick else 1000):
        p = _patch(rng) or DIFF
        q = bytearray(p)
        for _ in range(rng.choice([0, 1, 1, 2])):
            if not q:
                break
            op = rng.randrange(3)
            i = rng.randrange(len(q))
            c = rng.choice([10, 13, 32, 32, 10, 65, 9])
            if op == 0:
                q[i] = c
            elif op == 1:
                q.insert(i, c)
            else:
                del q[i]
        a, c = p, bytes(q)
        if rng.random() < 0.5:
            a, c = c, a
        yield {"k": "verify", "stored": a, "calc": c}
    # record names
    ids = [b"r1", b"a/b", b"/a", b"a/", b"//", b"", b"a//b", b"/", b"x@y-1", "\u00e9".encode()]
    for kind in ["revision", "file", "inventory", "signature", "info", "bogus"]:
        for r in [None] + ids:
            for f in [None] + ids:
                if quick and rng.random() < 0.6 and kind not in ("file",):
                    continue
                yield {"k": "name", "kind": kind, "r": r, "f": f}


def _hist_cases(rng, tier):
    from props import _c40_hist as H
    quick = tier == "quick"
    nh = 7 if quick else 18
    for hi in range(nh):
        fmt = rng.choice(["2a", "2a", "2a", "pack-0.92", "pack-0.92"] + ([] if quick else ["1.14-rich-root"]))
        n = rng.choice([5, 7, 9] if quick else [5, 8, 10, 13])      # > 10 revisions: RevisionInstaller's LRUCache(10)
        if hi == 1:
            n = 13
        shape = "longside" if (hi == 2 or (not quick and hi % 6 == 5)) else "random"
        if shape == "longside":
            fmt = rng.choice(["2a", "2a", "1.14-rich-root"] if not quick else ["2a"])
            n = rng.choice([11, 12, 14])
        spec = H.gen_spec(rng, n, fmt, odd=rng.random() < 0.15, ghosts=(shape == "random" and rng.random() < 0.2),
                          big=(not quick and rng.random() < 0.1), ml_props=rng.random() < 0.08, shape=shape)
        n = len(spec["g"])
        g = spec["g"]
        pairs = []
        for tgt in range(n):
            anc = sorted(H.present_ancestors(g, [tgt]) - {tgt})
            for base in [None] + anc:
                pairs.append((base, tgt))
            others = [b for b in range(n) if b not in anc and b != tgt]
            if others:
                pairs.append((rng.choice(others), tgt))                 # a base that is not an ancestor
        rng.shuffle(pairs)
        has_ghost = any(p >= n for ps in g for p in ps)
        bfmts = ["4", "4", "0.9"] if fmt != "pack-0.92" else ["4", "0.9", "0.9", "0.8"]
        for base, tgt in pairs[: (10 if quick else 28)]:
            bfmt = rng.choice(bfmts)
            if has_ghost and bfmt != "4" and any(p >= n for r in H.bundled_revs(spec, base, tgt) for p in g[r]):
                bfmt = "4"                                             # 0.8/0.9 have no notion of ghosts
            extra = [rng.randrange(n)] if rng.random() < 0.2 else []
            dfmt = None
            if fmt == "1.14-rich-root" and rng.random() < 0.3:
                dfmt = "2a"
            yield {"k": "bundle", "h": spec, "base": base, "tgt": tgt, "bfmt": bfmt, "extra": extra,
                   "stream": rng.random() < 0.5, "dfmt": dfmt}
        for base, tgt in pairs[:(4 if quick else 8)]:
            bfmt = rng.choice(["4", "0.9"])
            yield {"k": "btamper", "h": spec, "base": base, "tgt": tgt, "bfmt": bfmt, "stream": rng.random() < 0.5,
                   "pos": rng.choice([rng.randrange(10 ** 6), rng.randrange(40), 10 ** 6 - 1 - rng.randrange(40)]),
                   "byte": rng.choice([0, 10, 32, 48, 65, 97, 255, rng.randrange(256)]),
                   "cut": rng.choice([0, 0, 0, 0, 0, 0, 0, 0, 30, 200])}     # sometimes a truncation instead
        multi = [(b, t) for b, t in pairs if len(H.bundled_revs(spec, b, t)) >= 2
                 and not any(p >= n for r in H.bundled_revs(spec, b, t) for p in g[r])]
        for base, tgt in multi[:(3 if quick else 6)]:
            # only the older revisions' sections of a patch-based bundle are touched
            yield {"k": "btamper", "h": spec, "base": base, "tgt": tgt, "bfmt": "0.8" if fmt == "pack-0.92" and rng.random() < 0.3 else "0.9",
                   "stream": True, "pos": rng.randrange(10 ** 6), "byte": rng.choice([48, 65, 97, 110, 120, 32]),
                   "cut": 0, "zone": "old"}
        for _ in range(2 if quick else 5):
            rel = [(a, b) for a in range(n) for b in range(n)
                   if H.present_ancestors(g, [a]) & H.present_ancestors(g, [b])]
            submit, tgt = rng.choice(rel)
            modes = ["2 bundle patch", "2 bundle patch", "2 bundle", "2 patch public"]
            fragile = H.has_multiline_prop(spec, range(n)) or any(
                isinstance(x, str) and x.startswith("=> ") for ops in spec["ops"] for op in ops for x in op[1:])
            if fmt == "pack-0.92" and not fragile:      # format 1 carries a 0.9 bundle: keep its known findings out
                modes += ["1 bundle", "1 diff public"]
            yield {"k": "merge", "h": spec, "submit": submit, "tgt": tgt, "mode": rng.choice(modes),
                   "msg": rng.choice([None, "merge it", "m\u00e9ssage"])}


def cases(rng, tier):
    yield from _hist_cases(rng, tier)
    yield from _codec_cases(rng, tier)


def setup(scratch_dir):
    from props import _c40_hist as H
    H.set_scratch(scratch_dir)


def teardown():
    from props import _c40_hist as H
    H.cleanup()


# ---------------------------------------------------------------------------------------------
# implementation drivers
# ---------------------------------------------------------------------------------------------

def _mk_directive(d):
    from breezy.merge_directive import MergeDirective2
    t = d["t"] if not d["ns"] else d["t"] + d["ns"] / 1e9
    return MergeDirective2(revision_id=d["rid"], testament_sha1=None if d["sha"] is None else d["sha"].encode("utf-8"),
                           time=t, timezone=d["tz"], target_branch=d["target"], patch=d["patch"],
                           source_branch=d["source"], message=d["msg"], bundle=d["bundle"], base_revision_id=d["base"])


def _dir_obs(md):
    t = md.time
    if isinstance(t, float):
        secs = int(t // 1)
        ns = int(round((t - secs) * 1e9))
    else:
        secs, ns = t, 0
    return [md.revision_id, md.testament_sha1, secs, ns, md.timezone, _u(md.target_branch),
            None if md.source_branch is None else _u(md.source_branch),
            None if md.message is None else _u(md.message), md.base_revision_id, md.patch, md.bundle]


def _guard(fn):
    try:
        return fn()
    except Exception as e:   # noqa: BLE001
        name = type(e).__name__
        if name in EXPECTED:
            return Err(name)
        raise


def _from(lines_or_file):
    from breezy.merge_directive import MergeDirective
    return _guard(lambda: _dir_obs(MergeDirective.from_lines(lines_or_file)))


def _year_overflow(lines):
    # local year > 9999: chrono prints a signed year that parse_patch_date rejects; the model
    # (years 0..9999 only) reports the refusal at to_lines already
    return any(l.startswith(b"# timestamp: +") for l in lines)


def _impl_codec(d):
    md = _guard(lambda: _mk_directive(d))
    if isinstance(md, Err):
        return md
    lines = _guard(md.to_lines)
    if isinstance(lines, Err):
        return lines
    if _year_overflow(lines):
        return Err("ValueError")
    return [list(lines), _from(list(lines)), _from(BytesIO(b"".join(lines)))]


def _impl_tamper(inp):
    from breezy.merge_directive import MergeDirective
    d = inp["d"]
    md = _guard(lambda: _mk_directive(d))
    if isinstance(md, Err):
        return md
    lines = _guard(md.to_lines)
    if isinstance(lines, Err) or _year_overflow(lines):
        return Err("ValueError")
    head = b"".join(md._to_lines(base_revision=True))
    text = bytearray(b"".join(lines))
    pos = len(head) + inp["i"]
    if pos < len(text):
        text[pos] = inp["b"]
    md2 = _guard(lambda: MergeDirective.from_lines(BytesIO(bytes(text))))
    if isinstance(md2, Err):
        return md2
    calc = d["patch"] if d["patch"] is not None else b""
    md2._generate_diff = lambda repository, revision_id, ancestor_id: calc
    return [_dir_obs(md2), Tag(md2._maybe_verify(None))]


def _impl_stanza(inp):
    from bzrformats import rio, rio_patch
    st = rio.Stanza()
    for t, v in inp["items"]:
        st.add(t, v)
    lines = rio_patch.to_patch_lines(st)
    it = iter(list(lines) + [b"# \n", b"rest"])
    try:
        back = rio_patch.read_patch_stanza(it)
    except ValueError:
        return [list(lines), Err("ValueError")]
    pairs = None if back is None else [[_u(t), _u(v)] for t, v in back.iter_pairs()]
    return [list(lines), [pairs, list(it)]]


def _impl_date(inp):
    from breezy.patch import format_patch_date, parse_patch_date
    try:
        s = format_patch_date(inp["s"], inp["o"])
    except ValueError:
        return Err("ValueError")
    if s.startswith("+"):
        return Err("ValueError")     # year > 9999: chrono prints a signed year, which nothing parses (not modelled)
    try:
        back = list(parse_patch_date(s))
    except ValueError:
        back = Err("ValueError")
    return [s.encode("ascii"), back]


def _impl_verify(inp):
    from breezy.merge_directive import MergeDirective2
    md = MergeDirective2(revision_id=b"r", testament_sha1=b"s", time=1, timezone=0, target_branch="t",
                         patch=inp["stored"], source_branch="s", base_revision_id=b"b")
    md._generate_diff = lambda repository, revision_id, ancestor_id: inp["calc"]
    return [md._verify_patch(None)]


def _impl_name(inp):
    from breezy.bzr.bundle.serializer.v4 import BundleReader, BundleWriter
    n = _guard(lambda: BundleWriter.encode_name(inp["kind"], inp["r"], inp["f"]))
    if isinstance(n, Err):
        return n
    try:
        k, r, f = BundleReader.decode_name(n)
    except UnicodeDecodeError:
        return [n, Err("UnicodeDecodeError")]
    return [n, [k.encode("ascii"), r, f]]


def impl(inp):
    import breezy.bzr  # noqa: F401
    k = inp["k"]
    if k == "codec":
        return _impl_codec(inp)
    if k == "tamper":
        return _impl_tamper(inp)
    if k == "stanza":
        return _impl_stanza(inp)
    if k == "date":
        return _impl_date(inp)
    if k == "verify":
        return _impl_verify(inp)
    if k == "name":
        return _impl_name(inp)
    if k in ("bundle", "btamper", "merge"):
        from props import _c40_hist as H
        out = {"bundle": H.run_bundle, "btamper": H.run_btamper, "merge": H.run_merge}[k](inp)
        _outcome[_key(inp)] = out
        return out
    raise ValueError(k)


_outcome = {}


def _key(inp):
    import json
    from props import _c40_hist as H
    return json.dumps(H._jsonable(inp), sort_keys=True)


def _hist_failed(o):
    return any(x in o for x in ("build", "write_error", "install_error", "directive_error", "merge_error"))


def impl_obs(inp, obs):
    """the part of the observation the model predicts"""
    k = inp["k"]
    if k not in ("bundle", "btamper", "merge"):
        return obs
    if _hist_failed(obs):
        return Err("Failed")
    if k == "bundle":
        return [obs["ids"], obs["after"], obs["fetch"]]
    if k == "merge":
        return obs["ids"]
    if obs["rejected"] is not None:
        return [True, obs["after"] if inp["bfmt"] == "4" else None]
    return [False, obs["after"]]


# ---------------------------------------------------------------------------------------------
# model terms
# ---------------------------------------------------------------------------------------------

def _ob(v):
    return coq_option(v, lambda x: coq_bytes(_u(x)))


def _coq_directive(d):
    return ("(Build_directive %s %s %s %s %s %s %s %s %s %s %s)" % (
        coq_bytes(d["rid"]), _ob(d["sha"]), coq_Z(d["t"]), coq_Z(d["ns"]), coq_Z(d["tz"]), coq_bytes(_u(d["target"])),
        _ob(d["source"]), _ob(d["msg"]), coq_bytes(d["base"]), _ob(d["patch"]), _ob(d["bundle"])))


def model_term(inp):
    k = inp["k"]
    if k == "codec":
        return "run_codec " + _coq_directive(inp)
    if k == "tamper":
        return "run_tamper %s %s %s" % (_coq_directive(inp["d"]), coq_nat(inp["i"]), coq_N(inp["b"]))
    if k == "stanza":
        return "run_stanza " + coq_list([coq_pair(coq_bytes(_u(t)), coq_bytes(_u(v))) for t, v in inp["items"]])
    if k == "date":
        return "run_date %s %s" % (coq_Z(inp["s"]), coq_Z(inp["o"]))
    if k == "verify":
        return "run_verify %s %s" % (coq_bytes(inp["stored"]), coq_bytes(inp["calc"]))
    if k == "name":
        return "run_name %s %s %s" % (coq_bytes(inp["kind"].encode()), _ob(inp["r"]), _ob(inp["f"]))
    if k in ("bundle", "btamper", "merge"):
        import daglib
        o = _outcome.get(_key(inp))
        if o is None:
            o = impl(inp)
        if _hist_failed(o):
            return '(OE "Failed"%string)'      # nothing to predict: the oracle has already judged the failure
        g = "(%s)%%nat" % daglib.coq_dag(inp["h"]["g"])
        nat_list = lambda l: coq_list([coq_nat(x) for x in l])
        if k == "bundle":
            return "run_bundle %s %s %s %s" % (g, coq_option(inp["base"], coq_nat), coq_nat(inp["tgt"]), nat_list(inp["extra"]))
        if k == "merge":
            return "run_closure %s %s" % (g, nat_list([inp["submit"], inp["tgt"]]))
        base = [] if inp["base"] is None else [inp["base"]]
        if o["rejected"] is not None:
            if inp["bfmt"] == "4":
                return "OL [OT \"True\"%%string; run_closure %s %s]" % (g, nat_list(base))
            return 'OL [OT "True"%string; ON]'
        return "OL [OT \"False\"%%string; run_closure %s %s]" % (g, nat_list(base + [inp["tgt"]]))
    raise ValueError(k)


# ---------------------------------------------------------------------------------------------
# the property itself, evaluated on the implementation
# ---------------------------------------------------------------------------------------------

def _date_domain(s, o):
    """inputs format_patch_date / parse_patch_date are specified for"""
    return o % 60 == 0 and abs(o) < 86400 and s != 0 and s + o >= 0 and s + o <= 253402300799


FIELDS = ["rid", "sha", "t", "ns", "tz", "target", "source", "msg", "base", "patch", "bundle"]


def _expect_dir(d):
    return [d["rid"], None if d["sha"] is None else d["sha"].encode(), d["t"], d["ns"], d["tz"], _u(d["target"]),
            None if d["source"] is None else _u(d["source"]), None if d["msg"] is None else _u(d["msg"]),
            d["base"], d["patch"], d["bundle"]]


def _in_domain(d):
    if d["source"] is None and d["bundle"] is None:
        return False
    if d["sha"] is None or not d["sha"].isascii():
        return False                         # testament_sha1 is required by the reader; a sha1 is ascii
    return _date_domain(d["t"], d["tz"])


def _strip_ws(b):
    return bytes(c for c in b if c not in (10, 13, 32))


# ---- a mirror of rio_patch's wrapping, used ONLY to recognise the backslash finding exactly ----
def _rfind_tail(part, ch):
    return part.rfind(ch, -20)


def _pieces(line):
    """the partlines to_patch_lines cuts the (backslash-escaped) line into"""
    out = []
    while line:
        part, line = line[:68], line[68:]
        if line:
            bi = _rfind_tail(part, b" ")
            if bi < 3:
                bi = _rfind_tail(part, b"-") + 1
            if bi < 3:
                bi = _rfind_tail(part, b"/")
            if bi >= 3:
                line = part[bi:] + line
                part = part[:bi]
        if line:
            line = b"  " + line
        out.append(part)
    return out


def _tagged(d):
    out = [("revision_id", d["rid"].decode("utf-8")), ("target_branch", d["target"]),
           ("base_revision_id", d["base"].decode("utf-8"))]
    for key, tag in (("sha", "testament_sha1"), ("source", "source_branch"), ("msg", "message")):
        if d[key] is not None:
            out.append((tag, d[key]))
    return out


def _backslash_split(tagged):
    """some wrap point falls between the two halves of an escaped backslash"""
    for tag, v in tagged:
        for i, line in enumerate(v.split("\n")):
            body = (((tag + ": ") if i == 0 else "\t") + line).encode("utf-8").replace(b"\\", b"\\\\")
            for part in _pieces(body)[:-1]:
                if (len(part) - len(part.rstrip(b"\\"))) % 2 == 1:
                    return True
    return False


def _cr_stripped(v):
    return None if v is None else b"\n".join(l.rstrip(b"\r") for l in v.split(b"\n"))


def _marker_ambiguous(d, from_file):
    p = d["patch"]
    if p is None:
        return False
    if any(l.startswith(b"# Begin bundle") for l in p.splitlines(True)):
        return True
    # read back from a file: the marker (if any) must start a line
    return from_file and d["bundle"] is not None and not (p == b"" or p.endswith(b"\n"))


def _explain(d, got, from_file):
    """(set of finding ids that explain every difference between got and the directive d) or None
    when some difference has no explanation"""
    want = _expect_dir(d)
    used = set()
    if isinstance(got, Err):
        if str(got) == "ValueError" and _backslash_split(_tagged(d)):
            return {"C40-rio-backslash-at-wrap"}
        if str(got) in ("NoMergeSource",) and _marker_ambiguous(d, from_file):
            return {"C40-payload-marker-ambiguity"}
        return None
    for name, g, w in zip(FIELDS, got, want):
        if g == w:
            continue
        if name in ("rid", "sha", "target", "source", "msg", "base"):
            if w is not None and g == _cr_stripped(w):
                used.add("C40-rio-cr-line-end")
                continue
            return None
        if name == "ns":
            if g == 0:
                used.add("C40-subsecond-time")
                continue
            return None
        if name in ("t", "tz"):
            return None                      # (C40-patch-date-negative-minutes is repaired: no excuse any more)
        if name in ("patch", "bundle"):
            if _marker_ambiguous(d, from_file):
                used.add("C40-payload-marker-ambiguity")
                continue
            return None
    return used


def _expected_after(inp):
    from props import _c40_hist as H
    seeds = [inp["tgt"]] + ([inp["base"]] if inp["base"] is not None else []) + list(inp.get("extra", []))
    return sorted(H.present_ancestors(inp["h"]["g"], seeds))


def _oracle_hist(inp, obs):
    from props import _c40_hist as H
    k = inp["k"]
    if "build" in obs:
        return None                          # the history could not be materialised (not the code under test)
    if k == "bundle":
        if "write_error" in obs:
            return "write_bundle failed: %s" % obs["write_error"]
        if "install_error" in obs:
            return "installing the bundle failed: %s" % obs["install_error"]
        if obs["problem"]:
            return "installed revision differs from the original: %s" % obs["problem"]
        if obs["ids"] != H.bundled_revs(inp["h"], inp["base"], inp["tgt"]):
            return "bundled revisions %r, expected %r" % (obs["ids"], H.bundled_revs(inp["h"], inp["base"], inp["tgt"]))
        if obs["after"] != _expected_after(inp) or obs["after"] != obs["fetch"]:
            return "repository holds %r after install, %r after fetch, expected %r" % (obs["after"], obs["fetch"], _expected_after(inp))
        return None
    if k == "btamper":
        if "write_error" in obs:
            return None                      # judged by the bundle case of the same pair
        if obs.get("hang"):
            return "tampered bundle (byte %d of %d): install_revisions does not return" % (obs["where"], obs["len"])
        if obs["problem"]:
            return "tampered bundle (byte %d of %d): %s" % (obs["where"], obs["len"], obs["problem"])
        if obs["rejected"] is not None:
            if inp["bfmt"] == "4" and obs["after"] != obs["before"]:
                return "refused v4 bundle left revisions behind: %r -> %r" % (obs["before"], obs["after"])
            return None
        if obs["after"] != _expected_after(inp):
            return "tampered bundle accepted but installed %r instead of %r" % (obs["after"], _expected_after(inp))
        return None
    if k == "merge":
        if "directive_error" in obs:
            return "merge directive could not be produced: %s" % obs["directive_error"]
        if "merge_error" in obs:
            return "merging from the directive failed: %s %s" % (obs["merge_error"], obs.get("detail", ""))
        if obs["problem"]:
            return "merge from directive differs from merge from branch: %s" % obs["problem"]
        # format 1 (MergeDirective) is outside the codec clause: e.g. an empty diff b"" has no lines and is
        # read back as "no patch"
        if inp["mode"].startswith("2") and not obs["same_fields"]:
            return "directive fields changed by to_lines/from_lines: %r" % (obs["fields"],)
        want = "verified" if (inp["mode"].startswith("2") and "patch" in inp["mode"]) else "inapplicable"
        if obs["verified"] != want:
            return "patch verification says %s, expected %s" % (obs["verified"], want)
        return None
    return None


def oracle(inp, obs):
    k = inp["k"]
    if k in ("bundle", "btamper", "merge"):
        return _oracle_hist(inp, obs)
    if k == "codec":
        if not _in_domain(inp):
            return None                      # refused or unspecified input: nothing promised
        if isinstance(obs, Err):
            return "to_lines refused a valid directive: %s" % obs
        want = _expect_dir(inp)
        if obs[1] != want:
            return "from_lines(to_lines(d)) != d: got %r want %r" % (obs[1], want)
        if obs[2] != want:
            return "from_lines(file of joined to_lines(d)) != d: got %r want %r" % (obs[2], want)
        return None
    if k == "tamper":
        d = inp["d"]
        if not _in_domain(d) or isinstance(obs, Err):
            return None                      # rejected
        got, status = obs
        want = _expect_dir(d)
        if got[9:] == want[9:]:
            return None                      # payload unchanged (position outside, or same byte)
        if got[9] != want[9] and str(status) != "failed":
            return "tampered patch accepted as %s: %r vs %r" % (status, got[9], want[9])
        return None                          # bundle text changes are judged on real bundles (history cases)
    if k == "stanza":
        want = [[_u(t), _u(v)] for t, v in inp["items"]]
        if isinstance(obs[1], Err):
            return "read_patch_stanza failed on to_patch_lines output: %s" % obs[1]
        if obs[1][0] != want or obs[1][1] != [b"rest"]:
            return "stanza round trip: got %r want %r" % (obs[1], want)
        return None
    if k == "date":
        if not _date_domain(inp["s"], inp["o"]):
            return None
        if isinstance(obs, Err) or obs[1] != [inp["s"], inp["o"]]:
            return "parse_patch_date(format_patch_date(%d, %d)) = %r" % (inp["s"], inp["o"], obs)
        return None
    if k == "verify":
        if obs[0] and inp["stored"] != inp["calc"]:
            return "patch differing from the recomputed one verified"
        if not obs[0] and inp["stored"] == inp["calc"]:
            return "identical patch not verified"
        return None
    if k == "name":
        if isinstance(obs, Err):
            return None
        if obs[1] != [inp["kind"].encode(), inp["r"], inp["f"]]:
            return "decode_name(encode_name(x)) != x: %r" % (obs,)
        return None
    return None


def finding_matches(fid, inp, obs, why):
    """exact classes: a case matches a finding only if EVERY deviation it shows is the documented
    effect of a known finding (and this finding is one of them)"""
    k = inp["k"]
    if k in ("bundle", "btamper", "merge"):
        from props import _c40_hist as H
        if fid == "C40-v4-cross-format-parent-inventory":
            # XML-inventory source, CHK receiver, and some bundled revision has a parent that is not in the bundle
            if k != "bundle" or inp["bfmt"] != "4" or obs.get("install_error") != "TypeError":
                return False
            spec, g = inp["h"], inp["h"]["g"]
            revs = H.bundled_revs(spec, inp["base"], inp["tgt"])
            outside = any(p < len(g) and p not in revs for r in revs for p in g[r])
            return spec["fmt"] != "2a" and inp.get("dfmt") == "2a" and outside
        if k != "bundle" or inp["bfmt"] not in ("0.8", "0.9"):
            return False
        spec, base, tgt = inp["h"], inp["base"], inp["tgt"]
        err = obs.get("install_error")
        if fid == "C40-v09-multiline-revprop":
            return err in ("TestamentMismatch", "MalformedHeader") and H.has_multiline_prop(spec, H.bundled_revs(spec, base, tgt))
        if fid == "C40-v09-rename-arrow-prefix":
            return err in ("TestamentMismatch", "TypeError", "KeyError", "NoSuchId", "NoSuchFile") and H.arrow_rename(spec, base, tgt)
        return False
    if k == "codec":
        if isinstance(obs, Err):
            return False
        used = set()
        for got, from_file in ((obs[1], False), (obs[2], True)):
            u = _explain(inp, got, from_file)
            if u is None:
                return False
            used |= u
        return fid in used
    if k == "stanza":
        want = [[_u(t), _u(v)] for t, v in inp["items"]]
        if isinstance(obs[1], Err):
            return fid == "C40-rio-backslash-at-wrap" and _backslash_split(inp["items"])
        if fid != "C40-rio-cr-line-end" or obs[1][1] != [b"rest"] or obs[1][0] is None:
            return False
        return obs[1][0] == [[t, _cr_stripped(v)] for t, v in want]
    if fid == "C40-verify-normalises-whitespace":
        if k == "verify":
            return inp["stored"] != inp["calc"] and _strip_ws(inp["stored"]) == _strip_ws(inp["calc"])
        if k == "tamper" and not isinstance(obs, Err) and inp["d"]["patch"] is not None and obs[0][9] is not None:
            return _strip_ws(obs[0][9]) == _strip_ws(inp["d"]["patch"])
        return False
    if fid == "C40-record-name-leading-slash":
        if k != "name":
            return False
        r, f = inp["r"], inp["f"]
        return bool((r is not None and r.startswith(b"/")) or (f is not None and f.startswith(b"/"))
                    or (r == b"" and f is not None))
    return False


def nontrivial(inp, obs):
    k = inp["k"]
    if k in ("bundle", "btamper", "merge"):
        if _hist_failed(obs):
            return False
        return len(obs.get("ids", [1, 2])) > 1 if k == "bundle" else True
    if k == "codec":
        return not isinstance(obs, Err) and (inp["msg"] is not None or inp["patch"] is not None)
    if k == "stanza":
        return len(obs[0]) > 1
    return not isinstance(obs, Err)


def distribution(inputs, observations):
    out = {}
    for inp, o in zip(inputs, observations):
        key = inp["k"]
        out[key] = out.get(key, 0) + 1
        if key in ("bundle", "btamper", "merge"):
            sub = [key, inp.get("bfmt", inp.get("mode", "")), inp["h"]["fmt"]]
            for f in ("build", "write_error", "install_error", "directive_error", "merge_error"):
                if f in o:
                    sub.append(f + "=" + str(o[f]))
            if key == "btamper" and "rejected" in o:
                sub.append("rejected" if o["rejected"] else "accepted")
            out[":".join(sub)] = out.get(":".join(sub), 0) + 1
            continue
        if isinstance(o, Err):
            out[key + ":" + str(o)] = out.get(key + ":" + str(o), 0) + 1
        if key == "stanza" and not isinstance(o, Err):
            b = "stanza:lines>=3" if len(o[0]) >= 3 else "stanza:lines<3"
            out[b] = out.get(b, 0) + 1
    return out
