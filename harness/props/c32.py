"""C32 -- Operations through a smart server match local operations (tie H, refinement style).

One seeded operation sequence over a generated history is run three times on
fresh, identical targets:
  local   the target branch is opened by its path
  vfs     the target is opened as bzr://127.0.0.1:<port>/... (in-process SmartTCPServer
          thread over the same scratch directory), VFS verbs enabled
  novfs   the same with BRZ_NO_SMART_VFS set (HPSS verbs only)
  oldsrv  (cases with "oldsrv": true) the same server with the post-1.12 verbs removed from its
          request registry: the client meets UnknownSmartMethod and takes its VFS fallback paths
After every operation the returned value (or exception class) is recorded and the
target is read back LOCALLY from disk: tip, revno, tags, config values, revision
set, lock status, payload (testament / file text) of the new revisions.
The Coq model Model/BranchRepoSpec.v is one deterministic specification machine;
`run_case` evaluates it for the three modes.  oracle = the property itself: the
three traces are equal (modulo the documented VFS-only operations).
"""
import json
import os
import shutil

import daglib
from daglib import rid
from vlib import Tag, Err, coq_bool, coq_list

PROP = "C32"
COQ = {
    "property_file": "Properties/C32.v",
    "imports": "From BV Require Import Lib.Dag Model.BranchRepoSpec.",
}
META = {
    "level": "translation_validation",
    "title": "Operations through a smart server match local operations",
    "technique": ("one deterministic Coq specification machine (branch tip/revno, repository revision set, tags, config, "
                  "lock) over Lib/Dag; the same seeded operation sequence is run on the local path, through bzr:// to an "
                  "in-process smart server with VFS, with BRZ_NO_SMART_VFS, and (a third of the cases) with the modern verbs "
                  "hidden so that the client takes its VFS fallbacks; every returned value and the on-disk state "
                  "after every operation are compared with the specification and with each other"),
    "level_text": ("refinement by validation (P-spec): Coq proves the specification deterministic, that two implementations "
                   "refining it on an operation sequence produce equal observations (and that a forward simulation gives "
                   "refinement for all sequences), and laws of the specification (push-then-pull no-op, tags set are tags "
                   "read, tip after commit, revno = left-hand length, refused calls change nothing, the old-server fallbacks are "
                   "the same machine). That the local and the "
                   "remote code paths refine the specification is CHECKED per generated sequence, not proved."),
    "level_note": ("Trusted: Coq kernel, vm_compute, the harness. The refinement of breezy to the specification is sampled "
                   "(bounded sequences over generated histories), in-process SmartTCPServer on 127.0.0.1; one client "
                   "connection per operation; formats 2a, 1.9, 1.9-rich-root."),
    "design_ref": "DESIGN.md §5 C32",
    "trusted_base": ["hand specification coq/Model/BranchRepoSpec.v",
                     "coq/Lib/Dag.v as a model of vcsgraph (ancestry, heads via is_ancestor, distance)",
                     "correspondence harness harness/props/c32.py, harness/daglib.py",
                     "loopback TCP + threads of the host"],
    "assumptions": ["source histories have no ghost on a left-hand history (C21 covers those)",
                    "config values and tag names come from a pool that round-trips on a local branch (C49/C24 cover the codecs)",
                    "operations that need VFS (RemoteBranch.pull into the remote branch, commit builder on a remote repository) "
                    "fail cleanly under BRZ_NO_SMART_VFS: modelled as mode-dependent refusals, excluded from the equality claim",
                    "two known discrepancies between the paths are part of the specification (mode-dependent): null: dropped by the "
                    "remote get_parent_map, exception class of generate_revision_history on an absent revision; the third "
                    "(get_revision KeyError on rich-root knit/pack repositories) was repaired in /repo 9cb1028 and is no longer excused",
                    "knit-family repositories (flag knit): physical repository lock, write groups not transactional, signing needs VFS -- "
                    "observed identically on all paths and part of the specification",
                    "one client at a time (the locker is a second branch object in the same process)",
                    "old-server mode = the current server with 18 verbs removed from its registry (the insert_stream verbs stay)"],
    "rule": "one case = one op sequence x 3 modes; non-trivial = at least 3 state-changing ops succeeded; distinct = distinct (input, observation)",
}
SHARD = 4

MODES = ("local", "vfs", "novfs", "oldsrv")
FORMATS = ("2a", "1.9", "1.9-rich-root", "dirstate-tags")
# formats whose repository lock_write() takes a physical lock (knit family); pack formats only lock logically
PHYSREPO = ("dirstate-tags",)
# rich-root knit/pack formats: their inventory serializer number (6) is not a revision serializer number.
# get_revision through bzr:// raised KeyError there (C32-iter-revisions-serializer, repaired in /repo 9cb1028);
# the format stays in the rotation as a regression input.
RICHROOT_OLD = ("1.9-rich-root",)

TAGS = ["v1", "rel ease", "café", "é", "ｔａｇ", "x ", "a/b", "t\tab"]
OPTS = ["verif.alpha", "verif.beta", "verif_under", "verif.gämma"]
VALS = ["1", "plain value", "café ☃", "a=b # not a comment", "x" * 70, "très, comma", "'quoted'", ""]

# (the insert_stream verbs stay: without them the client intermittently stalls in call_with_body_stream until the
# server's idle timeout -- the unknown-verb answer races with the body stream; seen, not analysed, see notes/C32.md)
# verbs a pre-1.13 server does not know: the client falls back to VFS (_vfs_* / _ensure_real paths of remote.py)
OLD_SERVER_LACKS = [
    b"Branch.get_tags_bytes", b"Branch.set_tags_bytes", b"Branch.set_config_option", b"Branch.set_config_option_dict",
    b"Branch.set_last_revision_info", b"Branch.set_last_revision_ex", b"Branch.revision_id_to_revno",
    b"Repository.iter_revisions", b"Repository.get_stream_1.19", b"Repository.get_stream",
    b"VersionedFileRepository.get_inventories", b"Repository.iter_files_bytes", b"Branch.heads_to_fetch",
    b"Branch.get_all_reference_info", b"Repository.all_revision_ids", b"Repository.start_write_group",
    b"Repository.commit_write_group", b"Repository.abort_write_group"]

_state = {}


# ---- server ----------------------------------------------------------------------

def _ensure(scratch=None):
    if "root" in _state:
        return
    import tempfile
    import breezy
    import breezy.bzr  # noqa: F401
    from breezy import lockdir, ui
    from breezy.bzr.smart import server as sserver
    from breezy.transport import get_transport, get_transport_from_url
    from dromedary import chroot
    if scratch is None:
        # impl called outside setup() (shrink / --replay): own scratch directory, removed at exit
        import atexit
        scratch = tempfile.mkdtemp(prefix="verif-C32-own-")
        _state["own"] = scratch
        atexit.register(teardown)
    os.environ.setdefault("BRZ_EMAIL", "Verif <verif@example.com>")
    _state["old_timeout"] = lockdir._DEFAULT_TIMEOUT_SECONDS
    lockdir._DEFAULT_TIMEOUT_SECONDS = 0
    _state["old_ui"] = ui.ui_factory
    ui.ui_factory = ui.SilentUIFactory()
    root = os.path.join(scratch, "srv")
    os.makedirs(root, exist_ok=True)
    cs = chroot.ChrootServer(get_transport(root))
    cs.start_server()
    srv = sserver.SmartTCPServer(get_transport_from_url(cs.get_url()), client_timeout=120.0)
    srv.start_server("127.0.0.1", 0)
    srv.start_background_thread("-verif-c32")
    _state.update(root=root, chroot=cs, server=srv, url=srv.get_url(), n=0, src={}, memo={})


def setup(scratch):
    _ensure(scratch)


def teardown():
    from breezy import lockdir, ui
    os.environ.pop("BRZ_NO_SMART_VFS", None)
    srv = _state.pop("server", None)
    if srv is not None:
        try:
            srv.stop_background_thread()
        except Exception:
            pass
    cs = _state.pop("chroot", None)
    if cs is not None:
        try:
            cs.stop_server()
        except Exception:
            pass
    if "old_timeout" in _state:
        lockdir._DEFAULT_TIMEOUT_SECONDS = _state["old_timeout"]
        ui.ui_factory = _state["old_ui"]
    own = _state.pop("own", None)
    if own:
        shutil.rmtree(own, ignore_errors=True)
    memo = _state.get("memo", {})
    _state.clear()
    _state["memo"] = memo          # model_term runs after teardown


# ---- histories ----------------------------------------------------------------------

def _blob(size, seed):
    """size pseudo-random (incompressible) bytes"""
    import hashlib
    out, k = [], 0
    while 32 * len(out) < size:
        out.append(hashlib.sha256(b"%d:%d" % (seed, k)).digest())
        k += 1
    return b"".join(out)[:size]


def _text(i, big=None):
    size = (big or {}).get(str(i))
    return b"%d\n" % i + (_blob(size, i) if size else b"")


def _build(g, path, fmt, big=None):
    """daglib.build_history with a format parameter (daglib hard-codes 2a)."""
    from breezy import branchbuilder
    from breezy.transport import get_transport
    n = len(g)
    t = get_transport(path)
    t.ensure_base()
    bb = branchbuilder.BranchBuilder(t, format=fmt)
    br = bb.get_branch()
    for i, ps in enumerate(g):
        pids = [rid(p) for p in ps]
        if not ps:
            acts = [("add", ("", b"root-id", "directory", None)), ("add", ("f", b"f-id", "file", _text(i, big)))]
        else:
            acts = [("modify", ("f", _text(i, big)))]
            br.lock_write()
            try:
                br.set_last_revision_info(daglib.revno_of(g, ps[0]), rid(ps[0]))
            finally:
                br.unlock()
        bb.build_snapshot(pids, acts, revision_id=rid(i), allow_leftmost_as_ghost=True,
                          timestamp=1000000000 + i, timezone=0, committer="Verif <verif@example.com>",
                          message="revision %d" % i)
    br = bb.get_branch()
    with br.lock_read():
        pm = br.repository.get_graph().get_parent_map([rid(i) for i in range(n)])
    for i, ps in enumerate(g):
        got = [p for p in pm.get(rid(i), ()) if p != b"null:"]
        if got != [rid(p) for p in ps]:
            raise AssertionError("history not materialised: r%d has %r, wanted %r" % (i, got, ps))
    return br


def _testament(repo, revid):
    from breezy.bzr.testament import StrictTestament3
    return StrictTestament3.from_revision(repo, revid).as_sha1()


def _source(g, fmt, big=None):
    key = fmt + json.dumps([g, big], sort_keys=True)
    if key not in _state["src"]:
        if len(_state["src"]) > 6:
            for old in _state["src"].values():
                shutil.rmtree(old["path"], ignore_errors=True)
            _state["src"].clear()
        _state["n"] += 1
        path = os.path.join(_state["root"], "src%d" % _state["n"])
        br = _build(g, path, fmt, big)
        with br.lock_read():
            tm = {i: _testament(br.repository, rid(i)) for i in range(len(g))}
        _state["src"][key] = {"path": path, "branch": br, "testament": tm}
    return _state["src"][key]


def _idx(revid):
    if revid in (b"null:", None):
        return None
    if revid.startswith(b"r") and revid[1:].isdigit():
        return int(revid[1:])
    return revid            # foreign id: shows up as bytes in the observation


def _pool_idx(pool, name):
    try:
        return pool.index(name)
    except ValueError:
        return name


# ---- one mode -----------------------------------------------------------------------

EXPECTED = ("DivergedBranches", "NoSuchRevision", "NoSuchTag", "LockContention", "KeyError",
            "AssertionError", "UnknownErrorFromSmartServer", "GhostRevisionsHaveNoRevno")


class _Run:
    def __init__(self, inp, mode):
        from breezy import controldir
        self.inp, self.mode, self.g, self.fmt = inp, mode, [list(p) for p in inp["g"]], inp["fmt"]
        self.n0 = len(self.g)
        self.big = inp.get("big") or {}
        self.src = _source(inp["g"], self.fmt, self.big)
        _state["n"] += 1
        # same leaf name in every mode: the implicit branch nick is recorded in commits
        self.name = "m%d/tgt" % _state["n"]
        self.path = os.path.join(_state["root"], self.name)
        os.makedirs(os.path.dirname(self.path), exist_ok=True)
        cd = controldir.ControlDir.create(self.path, format=controldir.format_registry.make_controldir(self.fmt))
        cd.create_repository()
        br = cd.create_branch()
        self.seen = set()
        self.committed = {}
        self.locker = None
        self.stale = None
        self.one_object = bool(inp.get("one_object"))
        self.obj = None
        self.mine = None
        self.pt = []
        init = inp.get("init")
        if init is not None:
            br.repository.fetch(self.src["branch"].repository, revision_id=rid(init))
            with br.lock_write():
                br.set_last_revision_info(daglib.revno_of(self.g, init), rid(init))

    # -- access paths
    def open(self, own_connection=False):
        """A fresh Branch object.  Remote modes: the connection is shared by the operations of
        the run (a new one after every failed operation: a failure may leave a response unread);
        the locker keeps a connection of its own."""
        from breezy.branch import Branch
        if self.one_object and not own_connection:
            # ONE branch object for the whole run (client-side caches, attached VFS objects and an
            # outer write lock survive from one operation to the next)
            if self.obj is None:
                self.obj = Branch.open(self.path) if self.mode == "local" else \
                    Branch.open(_state["url"] + self.name, possible_transports=self.pt)
            return self.obj
        if self.mode == "local":
            return Branch.open(self.path)
        pt = [] if own_connection else self.pt
        br = Branch.open(_state["url"] + self.name, possible_transports=pt)
        if not own_connection:
            self.pt = pt
        return br

    def close_all(self):
        if self.one_object:
            return                      # keep the object (and its lock) across failed operations
        for t in self.pt:
            try:
                t.disconnect()
            except Exception:
                pass
        self.pt = []

    def src_at(self, s):
        br = self.src["branch"]
        with br.lock_write():
            if s is None:
                br.set_last_revision_info(0, b"null:")
            else:
                br.set_last_revision_info(daglib.revno_of(self.g, s), rid(s))
        return br

    def _disconnect(self, br):
        if self.mode != "local":
            try:
                br.controldir.root_transport.disconnect()
            except Exception:
                pass

    # -- operations
    def do(self, op):
        name = op[0]
        return getattr(self, "op_" + name)(*op[1:])

    @staticmethod
    def _res(r):
        return [r.old_revno, _idx(r.old_revid), r.new_revno, _idx(r.new_revid)]

    def op_push(self, s, ow):
        return self._res(self.src_at(s).push(self.open(), overwrite=bool(ow)))

    def op_pull(self, s, ow):
        return self._res(self.open().pull(self.src_at(s), overwrite=bool(ow)))

    def op_fetch(self, s):
        self.open().repository.fetch(self.src["branch"].repository, revision_id=rid(s))
        return Tag("ok")

    def op_pullfrom(self):
        from breezy import controldir
        _state["n"] += 1
        lpath = os.path.join(_state["root"], "l%d" % _state["n"])
        cd = controldir.ControlDir.create(lpath, format=controldir.format_registry.make_controldir(self.fmt))
        cd.create_repository()
        lb = cd.create_branch()
        try:
            lb.pull(self.open())
            with lb.lock_read():
                revs = sorted(_idx(r) for r in lb.repository.all_revision_ids())
                bad = sum(1 for r in revs if not self._payload_ok(lb.repository, r))
                info = lb.last_revision_info()
                tags = sorted([_pool_idx(TAGS, k), _idx(v)] for k, v in lb.tags.get_tag_dict().items())
            return [info[0], _idx(info[1]), revs, tags, bad]
        finally:
            shutil.rmtree(lpath, ignore_errors=True)

    def op_commit(self):
        br = self.open()
        new = len(self.g)
        tree = br.create_memorytree()
        with tree.lock_write():
            tip = br.last_revision()
            if tip == b"null:":
                tree.add([""], ids=[b"root-id"], kinds=["directory"])
                tree.add(["f"], ids=[b"f-id"], kinds=["file"])
            tree.put_file_bytes_non_atomic("f", self._want_text(new))
            tree.commit("commit %d" % new, rev_id=rid(new), timestamp=1100000000 + new, timezone=0,
                        committer="Verif <verif@example.com>")
        self.g.append([] if tip == b"null:" else [_idx(tip)])
        return new

    def op_set_tag(self, t, r):
        self.open().tags.set_tag(TAGS[t], rid(r))
        return None

    def op_del_tag(self, t):
        self.open().tags.delete_tag(TAGS[t])
        return None

    def op_set_conf(self, o, v, old):
        br = self.open()
        if old:
            br.get_config().set_user_option(OPTS[o], VALS[v])
        else:
            br.get_config_stack().set(OPTS[o], VALS[v])
        return None

    def op_lock(self):
        if self.locker is not None or self.stale is not None:
            # a second client tries while the first holds the lock
            other = self.open()
            other.lock_write()
            other.unlock()
            return Tag("ok")
        br = self.open(own_connection=True)
        br.lock_write()
        self.locker = br
        return Tag("ok")

    def op_stale_lock(self):
        """Environment: somebody's BRANCH lock is left in place (stale), the repository is free.
        Taken and released on disk, by path, in every mode."""
        from breezy.branch import Branch
        holder = Branch.open(self.path)
        token = holder.lock_write().token          # LockContention when a lock is already there
        holder.leave_lock_in_place()
        holder.unlock()
        self.stale = token
        return Tag("ok")

    def _release_stale(self):
        from breezy.branch import Branch
        token, self.stale = self.stale, None
        holder = Branch.open(self.path)
        holder.lock_write(token=token)
        holder.dont_leave_lock_in_place()
        holder.unlock()

    def op_sign(self, revs):
        """repo.sign_revision for several revisions inside ONE write group (brz sign-my-commits)."""
        from breezy import gpg
        repo = self.open().repository
        strategy = gpg.LoopbackGPGStrategy(None)
        repo.lock_write()
        try:
            repo.start_write_group()
            try:
                for r in revs:
                    repo.sign_revision(rid(r), strategy)
            except BaseException:
                repo.abort_write_group()
                raise
            repo.commit_write_group()
        finally:
            repo.unlock()
        return Tag("ok")

    def op_begin(self):
        if self.mine is None:
            br = self.open()
            br.lock_write()
            self.mine = br
        return Tag("ok")

    def op_end(self):
        if self.mine is None:
            return Tag("not-open")
        br, self.mine = self.mine, None
        br.unlock()
        return Tag("ok")

    def op_unlock(self):
        if self.stale is not None:
            self._release_stale()
            return Tag("ok")
        if self.locker is None:
            return Tag("not-held")
        br, self.locker = self.locker, None
        try:
            br.unlock()
        finally:
            self._disconnect(br)
        return Tag("ok")

    def op_parent_map(self, keys):
        br = self.open()
        ks = [b"null:" if k is None else rid(k) for k in keys]
        with br.lock_read():
            pm = br.repository.get_parent_map(ks)
        return sorted([-1 if _idx(k) is None else _idx(k), [-1 if _idx(p) is None else _idx(p) for p in ps]]
                      for k, ps in pm.items())

    def op_get_rev(self, r):
        br = self.open()
        rev = br.repository.get_revision(rid(r))
        ok = rev.revision_id == rid(r) and rev.committer == "Verif <verif@example.com>" and \
            rev.message in ("revision %d" % r, "commit %d" % r)
        return [[_idx(p) for p in rev.parent_ids], bool(ok)]

    def op_lri(self):
        info = self.open().last_revision_info()
        return [info[0], _idx(info[1])]

    def op_revno(self, r):
        return self.open().revision_id_to_revno(rid(r))

    def op_revtree(self, r):
        br = self.open()
        with br.lock_read():
            t = br.repository.revision_tree(rid(r))
            return bool(t.get_file_text("f") == self._want_text(r))

    def op_genhist(self, r):
        if self.mode == "oldsrv" and not self.one_object:
            # on a connection that has already learnt "server older than 1.6" the client skips its own
            # left-hand walk and an absent revision raises the other class: always ask on a new connection
            self.close_all()
        self.open().generate_revision_history(rid(r))
        return None

    # -- local read-back
    def _want_text(self, r):
        return _text(r, self.big) if r < self.n0 else b"c%d\n" % r

    def _payload_ok(self, repo, r):
        if not isinstance(r, int):
            return False
        if r < self.n0:
            return _testament(repo, rid(r)) == self.src["testament"][r]
        return repo.revision_tree(rid(r)).get_file_text("f") == self._want_text(r)

    def disk(self):
        from breezy.branch import Branch
        br = Branch.open(self.path)
        with br.lock_read():
            info = br.last_revision_info()
            tags = sorted([_pool_idx(TAGS, k), _idx(v)] for k, v in br.tags.get_tag_dict().items())
            stack = br.get_config_stack()
            conf = []
            for i, o in enumerate(OPTS):
                v = stack.get(o)
                if v is not None:
                    conf.append([i, _pool_idx(VALS, v)])
            have = sorted(_idx(r) for r in br.repository.all_revision_ids())
            new = [r for r in have if r not in self.seen]
            bad = sum(1 for r in new if not self._payload_ok(br.repository, r))
            self.seen.update(new)
            for r in new:
                if isinstance(r, int) and r >= self.n0:
                    self.committed[r] = _testament(br.repository, rid(r))
            signed = [r for r in have if isinstance(r, int) and br.repository.has_signature_for_revision_id(rid(r))]
        locked = bool(br.get_physical_lock_status())
        rlocked = bool(br.repository.get_physical_lock_status())
        return [info[0], _idx(info[1]), tags, conf, have, locked, rlocked, signed, bad]

    def run(self):
        trace = []
        try:
            for op in self.inp["ops"]:
                try:
                    res = self.do(op)
                except BaseException as e:
                    nm = type(e).__name__
                    if nm not in EXPECTED:
                        raise
                    res = Err(nm)
                    self.close_all()
                trace.append([res, self.disk()])
        finally:
            if self.mine is not None:
                try:
                    self.mine.unlock()
                except BaseException:
                    pass
            if self.obj is not None:
                self.one_object = False
                self._disconnect(self.obj)
            if self.stale is not None:
                try:
                    self._release_stale()
                except BaseException:
                    pass
            if self.locker is not None:
                try:
                    self.locker.unlock()
                except BaseException:
                    pass
                self._disconnect(self.locker)
            self.close_all()
            shutil.rmtree(os.path.dirname(self.path), ignore_errors=True)
        return trace, [self.committed[k] for k in sorted(self.committed)]


class _OldServer:
    """Hide the modern verbs from the in-process server for the duration of one run."""

    def __enter__(self):
        from breezy.bzr.smart import request
        reg = request.request_handlers
        self.saved = {}
        for k in OLD_SERVER_LACKS:
            self.saved[k] = (reg._dict[k], reg._help_dict.get(k), reg._info_dict.get(k))
            reg.remove(k)

    def __exit__(self, *a):
        from breezy.bzr.smart import request
        reg = request.request_handlers
        for k, (o, h, i) in self.saved.items():
            reg._dict[k], reg._help_dict[k], reg._info_dict[k] = o, h, i


def _modes(inp):
    return MODES if inp.get("oldsrv") else MODES[:3]


def impl(inp):
    _ensure()
    out = []
    for mode in _modes(inp):
        if mode == "novfs":
            os.environ["BRZ_NO_SMART_VFS"] = "1"
        else:
            os.environ.pop("BRZ_NO_SMART_VFS", None)
        try:
            if mode == "oldsrv":
                with _OldServer():
                    trace, sha = _Run(inp, mode).run()
            else:
                trace, sha = _Run(inp, mode).run()
        finally:
            os.environ.pop("BRZ_NO_SMART_VFS", None)
        out.append([trace, sha])
    return out


# ---- model term ----------------------------------------------------------------------

def _coq_op(op):
    n, a = op[0], op[1:]
    b = coq_bool
    if n == "push":
        return f"(Push {a[0]} {b(a[1])})"
    if n == "pull":
        return f"(Pull {a[0]} {b(a[1])})"
    if n == "fetch":
        return f"(Fetch {a[0]})"
    if n == "pullfrom":
        return "PullFrom"
    if n == "commit":
        return "Commit"
    if n == "set_tag":
        return f"(SetTag {a[0]} {a[1]})"
    if n == "del_tag":
        return f"(DelTag {a[0]})"
    if n == "set_conf":
        return f"(SetConf {a[0]} {a[1]} {b(a[2])})"
    if n == "lock":
        return "Lock"
    if n == "unlock":
        return "Unlock"
    if n == "parent_map":
        return "(ParentMap [" + "; ".join("None" if k is None else f"Some {k}" for k in a[0]) + "])"
    if n == "get_rev":
        return f"(GetRev {a[0]})"
    if n == "lri":
        return "Lri"
    if n == "revno":
        return f"(RevnoOf {a[0]})"
    if n == "revtree":
        return f"(RevTree {a[0]})"
    if n == "genhist":
        return f"(GenHist {a[0]})"
    if n == "stale_lock":
        return "StaleLock"
    if n == "begin":
        return "Begin"
    if n == "end":
        return "End"
    if n == "sign":
        return "(Sign [" + "; ".join(str(r) for r in a[0]) + "])"
    raise ValueError(op)


def model_term(inp):
    init = inp.get("init")
    return "run_case %s %s %s %s [%s]" % (
        daglib.coq_dag(inp["g"]), "None" if init is None else f"(Some {init})",
        coq_bool(inp["fmt"] in PHYSREPO), coq_bool(bool(inp.get("oldsrv"))),
        "; ".join(_coq_op(o) for o in inp["ops"]))


def impl_obs(inp, obs):
    if isinstance(obs, Err):
        return obs
    return [m[0] for m in obs]          # the three traces; testament digests are the oracle's business


# ---- the property itself, on the implementation's observation -------------------------------

FINDINGS = ("C32-parent-map-null", "C32-genhist-absent-class")
VFS_ONLY = {"pull": "AssertionError", "commit": "UnknownErrorFromSmartServer"}


def _vfs_only(inp, op):
    """The refusal class under BRZ_NO_SMART_VFS, None when the operation does not need VFS."""
    if op[0] == "sign" and inp["fmt"] in PHYSREPO:
        return "UnknownErrorFromSmartServer"       # knit-family repositories have no RPC write groups
    return VFS_ONLY.get(op[0])


def _discrepancies(inp, obs):
    """[(step, mode, kind, text)] where local and a remote mode differ (novfs: up to and
    including the first refused VFS-only operation)."""
    out = []
    local = obs[0][0]
    for mi in range(1, len(obs)):
        mode, tr = MODES[mi], obs[mi][0]
        if len(tr) != len(local):
            out.append((-1, mode, "other", "trace lengths differ"))
            continue
        cut = len(local)
        for i, op in enumerate(inp["ops"]):
            a, b = local[i], tr[i]
            if mode == "novfs" and _vfs_only(inp, op) and not (isinstance(b[0], Err) and str(b[0]) == "LockContention"):
                # documented: needs VFS.  Must be refused with the documented class and change nothing.
                prev = tr[i - 1][1] if i else None
                if not (isinstance(b[0], Err) and str(b[0]) == _vfs_only(inp, op)):
                    out.append((i, mode, "other", f"{op} expected refusal {_vfs_only(inp, op)}, got {b[0]!r}"))
                elif prev is not None and b[1] != prev:
                    out.append((i, mode, "other", f"{op} was refused but changed the stored state {prev} -> {b[1]}"))
                cut = i
                break
            if a == b and type(a[0]) is type(b[0]):
                continue
            kind = "other"
            if a[1] == b[1]:
                if op[0] == "parent_map" and None in op[1] and any(k is not None for k in op[1]) \
                        and not isinstance(a[0], Err) and not isinstance(b[0], Err) \
                        and [e for e in a[0] if e[0] != -1] == b[0]:
                    kind = "C32-parent-map-null"
                elif op[0] == "genhist" and str(a[0]) == "GhostRevisionsHaveNoRevno" and str(b[0]) == "NoSuchRevision" \
                        and isinstance(a[0], Err) and isinstance(b[0], Err):
                    kind = "C32-genhist-absent-class"
            out.append((i, mode, kind, f"step {i} {op}: local {a!r} but {mode} {b!r}"))
        if mode in ("vfs", "oldsrv") and obs[0][1] != obs[mi][1]:
            out.append((-1, mode, "other", "committed revisions differ: testaments %r vs %r" % (obs[0][1], obs[mi][1])))
        if mode == "novfs" and cut == len(local) and obs[0][1] != obs[2][1]:
            out.append((-1, mode, "other", "committed revisions differ: testaments %r vs %r" % (obs[0][1], obs[2][1])))
    # payload of every stored revision (all modes)
    for mi, m in enumerate(obs):
        for i, (res, disk) in enumerate(m[0]):
            if disk[8] != 0:
                out.append((i, MODES[mi], "other", f"step {i}: {disk[8]} stored revisions differ from the source (testament/text)"))
            if inp["ops"][i][0] == "pullfrom" and not isinstance(res, Err) and res[4] != 0:
                out.append((i, MODES[mi], "other", f"step {i}: {res[4]} revisions pulled from the target differ from the source"))
    return out


def oracle(inp, obs):
    if isinstance(obs, Err):
        return "driver error " + str(obs)
    d = _discrepancies(inp, obs)
    if not d:
        return None
    return "%s [%s]%s" % (d[0][3][:600], d[0][2], "" if len(d) == 1 else " (+%d more)" % (len(d) - 1))


def finding_matches(fid, inp, obs, why):
    if isinstance(obs, Err):
        return False
    # every discrepancy of the case must be of an exactly recognised class, and fid one of them
    kinds = {k for _, _, k, _ in _discrepancies(inp, obs)}
    return fid in kinds and kinds <= set(FINDINGS)


def nontrivial(inp, obs):
    if isinstance(obs, Err):
        return False
    tr = obs[1][0]
    changes = sum(1 for i in range(len(tr)) if not isinstance(tr[i][0], Err) and (i == 0 or tr[i][1] != tr[i - 1][1]))
    return changes >= 3


# ---- generator ---------------------------------------------------------------------------

FIXED = [
    [[], [0], [1], [0], [2, 3], [3, 47], [5]],
    [[], [0], [0], [1, 2], [2, 1], [3, 4], [4, 3]],
    [[], [], [0, 1], [1, 0], [2], [3, 2]],
]


def _gen_ops(rng, g, nops, hpss_only=False, richroot=False, init=None):
    """Mostly-valid sequence; the generator keeps a rough picture of the target."""
    n = len(g)
    total = n                      # universe size incl. commits (approximate under novfs)
    ghosts = sorted({p for ps in g for p in ps if p >= n})
    have_guess = set(daglib.ancestors(g, [init])) if init is not None else set()
    tags_set = set()
    locked = False
    ops = []
    null_pm_used = False
    while len(ops) < nops:
        x = rng.random()
        some_have = sorted(r for r in have_guess if r < total)

        def rev(p_absent=0.15):
            if some_have and rng.random() > p_absent:
                return rng.choice(some_have)
            return rng.choice(list(range(total)) + ghosts + [total + 3])
        if x < 0.17:
            s = rng.randrange(n)
            ops.append(["push", s, int(rng.random() < 0.25)])
            have_guess |= {a for a in daglib.ancestors(g, [s])}
        elif x < 0.27:
            if hpss_only:
                continue
            s = rng.randrange(n)
            ops.append(["pull", s, int(rng.random() < 0.25)])
            have_guess |= {a for a in daglib.ancestors(g, [s])}
        elif x < 0.32:
            s = rng.randrange(n)
            ops.append(["fetch", s])
            have_guess |= {a for a in daglib.ancestors(g, [s])}
        elif x < 0.37:
            ops.append(["pullfrom"])
        elif x < 0.45:
            if hpss_only:
                continue
            ops.append(["commit"])
            if not locked:
                have_guess.add(total)
                total += 1
        elif x < 0.54:
            t = rng.randrange(len(TAGS))
            ops.append(["set_tag", t, rev(0.3)])
            tags_set.add(t)
        elif x < 0.59:
            t = rng.choice(sorted(tags_set)) if tags_set and rng.random() < 0.7 else rng.randrange(len(TAGS))
            ops.append(["del_tag", t])
            tags_set.discard(t)
        elif x < 0.66:
            v = rng.choice([2, 5]) if rng.random() < 0.4 else rng.randrange(len(VALS))     # non-ASCII values often
            ops.append(["set_conf", rng.randrange(len(OPTS)), v, int(rng.random() < 0.5)])
        elif x < 0.70:
            if rng.random() < 0.5:
                # several revisions in one write group, mostly stored ones
                k = rng.randint(1, 4)
                pool = some_have if some_have and rng.random() < 0.8 else list(range(total)) + [total + 3]
                revs = []
                for r in (rng.choice(pool) for _ in range(k)):
                    if r not in revs:
                        revs.append(r)
                ops.append(["sign", revs])
            else:
                ops.append(["stale_lock"])
                locked = True
        elif x < 0.73:
            ops.append(["lock"])
            locked = True
        elif x < 0.79:
            ops.append(["unlock"])
            locked = False
        elif x < 0.84:
            keys = [rev(0.3) for _ in range(rng.randint(1, 4))]
            r = rng.random()
            if r < 0.12:
                keys = [None]
            elif r < 0.22 and not null_pm_used:
                keys.insert(rng.randrange(len(keys) + 1), None)       # finding C32-parent-map-null
                null_pm_used = True
            ops.append(["parent_map", keys])
        elif x < 0.87:
            ops.append(["get_rev", rev()])
        elif x < 0.88:
            ops.append(["lri"])
        elif x < 0.94:
            ops.append(["revno", rev(0.1)])
        elif x < 0.955:
            ops.append(["revtree", rev()])
        else:
            ops.append(["genhist", rev(0.2)])
    return ops


def _case(rng, g, fmt, nops, **kw):
    n = len(g)
    init = rng.randrange(n) if rng.random() < 0.4 else None
    richroot = fmt in RICHROOT_OLD
    ops = _gen_ops(rng, g, nops, hpss_only=kw.get("hpss_only", False), richroot=richroot, init=init)
    # classes that need two things together: a branch lock left behind (repository free) followed by
    # writes, and several signatures inside one write group
    if rng.random() < 0.35:
        ops.insert(rng.randrange(len(ops)), ["stale_lock"])
    if rng.random() < 0.35:
        ops.insert(rng.randrange(len(ops) // 2, len(ops) + 1), ["sign", rng.sample(range(n), min(n, rng.randint(2, 3)))])
    one = bool(kw.get("one_object"))
    if one:
        # one object, one outer write lock spanning several operations: look up an id that does not exist
        # yet, create it (commit through the VFS fallback), look it up again; fetch/pull/push then commit on top
        ops = [o for o in ops if o[0] != "genhist"]
        nxt = n + sum(1 for o in ops if o[0] == "commit")
        b = rng.randrange(len(ops) + 1)
        body = [["parent_map", [nxt, rng.randrange(n)]], rng.choice([["pull", rng.randrange(n), 1], ["push", rng.randrange(n), 1],
                                                                     ["fetch", rng.randrange(n)]]),
                ["commit"], ["parent_map", [nxt, nxt + 1]], ["revno", nxt], ["commit"], ["get_rev", nxt + 1], ["lri"]]
        ops = ops[:b] + [["commit"]] * (rng.random() < 0.7) + [["begin"]] + body + [["end"]] * (rng.random() < 0.7) + ops[b:]
    return {"fmt": fmt, "g": g, "init": init, "big": kw.get("big"), "oldsrv": bool(kw.get("oldsrv")) and not one,
            "one_object": one, "ops": ops}


def corpus():
    g = FIXED[0]
    return [
        # finding witness (C32-parent-map-null, still known)
        {"fmt": "2a", "g": g, "init": 4, "big": None, "ops": [["parent_map", [None, 4]], ["parent_map", [None]]]},
        # regression input: witness of C32-iter-revisions-serializer (repaired in /repo 9cb1028), must PASS now
        {"fmt": "1.9-rich-root", "g": g, "init": 4, "big": None, "oldsrv": True,
         "ops": [["get_rev", 2], ["get_rev", 6], ["lri"], ["get_rev", 4], ["revtree", 4]]},
        {"fmt": "2a", "g": g, "init": None, "big": None, "ops": [["genhist", 6], ["push", 2, 0], ["genhist", 47], ["genhist", 6], ["fetch", 4], ["genhist", 4], ["lri"], ["revno", 1]]},
        {"fmt": "1.9", "g": g, "init": 2, "big": None, "ops": [
            ["lock"], ["fetch", 4], ["fetch", 1], ["pull", 4, 0], ["commit"], ["del_tag", 3], ["genhist", 1], ["genhist", 4],
            ["set_conf", 1, 1, 1], ["pullfrom"], ["revno", 1], ["get_rev", 1], ["unlock"], ["fetch", 4], ["lock"], ["fetch", 6]]},
        # a branch lock left behind with the repository free, then refused writes (every format; the knit
        # family takes a physical repository lock), and a held lock on branch + repository
    ] + [{"fmt": fmt, "g": g, "init": 2, "big": None, "oldsrv": fmt == "dirstate-tags", "ops": [
        ["stale_lock"], ["set_tag", 1, 1], ["lock"], ["push", 4, 0], ["set_conf", 0, 1, 1], ["genhist", 1], ["fetch", 4],
        ["sign", [1, 2]], ["unlock"], ["lock"], ["fetch", 6], ["sign", [0]], ["lock"], ["unlock"], ["fetch", 6], ["set_tag", 1, 1]]}
        for fmt in ("dirstate-tags", "2a")] + [
        # several signatures inside one write group (RPC write-group verbs on pack formats), incl. a failing one
        {"fmt": fmt, "g": g, "init": 4, "big": None, "oldsrv": True, "ops": [
            ["sign", [1, 2, 3]], ["sign", [4, 0]], ["sign", [2, 60, 1]], ["sign", []], ["pullfrom"], ["push", 6, 1],
            ["sign", [6, 5, 0]]]} for fmt in ("2a", "1.9", "dirstate-tags")] + [
        # ONE branch object and one outer write lock over several operations (client caches, VFS fallback objects)
    ] + [{"fmt": fmt, "g": g, "init": 2, "big": None, "oldsrv": False, "one_object": True, "ops": [
        ["commit"], ["begin"], ["parent_map", [8, 2]], ["commit"], ["parent_map", [8, 7]], ["revno", 8], ["pull", 4, 1],
        ["commit"], ["get_rev", 9], ["lock"], ["stale_lock"], ["set_tag", 1, 9], ["push", 6, 1], ["commit"], ["lri"],
        ["fetch", 5], ["sign", [9, 10]], ["begin"], ["end"], ["end"], ["lock"], ["begin"], ["unlock"]]}
        for fmt in ("2a", "dirstate-tags")] + [
        # one sequence touching every operation, every format
    ] + [{"fmt": fmt, "g": g, "init": None, "big": None, "ops": [
        ["push", 4, 0], ["lri"], ["revno", 3], ["revno", 1], ["revno", 4], ["set_conf", 3, 2, 1], ["set_conf", 2, 5, 1],
        ["set_conf", 2, 7, 0], ["pull", 6, 0], ["pull", 6, 1], ["fetch", 4], ["revno", 0], ["revno", 2],
        ["parent_map", [4, 2, 6, 47, 0]], ["set_conf", 0, 2, 0], ["set_conf", 1, 3, 1], ["commit"], ["revtree", 4],
        ["lock"], ["set_tag", 1, 3], ["lock"], ["push", 4, 1], ["del_tag", 0], ["commit"], ["pull", 4, 1], ["fetch", 2],
        ["genhist", 2], ["set_conf", 0, 1, 0], ["pullfrom"], ["unlock"], ["unlock"], ["set_tag", 2, 3], ["set_tag", 5, 99],
        ["del_tag", 0], ["del_tag", 2], ["genhist", 5], ["genhist", 2], ["genhist", 60], ["pullfrom"], ["commit"],
        ["revtree", 7], ["revtree", 30], ["push", 6, 0], ["push", 6, 1], ["push", 2, 0]]} for fmt in FORMATS[:1]] + [
        {"fmt": fmt, "g": g, "init": 1, "big": None, "oldsrv": True, "ops": [
            ["push", 4, 0], ["set_tag", 2, 3], ["set_conf", 3, 2, 1], ["set_conf", 0, 5, 0], ["pull", 6, 1], ["commit"],
            ["revno", 3], ["revno", 2], ["get_rev", 5], ["revtree", 6], ["genhist", 4], ["genhist", 47], ["del_tag", 2],
            ["lock"], ["set_tag", 1, 1], ["unlock"], ["pullfrom"], ["parent_map", [6, 47, 3]]]} for fmt in FORMATS[1:]]


def cases(rng, tier):
    quick = tier == "quick"
    nseq, maxn = (12, 9) if quick else (220, 14)
    dags = list(FIXED)
    for k in range(nseq):
        if k % 3 == 0 or k >= len(dags):
            dags.append(daglib.gen_dag(rng, rng.randint(3, maxn), p_left_ghost=0.0, p_ghost=0.1))
    for k in range(nseq):
        g = dags[k % len(dags)] if quick else rng.choice(dags)
        fmt = FORMATS[k % len(FORMATS)] if rng.random() < 0.75 else "2a"
        yield _case(rng, g, fmt, rng.randint(6, 10 if quick else 15), hpss_only=(k % 4 == 3), oldsrv=(k % 3 == 1), one_object=(k % 3 == 2))
    # size thresholds: file texts above the medium / stream buffer sizes (64 KiB, 1 MiB)
    sizes = [[65536 - 3, 1100000]] if quick else [[70000], [65535, 65537], [1100000], [1048576 + 1, 300000]]
    for k, sz in enumerate(sizes):
        g = [[], [0], [1], [1], [2, 3]]
        big = {str(2 + j): s for j, s in enumerate(sz)}
        yield {"fmt": FORMATS[k % 2] if not quick else "2a", "g": g, "init": None, "big": big, "oldsrv": True,
               "ops": [["push", 4, 0], ["revtree", 2], ["revtree", 3], ["pullfrom"], ["get_rev", 4], ["commit"], ["pullfrom"]]}
    if not quick:
        # a history longer than the client's get_parent_map search depth (100)
        n = 108
        g = [[]] + [[i - 1] for i in range(1, n)]
        g[50] = [49, 20]
        yield {"fmt": "2a", "g": g, "init": 30, "big": None,
               "ops": [["push", n - 1, 0], ["revno", 3], ["revno", 107], ["parent_map", [107, 0, 50]], ["pullfrom"],
                       ["genhist", 5], ["push", 60, 0], ["push", 60, 1], ["revno", 61]]}


def distribution(inputs, observations):
    d = {"formats": {}, "ops": {}, "results": {}, "sequence_length": {}, "hpss_only_sequences": 0, "big_file_cases": 0,
         "steps_total": 0}
    for inp, o in zip(inputs, observations):
        d["formats"][inp["fmt"]] = d["formats"].get(inp["fmt"], 0) + 1
        k = str(len(inp["ops"]))
        d["sequence_length"][k] = d["sequence_length"].get(k, 0) + 1
        d["hpss_only_sequences"] += not any(_vfs_only(inp, op) for op in inp["ops"])
        d["big_file_cases"] += bool(inp.get("big"))
        d["steps_total"] += len(_modes(inp)) * len(inp["ops"])
        d["old_server_cases"] = d.get("old_server_cases", 0) + bool(inp.get("oldsrv"))
        for op in inp["ops"]:
            d["ops"][op[0]] = d["ops"].get(op[0], 0) + 1
        if isinstance(o, Err):
            continue
        for mi, m in enumerate(o):
            for res, _ in m[0]:
                key = MODES[mi] + ":" + (str(res) if isinstance(res, Err) else "ok")
                d["results"][key] = d["results"].get(key, 0) + 1
    return d


def shrink(inp, fails):
    cur = dict(inp)
    # one pass from the end: drop every operation whose removal keeps the failure
    for i in range(len(cur["ops"]) - 1, -1, -1):
        if len(cur["ops"]) <= 1:
            break
        cand = dict(cur, ops=cur["ops"][:i] + cur["ops"][i + 1:])
        if fails(cand):
            cur = cand
    return cur
