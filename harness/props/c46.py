"""C46 -- clean-tree deletes only what was asked for (tie H: hand model + real bzr/git trees)."""
import itertools
import json
import os
import shutil

from vlib import Tag, Err, coq_bool
from props import _dirtree_common as D

PROP = "C46"
COQ = {
    "property_file": "Properties/C46.v",
    "imports": "From BV Require Import Lib.Bytes Lib.DirTree Model.CleanTree.",
}
META = {
    "level": "proof",
    "title": "clean-tree deletes only what was asked for",
    "technique": ("Coq theorems over a hand model of clean_tree.py + WorkingTree.extras (bzr, git) on an abstract "
                  "directory tree (Lib/DirTree.v) + correspondence on real 2a and git working trees"),
    "level_text": ("Proved for every directory tree, versioned set, ignore oracle and option combination: only selected "
                   "unversioned top-level items are handed to unlink/rmtree, versioned paths and their ancestors keep "
                   "their kind, every deleted path is a real entry reached without traversing a symlink, dry run / "
                   "declined prompt / no category are no-ops, the control directory of every branch (own, nested at any "
                   "depth, any registered format, bzr and git trees) survives with all it holds, an unversioned item "
                   "holding a branch anywhere below it is kept entirely, git trees keep everything below a directory "
                   "holding a .git entry, nothing with a control filename among its path components is deletable "
                   "(repairs 07ac4fc, edd5827, b06b6de). Machine-checked refutation of the residue: working files of a "
                   "bzr branch nested in a git tree / of a git repository rooted in a versioned directory are deleted. Model tied to the code by running clean_tree on real trees (file system before/after)."),
    "level_note": ("Trusted: Coq kernel, vm_compute, correspondence of the hand model (sampled layouts), the ignore "
                   "oracle is an input (real is_ignored answers are fed in), permission errors not modelled."),
    "design_ref": "DESIGN.md §5 C46",
    "trusted_base": ["hand model coq/Model/CleanTree.v of breezy/clean_tree.py, InventoryWorkingTree.extras, "
                     "GitWorkingTree.extras/_iter_files_recursive",
                     "harness/props/c46.py + _dirtree_common.py (tree construction, lstat snapshot)"],
    "assumptions": ["inventory invariant: the parent of a versioned path is a versioned directory (bzr)",
                    "directories have pairwise distinct entry names (wf_node)",
                    "is_ignored is an oracle (its answers on the real tree are inputs of the model)",
                    "no permission errors, no concurrent modification, POSIX symlinks, no fifo/socket entries",
                    "nested control directories are .bzr with a valid branch-format file or any .git entry",
                    "registered control dir formats are bzr and git (control filenames .bzr and .git)"],
    "rule": ("hand-written layouts x all 16 flag combinations x bzr/git, then seeded random layouts over <= 8 names "
             "(depth <= 3, symlinks in/out/dangling, .bzr/.git at depth 0-3, ignore patterns, detritus names) with "
             "random options; non-trivial = something is deleted or a nested control dir is present"),
}
SHARD = 200
_cache = {}


def setup(scratch):
    D.setup(scratch)


# ---------------------------------------------------------------- generator
POOL = ["a", "b", "v", "w", "u", "n", "ig", "x.o", "t.tmp", "y~", "c.THIS", "c.BASE", "c.OTHER", "m", "q.tmp"]
IGN = ["ig", "*.o", "*.tmp", "./v/ig", "n", "u/*", "m"]


def _inp(fmt, layout, versioned, ignore, flags, dry=False, confirm=None, swap=()):
    # swap: directories that are replaced by a symlink to the directory OUTSIDE the tree after the
    # versioned set has been recorded (uncommitted kind change of a versioned directory)
    return {"fmt": fmt, "layout": [list(e) for e in layout], "versioned": list(versioned),
            "ignore": list(ignore), "flags": [bool(x) for x in flags], "dry": bool(dry), "confirm": confirm,
            "swap": list(swap)}


def _gitfile(d):
    return [(d + "/.git", "f")]


def _bzrctl(d):
    return [(d + "/.bzr", "d"), (d + "/.bzr/branch-format", "f")]


def _gitctl(d):
    return [(d + "/.git", "d"), (d + "/.git/HEAD", "f")]


HAND = [
    # (layout, versioned(bzr), versioned(git), ignore)
    ([("v", "d"), ("v/f", "f"), ("v/unk", "f"), ("x", "f"), ("ig", "f"), ("y~", "f"), ("t.tmp", "f"),
      ("u", "d"), ("u/k", "f"), ("u/y~", "f")], ["v", "v/f"], ["v/f"], ["ig"]),
    ([("n1", "d")] + _bzrctl("n1") + [("n1/w", "f"), ("u", "d"), ("u/n2", "d")] + _bzrctl("u/n2") + [("u/n2/w", "f")],
     [], [], []),
    ([("g1", "d")] + _gitctl("g1") + [("g1/w", "f"), ("u", "d"), ("u/g2", "d")] + _gitctl("u/g2") + [("u/g2/w", "f")],
     [], [], []),
    ([("v", "d"), ("v/f", "f")] + _gitctl("v") + _bzrctl("v"), ["v", "v/f"], [], []),
    ([("e", "d"), ("e/.bzr", "d"), ("lo", "lo"), ("lf", "lf"), ("lx", "lx"), ("v", "d"), ("v/f", "f"),
      ("li", "li:v"), ("v/lo", "lo")], ["v", "v/f"], ["v/f"], []),
    ([("ig", "d"), ("ig/f", "f"), ("ig/n", "d")] + _bzrctl("ig/n") + [("c.THIS", "d"), ("c.THIS/z", "f"),
                                                                       ("c.BASE", "f"), ("c.OTHER", "lx")],
     [], [], ["ig"]),
    ([("v", "d"), ("v/w", "d"), ("v/w/f", "f"), ("v/w/u", "d"), ("v/w/u/x.o", "f"), ("v/gone", "f")],
     ["v", "v/w", "v/w/f"], ["v/w/f"], ["*.o"]),
]


def corpus():
    out = []
    # witnesses of the three repaired findings (07ac4fc, b06b6de, edd5827): regression inputs
    out.append(_inp("bzr", [("u", "d"), ("u/n", "d")] + _bzrctl("u/n") + [("u/n/work", "f")], [], [], (1, 0, 0)))
    # witness of C46-foreign-control-dir (fixed by b06b6de): must pass the oracle now
    out.append(_inp("bzr", [(".git", "d"), (".git/HEAD", "f"), ("f", "f")], ["f"], [], (1, 0, 0)))
    out.append(_inp("git", [("n", "d")] + _bzrctl("n"), [], [], (1, 0, 0)))
    out.append(_inp("bzr", [("ig", "d"), ("ig/a", "d"), ("ig/a/g", "d")] + _gitctl("ig/a/g") + [("ig/x", "f")],
                    [], ["ig"], (0, 1, 0)))
    # a versioned directory swapped for a symlink to a directory outside the tree: nothing outside may go
    for fl in ((1, 0, 0), (0, 1, 0), (0, 0, 1), (1, 1, 1)):
        out.append(_inp("bzr", [("v", "d"), ("v/f", "f"), ("x", "f")], ["v", "v/f"], ["o", "sub"], fl, swap=["v"]))
    out.append(_inp("bzr", [("a", "d"), ("a/v", "d"), ("a/v/f", "f")], ["a", "a/v"], [], (1, 0, 0), swap=["a/v"]))
    out.append(_inp("git", [("v", "d"), ("v/f", "f"), ("x", "f")], ["v/f"], [], (1, 1, 1), swap=["v"]))
    # nested git checkouts whose .git is a gitdir pointer FILE (worktree / submodule), at the top of an
    # unknown / ignored directory and deeper
    out.append(_inp("bzr", [("w", "d")] + _gitfile("w") + [("w/k", "f")], [], [], (1, 0, 0)))
    out.append(_inp("bzr", [("u", "d"), ("u/a", "d"), ("u/a/w", "d")] + _gitfile("u/a/w") + [("u/a/w/k", "f"), ("u/z", "f")],
                    [], [], (1, 0, 0)))
    out.append(_inp("bzr", [("ig", "d"), ("ig/w", "d")] + _gitfile("ig/w") + [("ig/w/k", "f")], [], ["ig"], (0, 1, 0)))
    out.append(_inp("bzr", [("y~", "d"), ("y~/w", "d")] + _gitfile("y~/w"), [], [], (0, 0, 1)))
    out.append(_inp("git", [("u", "d"), ("u/w", "d")] + _gitfile("u/w") + [("u/w/k", "f"), ("u/z", "f")], [], [], (1, 0, 0)))
    # witnesses of the residue C46-nested-branch-working-files
    out.append(_inp("git", [("n", "d")] + _bzrctl("n") + [("n/work", "f")], [], [], (1, 0, 0)))
    out.append(_inp("bzr", [("v", "d")] + _gitctl("v") + [("v/k", "f")], ["v"], [], (1, 0, 0)))
    # the control-filename skip: .git in a versioned subdirectory / all flags; plain entries named .bzr in a git tree
    out.append(_inp("bzr", [("v", "d"), ("v/.git", "d"), ("v/.git/HEAD", "f"), ("v/k", "f")], ["v"], [], (1, 1, 1)))
    out.append(_inp("git", [("u", "d"), ("u/.bzr", "f"), ("u/k", "f"), ("w", "d"), ("w/.bzr", "lx")], [], [], (1, 1, 1)))
    return out


def _random_layout(rng, fmt):
    names = rng.sample(POOL, 8)
    layout = []

    def fill(rel, depth):
        used = set()
        for _ in range(rng.choice([0, 1, 2, 2, 3, 4]) if rel else rng.choice([2, 3, 4, 5])):
            n = rng.choice(names)
            if n in used:
                continue
            used.add(n)
            p = n if not rel else rel + "/" + n
            r = rng.random()
            if r < 0.45:
                layout.append((p, "f"))
            elif r < 0.8 and depth < 3:
                layout.append((p, "d"))
                fill(p, depth + 1)
            elif r < 0.85:
                layout.append((p, "lo"))
            elif r < 0.9:
                layout.append((p, "lx"))
            elif r < 0.94:
                layout.append((p, "lf"))
            else:
                dirs = [q for q, k in layout if k == "d" and not p.startswith(q + "/")]
                layout.append((p, "li:" + rng.choice(dirs)) if dirs else (p, "f"))

    fill("", 0)
    dirs = [p for p, k in layout if k == "d"]
    # nested control directories
    for _ in range(rng.choice([0, 0, 1, 1, 2])):
        cand = dirs + ([""] if fmt == "bzr" else [])
        if not cand:
            break
        d = rng.choice(cand)
        r = rng.random()
        pre = d + "/" if d else ""
        have = {p for p, _ in layout}
        if d != "" and r < 0.15:
            if pre + ".git" not in have:
                layout.append((pre + ".git", "f"))          # gitdir pointer file
        elif d == "" or r < 0.4:
            if pre + ".git" not in have:
                layout += [(pre + ".git", "d"), (pre + ".git/HEAD", "f")]
        elif r < 0.85:
            if pre + ".bzr" not in have:
                layout += [(pre + ".bzr", "d"), (pre + ".bzr/branch-format", "f")]
                if rng.random() < 0.3:
                    layout.append((pre + ".bzr/README", "f"))
        else:
            if pre + ".bzr" not in have:
                layout.append((pre + ".bzr", "d"))
    return layout


def _is_ctl_path(p):
    return any(s in (".bzr", ".git") for s in p.split("/"))


def _random_versioned(rng, fmt, layout):
    kinds = dict(layout)
    has_ctl = {p.rsplit("/", 1)[0] if "/" in p else "" for p, _ in layout
               if p.rsplit("/", 1)[-1] in (".bzr", ".git")}
    vs = []
    dens = rng.choice([0.0, 0.3, 0.6, 0.9])
    for p, k in sorted(layout, key=lambda e: e[0].split("/")):
        if _is_ctl_path(p):
            continue
        par = p.rsplit("/", 1)[0] if "/" in p else ""
        if fmt == "bzr":
            if (par == "" or par in vs) and rng.random() < dens:
                vs.append(p)
        else:
            if k == "d" or k.startswith("li:"):
                continue
            anc = [p.rsplit("/", i)[0] for i in range(1, p.count("/") + 1)]
            if any(a in has_ctl for a in anc):
                continue
            if any(kinds.get(a, "d") != "d" for a in anc):
                continue
            if rng.random() < dens:
                vs.append(p)
    return vs


def cases(rng, tier):
    for lay, vb, vg, ign in HAND:
        for fmt in ("bzr", "git"):
            for fl in itertools.product([0, 1], repeat=3):
                yield _inp(fmt, lay, vb if fmt == "bzr" else vg, ign, fl)
            yield _inp(fmt, lay, vb if fmt == "bzr" else vg, ign, (1, 1, 1), dry=True)
            yield _inp(fmt, lay, vb if fmt == "bzr" else vg, ign, (1, 1, 1), confirm=False)
            yield _inp(fmt, lay, vb if fmt == "bzr" else vg, ign, (1, 0, 1), confirm=True)
    n = 1100 if tier == "quick" else 8000
    for i in range(n):
        fmt = "bzr" if rng.random() < 0.6 else "git"
        lay = _random_layout(rng, fmt)
        vs = _random_versioned(rng, fmt, lay)
        ign = [x for x in IGN if rng.random() < 0.25]
        fl = rng.choice([(1, 0, 0), (1, 0, 0), (0, 1, 0), (0, 0, 1), (1, 1, 0), (1, 0, 1), (0, 1, 1), (1, 1, 1), (0, 0, 0)])
        r = rng.random()
        swap = []
        if rng.random() < 0.12:
            kinds = dict(lay)
            if fmt == "bzr":
                cand = [v for v in vs if kinds.get(v) == "d"]
            else:
                cand = sorted({a for v in vs for a in _anc(v)})
            cand = [c for c in cand if not any(k.startswith("li:") and (k[3:] == c or k[3:].startswith(c + "/"))
                                               for k in kinds.values())]
            if cand:
                swap = [rng.choice(cand)]
        yield _inp(fmt, lay, vs, ign, fl, dry=(r < 0.1), confirm=(None if r < 0.8 else (r < 0.92)), swap=swap)


# ---------------------------------------------------------------- implementation driver
def _key(inp):
    return json.dumps(inp, sort_keys=True)


def impl(inp):
    import breezy
    import breezy.bzr  # noqa
    import breezy.git  # noqa
    from breezy import clean_tree, ui
    from breezy.workingtree import WorkingTree
    fmt = inp["fmt"]
    base = D.new_tree(fmt)
    old_ui = ui.ui_factory
    try:
        D.materialise(base, [tuple(e) for e in inp["layout"]], inp["ignore"], fmt)
        wt = WorkingTree.open(base)
        if inp["versioned"]:
            wt.add(list(inp["versioned"]))
        for p in inp.get("swap", []):
            D.swap_for_outside_link(base, p)
        wt = WorkingTree.open(base)
        before = D.snapshot(base, fmt)
        with wt.lock_read():
            vs = [[p, ie.kind == "directory"] for p, ie in wt.iter_entries_by_dir() if p != ""]
            if fmt == "git":
                vs = [e for e in vs if not e[1]]
            ign = [p for p, _k in before if wt.is_ignored(p) is not None]
            u, i, d = inp["flags"]
            dels = list(clean_tree.iter_deletables(wt, unknown=u, ignored=i, detritus=d))
            dels = clean_tree._filter_out_nested_controldirs(dels)
            dels = sorted((s for _a, s in dels), key=lambda s: s.split("/"))
        out0 = D.outside_state()
        exc = None
        if inp["confirm"] is not None:
            ui.ui_factory = ui.CannedInputUIFactory([bool(inp["confirm"])])
        try:
            clean_tree.clean_tree(base, unknown=u, ignored=i, detritus=d, dry_run=inp["dry"],
                                  no_prompt=inp["confirm"] is None)
        except (OSError, breezy.errors.BzrError) as e:
            exc = type(e).__name__
        after = D.snapshot(base, fmt)
        facts = {"before": [list(e) for e in before], "vs": vs, "ign": ign}
        _cache[_key(inp)] = facts
        outside_ok = D.outside_state() == out0
        if not outside_ok:
            D.reset_outside()
        return {"facts": facts, "dels": dels, "after": [list(e) for e in after],
                "outside_ok": outside_ok, "exc": exc}
    finally:
        ui.ui_factory = old_ui
        shutil.rmtree(base, ignore_errors=True)


def impl_obs(inp, obs):
    if isinstance(obs, Err):
        return obs
    if obs["exc"]:
        return Err(obs["exc"])
    return [obs["dels"], D.obs_snapshot([tuple(e) for e in obs["after"]])]


def model_term(inp):
    facts = _cache.get(_key(inp))
    if facts is None:
        o = impl(inp)
        facts = o["facts"]
    u, i, d = inp["flags"]
    conf = "None" if inp["confirm"] is None else f"(Some {coq_bool(inp['confirm'])})"
    vs = "[" + "; ".join(f"({D.coq_path(p)}, {coq_bool(k)})" for p, k in facts["vs"]) + "]" \
        if facts["vs"] else "(@nil (path * bool))"
    return (f"run_case {'Bzr' if inp['fmt'] == 'bzr' else 'Git'} {D.coq_node([tuple(e) for e in facts['before']])} "
            f"{vs} {D.coq_paths(facts['ign'])} "
            f"(Build_opts {coq_bool(u)} {coq_bool(i)} {coq_bool(d)} {coq_bool(inp['dry'])} {conf})")


# ---------------------------------------------------------------- the property itself
def _anc(p):
    s = p.split("/")
    return ["/".join(s[:k]) for k in range(1, len(s))]


def oracle(inp, obs):
    if isinstance(obs, Err):
        return "driver error " + str(obs)
    if obs["exc"]:
        return "clean_tree raised " + obs["exc"]
    before = {p: k.lower() for p, k in obs["facts"]["before"]}   # l/L: a link may lose its target
    after = {p: k.lower() for p, k in obs["after"]}
    vs = {p for p, _ in obs["facts"]["vs"]}
    ign = set(obs["facts"]["ign"])
    u, i, d = inp["flags"]
    if not obs["outside_ok"]:
        return "something outside the tree was changed"
    for p, k in after.items():
        if before.get(p) != k:
            return f"{p!r} appeared or changed kind"
    removed = [p for p in before if p not in after]
    if (inp["dry"] or inp["confirm"] is False or not (u or i or d)) and removed:
        return f"dry run / declined / no category, but {removed[:3]!r} deleted"
    own = D.OWN_CTL[inp["fmt"]]
    for p in removed:
        if p in vs:
            return f"versioned path {p!r} deleted"
        if any(v.startswith(p + "/") for v in vs if v in before):
            return f"{p!r}, an ancestor of a versioned path, deleted"
    # nested branches: a control directory (and what it holds) must survive
    for p in sorted(before):
        segs = p.split("/")
        for k in range(len(segs)):
            c = "/".join(segs[:k + 1])
            if segs[k] in (".bzr", ".git") and D.is_ctl_dir(before, c) and p not in after:
                return f"nested branch: control directory entry {p!r} deleted (control dir {c!r})"
    # ... and so must the working files of a nested branch (everything below its root)
    for c in sorted(before):
        segs = c.split("/")
        if len(segs) >= 2 and segs[-1] in (".bzr", ".git") and D.is_ctl_dir(before, c):
            root = "/".join(segs[:-1])
            gone = [p for p in removed if p.startswith(root + "/")]
            if gone:
                return f"nested branch working files: {gone[:3]!r} below the branch root {root!r} deleted"
    from breezy.clean_tree import is_detritus
    for p in removed:
        tops = [a for a in _anc(p) if a in removed]
        top = tops[0] if tops else p
        if d and is_detritus(top):
            continue
        if top in ign:
            if not i:
                return f"ignored {top!r} deleted but ignored was not requested"
        elif not u:
            return f"unknown {top!r} deleted but unknown was not requested"
    return None


def _ctl_roots(inp):
    """(branch root, control name) for every control directory of the layout that ControlDir.open accepts."""
    kinds = {p: k for p, k in inp["layout"]}
    out = []
    for p in kinds:
        last = p.rsplit("/", 1)[-1]
        if last in (".bzr", ".git") and D.is_ctl_dir(kinds, p):
            out.append((p.rsplit("/", 1)[0] if "/" in p else "", last))
    return out


def finding_matches(fid, inp, obs, why):
    # C46-deep-nested-branch (07ac4fc), C46-foreign-control-dir (b06b6de) and C46-git-tree-nested-bzr
    # (edd5827) are fixed: no predicate excuses them any more.
    if fid != "C46-nested-branch-working-files" or not (why or "").startswith("nested branch working files"):
        return False
    vs = set(inp["versioned"])
    roots = _ctl_roots(inp)
    if inp["fmt"] == "git":      # a bzr branch nested in a git tree: its unknown files belong to the outer tree
        return any(c == ".bzr" and r != "" for r, c in roots)
    # bzr tree: a VERSIONED directory that is the root of a git repository
    return any(c == ".git" and r != "" and r in vs for r, c in roots)


def nontrivial(inp, obs):
    if isinstance(obs, Err):
        return False
    return len(obs["after"]) != len(obs["facts"]["before"]) or bool(_ctl_roots(inp))


def distribution(inputs, observations):
    d = {"bzr": 0, "git": 0, "deleted_something": 0, "with_nested_control": 0, "dry_or_declined": 0,
         "symlinks": 0, "swapped_dir": 0, "gitdir_file": 0, "by_flags": {}}
    for i, o in zip(inputs, observations):
        d[i["fmt"]] += 1
        if not isinstance(o, Err) and len(o["after"]) != len(o["facts"]["before"]):
            d["deleted_something"] += 1
        if _ctl_roots(i):
            d["with_nested_control"] += 1
        if i["dry"] or i["confirm"] is False:
            d["dry_or_declined"] += 1
        if any(k.startswith("l") for _p, k in i["layout"]):
            d["symlinks"] += 1
        d["swapped_dir"] += bool(i.get("swap"))
        d["gitdir_file"] += any(p.rsplit("/", 1)[-1] == ".git" and k == "f" for p, k in i["layout"])
        k = "".join("1" if x else "0" for x in i["flags"])
        d["by_flags"][k] = d["by_flags"].get(k, 0) + 1
    return d


def shrink(inp, fails):
    cur = inp
    changed = True
    while changed:
        changed = False
        for idx in range(len(cur["layout"])):
            p = cur["layout"][idx][0]
            lay = [e for e in cur["layout"] if e[0] != p and not e[0].startswith(p + "/")
                   and not (e[1].startswith("li:") and (e[1][3:] == p or e[1][3:].startswith(p + "/")))]
            vs = [v for v in cur["versioned"] if v != p and not v.startswith(p + "/")]
            if any(w == p or w.startswith(p + "/") for w in cur.get("swap", [])):
                continue
            cand = dict(cur, layout=lay, versioned=vs)
            try:
                if fails(cand):
                    cur, changed = cand, True
                    break
            except Exception:
                pass
    return cur
