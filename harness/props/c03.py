"""C03 -- Fetch, push and pull copy history completely and faithfully (tie H).

A case = a history (universe: Lib/Dag graph with merges and ghosts, per-revision tree changes on
files / a directory / a symlink with non-ASCII names, optionally "late" revisions that reach the
source only after the target was seeded), a format pair {2a, pack-0.92}^2, how source and target
are reached (local, or an in-process smart server: SmartTCPServer in a thread, bzr://), an
optional fallback (stacked 2a target), the revisions pre-seeded into the target, revisions the
target has and the source lacks, and the operation: Repository.fetch(revision, find_ghosts
False/True), Repository.fetch() of everything, Branch.pull, Branch.push, or ControlDir.sprout into
a new location -- followed by the same fetch again.

The model (coq/Model/RepoFetch.v) predicts, per step: outcome, number of revisions copied, and
exactly which revision / inventory / text keys the target holds afterwards.  The oracle checks the
property itself: every required ancestor present, testaments (plain and strict3) and per-file
parents, text contents and signatures identical to the source's, every revision readable, check()
clean, nothing lost, no record stored twice, the second fetch copies nothing and leaves pack-names
unchanged, failing calls leave the repository unchanged.
"""
from props import _c03_common as C
import daglib
from vlib import Tag, Err

PROP = "C03"
COQ = {
    "property_file": "Properties/C03.v",
    "imports": "From BV Require Import Lib.Dag Model.RepoFetch.",
}
META = {
    "level": "proof",
    "title": "Fetch, push and pull copy history completely and faithfully",
    "technique": ("Coq theorems over a hand model (set algebra on Lib/Dag) of InterVersionedFileRepository."
                  "search_missing_revision_ids/_walk_to_common_revisions, RepoFetcher, the stream sources' text "
                  "selection and StreamSink's parent-inventory refill + correspondence on real repositories"),
    "level_text": ("partial (P-spec with a proved set-algebra core).  THEOREMS (every history, ghosts and merges, any target "
                   "content, all three searches -- find_ghosts, local walk, recipe replay by a smart source -- and sparse sources whose "
                   "inventories name texts after revisions they lack): which revisions each search requests; every search is an "
                   "admissible walk; after a successful fetch every ancestor the "
                   "source has is visible and the target is closed again; nothing is lost and a failing fetch changes "
                   "nothing; a second fetch requests and changes nothing; every copied revision arrives with its "
                   "inventory and all texts it references -- also for find_ghosts=False into a target with a fillable ghost "
                   "(former finding C03-walk-unfilled-ghost, repaired by /repo be5f5d4; the old search is kept only as the "
                   "regression statement C03_old_walk_unclosed_refuted), and for any batching of the walk (walk_ok). "
                   "CORRESPONDENCE ONLY (not theorems): that the model's record sets are the real ones (compared key by "
                   "key on every run), byte identity of the records = equal testaments and per-file parents, a clean "
                   "check(), unchanged pack-names; the stream wire format, CHK page filtering and serializer conversion "
                   "are exercised, not modelled."),
    "level_note": ("Trusted: Coq kernel, vm_compute, the hand model's correspondence (bounded sampling), the inventories "
                   "read back from the real source as the model's description of the history, vcsgraph's breadth-first "
                   "searcher as summarised by missing_walk (exact for searches exhausted in one batch of 50 or closed "
                   "targets; larger unclosed cases are not generated, for them only the walk_ok theorems apply)."),
    "design_ref": "DESIGN.md §5 C03",
    "trusted_base": ["hand model coq/Model/RepoFetch.v of breezy/bzr/vf_repository.py, fetch.py, groupcompress_repo.py, knitpack_repo.py",
                     "coq/Lib/Dag.v as a model of the revision graph",
                     "correspondence harness harness/props/c03.py, _c03_common.py, harness/daglib.py"],
    "assumptions": ["a revision id determines the revision (parents, tree): source and target never hold different revisions under one id",
                    "the per-revision inventories (file id, last-changed revision) given to the model are the source's (read back from the real repository; wf_univ is evaluated on them in every case)",
                    "vcsgraph _BreadthFirstSearcher (next_with_ghosts, find_seen_ancestors, stop_searching_any, get_state) behaves as summarised by missing_walk when the search is exhausted in the first batch or the target is closed (compared on every run)",
                    "a smart-server source replays the find_ghosts=False search recipe from the tip (missing_replay), a local source uses the client-side key set (compared on every run)",
                    "formats 2a and pack-0.92; local transport and the in-process smart server"],
    "rule": "a case whose first step copies at least one revision is non-trivial; distinct = distinct (input, observation)",
}
SHARD = 60

FMT_PAIRS = [("2a", "2a")] * 4 + [("pack-0.92", "pack-0.92")] * 2 + [("pack-0.92", "2a")] * 2 + [("2a", "pack-0.92")]
VIAS = [("local", "local")] * 3 + [("smart", "local"), ("local", "smart")]


def setup(scratch):
    C.setup(scratch)


def teardown():
    C.teardown()


# the witness of the former finding (Theory/RepoFetch.v wit_U): r1 is committed to the source after the target got r0, r2
WIT = {"g": [[], [], [0, 1], [2], [1], [3, 4]], "ch": [[], [], [1], [3], [4], [1]], "late": [1, 4, 5]}
U_A = {"g": [[], [0], [1], [0], [2, 3], [4, 49], [48, 5], [6]],
       "ch": [[], [1], [3, 5], [4, 6], [1, 7], [5], [], [1, 3, 4]], "late": []}
# a hole: r1 reaches the source after the targets were seeded with r2 (and r0): the revisions a later fetch
# must copy ({r1} and {r3, r4}) are not connected
U_H = {"g": [[], [0], [1], [2], [3]], "ch": [[], [1], [3], [4], [1, 5]], "late": [1]}
# a sparse source (cut out of a larger history): r46 introduced the files and is a ghost of the source, r47
# (child of r1) too; r0 and r2 still reference texts named after them, and the source holds those texts
U_S = {"g": [[46], [0], [1, 47], [2]], "ch": [[1], [3], [4], [1]], "late": [],
       "gdef": {"46": {"ps": [], "ch": []}, "47": {"ps": [1], "ch": [1, 3, 6]}}}
# witness of the former finding C03-smart-missing-text-keys (fixed by /repo e1faee4): the text (l-id, r4) is a knit
# delta against (l-id, r2), and r2 is not an ancestor of r4 in the sparse source: the sink must ask the (smart)
# source for the text key ('texts', l-id, r2)
U_K = {"g": [[], [45], [47, 46], [48], [49, 0]], "ch": [[3], [7], [1], [3, 7], [3, 5, 7]], "late": [],
       "gdef": {"45": {"ps": [0], "ch": [1, 3, 6]}, "46": {"ps": [], "ch": [1]}, "48": {"ps": [0], "ch": [3, 4]},
                "49": {"ps": [2], "ch": [1, 3, 6]}}}
# forks: several children of a revision the target already holds are fetched together (rich-root upgrade:
# each synthesised root text must keep that outside parent in its per-file graph)
U_Y = {"g": [[], [0], [1], [1], [1], [2, 3], [4]], "ch": [[], [1], [3], [4], [1, 6], [7], [3]], "late": []}
U_B = {"g": [[], [0], [0], [1, 2], [2, 1], [3, 4], [4, 3, 50]], "ch": [[], [1], [3], [4], [6], [1, 5], [7]], "late": []}


def _case(u, sf="2a", tf="2a", sv="local", tv="local", fb=None, seed=(), extra=(), r=None, fg=False, entry="fetch"):
    r = len(u["g"]) - 1 if r is None else r
    return {"u": u, "src_fmt": sf, "tgt_fmt": tf, "src_via": sv, "tgt_via": tv, "fb": list(fb) if fb else None,
            "seed": list(seed), "extra": list(extra), "ops": [["fetch", r, fg, entry], ["fetch", r, fg, entry]]}


def corpus():
    # regression inputs of the former finding C03-walk-unfilled-ghost (fixed by /repo be5f5d4): must pass
    out = [_case(WIT, seed=[2], fg=False),
           _case(WIT, seed=[2], fg=True),
           _case(WIT, sf="pack-0.92", tf="pack-0.92", seed=[2], fg=False),
           _case(WIT, seed=[2], fg=False, entry="pull")]
    for sf, tf in (("2a", "2a"), ("pack-0.92", "pack-0.92"), ("pack-0.92", "2a"), ("2a", "pack-0.92")):
        for sv, tv in (("local", "local"), ("smart", "local"), ("local", "smart")):
            out.append(_case(U_A, sf, tf, sv, tv, seed=[2], extra=[48]))
    out.append(_case(U_A, fb=[2], r=4, entry="push"))
    out.append(_case(U_A, fb=[2], r=7, fg=True, tv="smart"))
    out.append(_case(U_A, seed=[3], r=49))                 # a ghost of the source: NoSuchRevision
    out.append(_case(U_A, seed=[3], r=48, extra=[48]))     # ... that the target has: nothing to do
    out.append(_case(U_A, seed=[3], r=48, extra=[48], fg=True))
    out.append(_case(U_A, "2a", "pack-0.92", seed=[7]))    # nothing missing: no incompatibility error
    out.append(_case(U_B, seed=[1], r=6, entry="pull"))
    for sf, tf in (("2a", "2a"), ("pack-0.92", "pack-0.92"), ("pack-0.92", "2a")):
        for sv, tv in (("smart", "local"), ("local", "smart"), ("local", "local")):
            out.append(_case(U_H, sf, tf, sv, tv, seed=[2, 0], r=4, fg=True))      # disconnected search result
    out.append(_case(U_H, sv="smart", seed=[2], r=4, fg=True))
    out.append(_case(U_H, sv="smart", seed=[2, 0], r=3, fg=False))
    out.append(_case(U_H, sv="smart", seed=[2, 0], r=0, entry="all"))
    out.append(_case(U_H, sv="smart", tv="smart", seed=[3], r=0, entry="all"))
    for sf, tf in (("pack-0.92", "pack-0.92"), ("2a", "2a"), ("pack-0.92", "2a")):
        out.append(_case(U_S, sf, tf, r=3))                                   # texts named after a ghost of the source
        out.append(_case(U_S, sf, tf, "smart", "local", seed=[1], r=3, fg=True))
        out.append(_case(U_S, sf, tf, seed=[0], r=2, extra=[46], entry="pull"))
    out.append(_case(U_S, fb=[0], r=3, tv="smart"))
    out.append(_case(U_K, "pack-0.92", "pack-0.92", "smart", "local", seed=[1], r=4))      # regression: must pass
    out.append(_case(U_K, "pack-0.92", "pack-0.92", "smart", "smart", seed=[0], r=4, fg=True))
    out.append(_case(U_K, "pack-0.92", "pack-0.92", "local", "local", seed=[1], r=4))
    for sv, tv in (("local", "local"), ("smart", "local"), ("local", "smart")):
        out.append(_case(U_Y, "pack-0.92", "2a", sv, tv, seed=[1], r=5))             # two children of r1, merged
        out.append(_case(U_Y, "pack-0.92", "2a", sv, tv, seed=[1], r=0, entry="all"))  # three children of r1
    out.append(_case(U_Y, "pack-0.92", "2a", fb=[1], r=5))
    out.append(_case(U_Y, "2a", "2a", seed=[1], r=0, entry="all"))
    out.append(_case(U_B, seed=[1], r=0, entry="all"))
    out.append(_case(U_A, fb=[2], r=0, entry="all", fg=True))
    out.append(_case(U_A, "pack-0.92", "2a", seed=[3], r=0, entry="all"))
    for sf, tv in (("2a", "local"), ("pack-0.92", "smart")):
        c = _case(U_B, sf, sf, "local", tv, r=5, entry="sprout")
        c["ops"][1][3] = "fetch"
        out.append(c)
    return out


def _big_universe(n, heavy):
    """a mainline with short side branches merged back: more than 50 / 100 revisions"""
    g, ch = [], []
    for i in range(n):
        if i == 0:
            ps = []
        elif i % 7 == 3 and i >= 3:
            ps = [i - 3]                      # side branch
        elif i % 7 == 5 and i >= 5:
            ps = [i - 1, i - 2]               # merge it back
        elif i % 7 == 4:
            ps = [i - 2]
        else:
            ps = [i - 1]
        g.append(ps)
        ch.append([9] if heavy and i == n - 2 else [1])
    return {"g": g, "ch": ch, "late": [], "big": True}


def _long_walk_universe(k):
    """r0; M = r1 = [r0]; H = r2 = [M]; a chain of k revisions on H; tip = [chain end, M].  M reaches the source
    late: a target seeded with H holds H but not M.  The walk (batch size 50) meets M (missing) in its first
    batch and H (present, an ancestor... descendant of M) only k revisions later."""
    g = [[], [0], [1]] + [[i] for i in range(2, 2 + k)]
    g.append([len(g) - 1, 1])
    return {"g": g, "ch": [[1] for _ in g], "late": [1], "big": True}


def _random_case(rng, u, pairs=FMT_PAIRS):
    g = u["g"]
    n = len(g)
    sf, tf = rng.choice(pairs)
    sv, tv = rng.choice(VIAS)
    p1g, late = C.phase1_graph(u)
    early = [i for i in range(n) if i not in late]
    ghosts = sorted({p for ps in g for p in ps if p >= n})
    fb = None
    seed = []
    if tf == "2a" and rng.random() < 0.3:
        fb = [rng.choice(early)]
        if rng.random() < 0.3:
            fb.append(rng.choice(early))
    elif rng.random() < 0.85:
        seed = sorted(set(rng.choice(early) for _ in range(rng.choice([1, 1, 2]))))
    gdef = u.get("gdef") or {}
    if gdef:
        ghosts_x = [int(k) for k, v in gdef.items() if not v["ps"]]
    else:
        ghosts_x = ghosts
    extra = [rng.choice(ghosts_x)] if ghosts_x and rng.random() < 0.25 else []
    x = rng.random()
    if x < 0.06 and ghosts:
        r = rng.choice(ghosts)
    elif x < 0.5:
        r = n - 1
    else:
        r = rng.randrange(n)
    fg = rng.random() < 0.4
    if late and rng.random() < 0.35:
        # unclosed target: the search result may be disconnected; the smart source replays the search recipe
        fg, sv, tv = True, "smart", rng.choice(["local", "local", "smart"])
    entry = "fetch"
    if r < n and not late and daglib.lefthand_present(g, r) and not (sf == "2a" and tf != "2a") and rng.random() < 0.4:
        entry = rng.choice(["pull", "push"])
        fg = False
    x = rng.random()
    if x < 0.08:
        entry = "all"
    elif x < 0.16 and sf == tf and r < n and daglib.lefthand_present(g, r) and not late:
        c = _case(u, sf, tf, sv, tv, None, [], [], r, fg, "sprout")
        c["ops"][1][3] = "fetch"
        return c
    return _case(u, sf, tf, sv, tv, fb, seed, extra, r, fg, entry)


def cases(rng, tier):
    nuniv, per, maxn = (6, 8, 9) if tier == "quick" else (40, 14, 14)
    for k in range(nuniv):
        if k % 3 == 2:
            u = C.gen_sparse_universe(rng, rng.randint(3, maxn))
        else:
            u = C.gen_universe(rng, rng.randint(3, maxn), p_late=0.35, p_ghost=0.12)
        pairs = FMT_PAIRS if k % 2 == 0 else [("2a", "2a")] * 3 + [("pack-0.92", "2a"), ("2a", "pack-0.92")]
        for _ in range(per):
            yield _random_case(rng, u, pairs)
    # forks fetched across the rich-root upgrade (and same-format for contrast): the target holds the fork point
    for _ in range(4 if tier == "quick" else 40):
        nf = rng.randint(2, 4)
        base = rng.randint(1, 3)
        g = [[]] + [[i] for i in range(base - 1)]
        fork = base - 1
        kids = []
        for _k in range(nf):
            g.append([fork])
            kids.append(len(g) - 1)
            if rng.random() < 0.4:
                g.append([len(g) - 1])
                kids[-1] = len(g) - 1
        if rng.random() < 0.5:
            g.append(kids[:2])
        u = {"g": g, "ch": [sorted(rng.sample(C.KINDS, rng.choice([0, 1, 2]))) for _i in g], "late": []}
        sf, tf = rng.choice([("pack-0.92", "2a")] * 3 + [("2a", "2a"), ("pack-0.92", "pack-0.92")])
        sv, tv = rng.choice(VIAS)
        entry = rng.choice(["all", "all", "fetch"])
        yield _case(u, sf, tf, sv, tv, seed=[fork], r=len(g) - 1, fg=rng.random() < 0.5, entry=entry)
    # size thresholds: _walk_to_common_revisions_batch_size = 50, Inter1and2Helper.known_graph_threshold = 100,
    # iter_rev_trees batches of 100, the 1 MiB pack write cache
    bigs = [(_big_universe(104, True), "2a", "2a"), (_big_universe(104, False), "pack-0.92", "2a")]
    if tier != "quick":
        bigs += [(_big_universe(53, False), "pack-0.92", "pack-0.92"), (_big_universe(127, True), "2a", "2a")]
    # the find_ghosts=False walk over more than one batch with a ghost to fill (exact here: the ghost is reached
    # directly from the tip, so every batching requests the same set)
    for k, sf, tf, sv in ((56, "2a", "2a", "local"), (49, "2a", "2a", "smart"), (70, "pack-0.92", "2a", "local")):
        if tier == "quick" and k == 70:
            continue
        u = _long_walk_universe(k)
        yield _case(u, sf, tf, sv, "local", seed=[2], r=len(u["g"]) - 1, fg=False)
    for u, sf, tf in bigs:
        n = len(u["g"])
        size = {cut: n - len(C.anc_present(u["g"], set(), [cut])) for cut in range(n - 1)}
        for want in (49, 50, 51, 99, 100, 101):            # revisions to copy: just below, at, above the thresholds
            cuts = [cut for cut, m in size.items() if m == want]
            if not cuts:
                continue
            fg = rng.random() < 0.5
            yield _case(u, sf, tf, rng.choice(["local", "local", "smart"]), "local", seed=[cuts[0]], r=n - 1, fg=fg)
        yield _case(u, sf, tf, seed=[], r=n - 1, fg=False, tv="smart")
        if tf == "2a":
            yield _case(u, sf, tf, fb=[n - 60], r=n - 1, fg=False)


def impl(case):
    return C.run_case(case)


def impl_obs(case, obs):
    if not isinstance(obs, dict):          # driver error
        return obs
    return C.model_obs(case, obs)


def model_term(case):
    return C.model_term(case)


# ---- the property itself ----------------------------------------------------------------------------------

def _unclosed_walk(case, obs):
    """first-step fetch with find_ghosts=False into a target that holds a ghost the source can fill
    (the class of the former finding C03-walk-unfilled-ghost, repaired by /repo be5f5d4)"""
    g = case["u"]["g"]
    _, late = C.phase1_graph(case["u"])
    zf = C.anc_present(g, late, case.get("fb") or [])
    op = case["ops"][0]
    vis = set(obs["model"]["pre"][0]) | zf
    return op[0] == "fetch" and op[3] != "all" and not op[2] and not C.closed(g, vis)


def oracle(case, obs):
    if not isinstance(obs, dict):          # driver error: reported by the framework
        return None
    g = case["u"]["g"]
    n = len(g)
    _, late = C.phase1_graph(case["u"])
    zf = C.anc_present(g, late, case.get("fb") or [])
    m, orc = obs["model"], obs["oracle"]
    if not m["wf"]:
        return "universe not well formed"
    state = m["pre"]
    bad = []
    for k, (op, st, so) in enumerate(zip(case["ops"], m["steps"], orc["steps"])):
        out, copied, after = st
        vis_before = set(state[0]) | zf
        vis_after = set(after[0]) | zf
        if so["lost"]:
            bad.append("step %d: records lost %r" % (k, so["lost"]))
        if so["upload"]:
            bad.append("step %d: leftovers in upload/" % k)
        if out == "ok":
            r, fg = op[1], op[2]
            if op[3] == "all":
                required = set(range(n))
            else:
                required = C.anc_present(g, set(), [r]) if fg else C.reach_avoiding(g, vis_before, r)
            miss = sorted(required - vis_after)
            if miss:
                bad.append("step %d: missing_required %r" % (k, miss))
            if copied == 0 and so["names_changed"]:
                bad.append("step %d: pack-names changed though nothing was copied" % k)
        else:
            if after != state or so["names_changed"]:
                bad.append("step %d: failed call changed the repository" % k)
        if so["testament_bad"]:
            bad.append("step %d: testament_bad %r" % (k, so["testament_bad"]))
        if so["textparents_bad"]:
            bad.append("step %d: textparents_bad %r" % (k, so["textparents_bad"][:3]))
        if so["text_bad"]:
            bad.append("step %d: text_bad %r" % (k, so["text_bad"][:3]))
        if so["sig_bad"]:
            bad.append("step %d: sig_bad %r" % (k, so["sig_bad"][:5]))
        if so["dup"]:
            bad.append("step %d: records stored twice %r" % (k, so["dup"]))
        if so["unreadable"]:
            bad.append("step %d: unreadable %r" % (k, so["unreadable"][:4]))
        if so["check"]:
            bad.append("step %d: check: %s" % (k, ", ".join(so["check"][:3])))
        state = after
    if len(m["steps"]) == 2 and m["steps"][0][0] == "ok" and (m["steps"][1][0] != "ok" or m["steps"][1][1] != 0):
        bad.append("second fetch copied something")
    return "; ".join(bad) if bad else None


def finding_matches(fid, case, obs, why):
    # C03-walk-unfilled-ghost is fixed (/repo be5f5d4): no known finding is excused any more
    return False


def nontrivial(case, obs):
    if not isinstance(obs, dict):
        return False
    st = obs["model"]["steps"]
    return bool(st) and st[0][0] == "ok" and st[0][1] > 0


def distribution(inputs, observations):
    d = {}

    def inc(k):
        d[k] = d.get(k, 0) + 1
    for c, o in zip(inputs, observations):
        inc("fmt %s->%s" % (c["src_fmt"], c["tgt_fmt"]))
        inc("via %s->%s" % (c["src_via"], c["tgt_via"]))
        inc("stacked" if c.get("fb") else "unstacked")
        inc("entry %s" % c["ops"][0][3])
        inc("find_ghosts %s" % c["ops"][0][2])
        inc("late revisions" if c["u"]["late"] else "no late revisions")
        if c.get("extra"):
            inc("target has revisions the source lacks")
        if isinstance(o, dict):
            st = o["model"]["steps"][0]
            inc("outcome %s" % st[0])
            k = st[1]
            inc("copied " + ("0" if k == 0 else "1-5" if k <= 5 else "6-49" if k < 50 else "50-99" if k < 100 else "100+"))
            if _unclosed_walk(c, o):
                inc("find_ghosts=False into a target with a fillable ghost")
    return d
