"""C07 -- Autopack planning is well-formed for every pack size distribution (tie H).

Anchors: breezy/bzr/pack_repo.py RepositoryPackCollection._max_pack_count, pack_distribution,
plan_autopack_combinations, _do_autopack.  Model: coq/Model/AutoPack.v.

Input kinds
  direct : _max_pack_count(total), pack_distribution(total), plan_autopack_combinations(packs, dist)
           called directly (total is free: = / > / < the sum of the pack counts)
  raw    : plan_autopack_combinations(packs, dist) with an arbitrary distribution list (tie only)
  auto   : the real _do_autopack run on a collection object whose packs are fakes (get_revision_count,
           ordering) and whose _execute_pack_operations records the plan
  seq    : several direct (or auto) steps on ONE collection object (a real repository's
           RepositoryPackCollection for direct steps) with no pack added/removed in between --
           the answers must not depend on earlier calls; biased to repeat the same total
  repo   : a real 2a repository on a memory transport receiving batches of revisions (fetch = one
           new pack per batch, autopack runs inside commit_write_group); after every batch the pack
           revision counts and key_count() are compared with the model's simulation
"""
import types

from vlib import Tag, Err, coq_N

PROP = "C07"
COQ = {
    "property_file": "Properties/C07.v",
    "imports": "From BV Require Import Model.AutoPack.",
}
META = {
    "level": "proof",
    "title": "Autopack planning is well-formed for every pack size distribution",
    "technique": ("Coq theorems (induction over the sorted pack list with a two-part invariant on the distribution list) "
                  "over a line-by-line hand model of the planner + exhaustive/random correspondence (vm_compute) "
                  "against the real functions, the real _do_autopack and real repositories"),
    "level_text": ("For every list of packs with positive revision counts and every total >= the sum of the counts "
                   "(in _do_autopack total = sum): planning raises no IndexError/AssertionError, plans nothing exactly "
                   "when the pack count is within the digit sum of the total, otherwise one combination of >= 2 of the "
                   "given packs whose count is their sum, after which at most digit-sum(total) packs remain. Proved in "
                   "Coq for the hand model (also for an arbitrary distribution list); decimal digits, the distribution "
                   "sum and length are proved too. The statement for ALL totals is refuted (total < sum: IndexError) "
                   "by a machine-checked witness that replays on the real function."),
    "level_note": ("Trusted: Coq kernel, vm_compute, the hand model's correspondence (bounded: all multisets with sum <= 18/26 "
                   "plus random ones up to 10^6), Python int/str/list semantics as exercised, bzrformats "
                   "CombinedGraphIndex.key_count = sum of per-pack counts (checked on real repositories in the run)."),
    "design_ref": "DESIGN.md §5 C07",
    "trusted_base": ["hand model coq/Model/AutoPack.v of breezy/bzr/pack_repo.py (4 functions)",
                     "correspondence harness harness/props/c07.py"],
    "assumptions": ["CombinedGraphIndex.key_count() (bzrformats) is the sum of the per-pack revision counts",
                    "Pack objects with equal revision counts are totally ordered by their __lt__ (bzrformats, Rust)",
                    "Python str(int) is the decimal representation"],
    "rule": ("all multisets of positive counts with sum <= bound (total = sum), small multisets x all nearby totals, random "
             "multisets of structured sizes up to 10^6, the real _do_autopack on fake packs, real repositories; "
             "non-trivial = more packs than the digit sum of the total (the planner actually plans)"),
}
SHARD = 500
FINDING = "C07-total-below-sum"


# --------------------------------------------------------------------------
# generators
# --------------------------------------------------------------------------

def _partitions(n, maxpart=None):
    if maxpart is None or maxpart > n:
        maxpart = n
    if n == 0:
        yield []
        return
    for k in range(maxpart, 0, -1):
        for rest in _partitions(n - k, k):
            yield [k] + rest


def _with_ids(counts, rng):
    ids = list(range(len(counts)))
    rng.shuffle(ids)
    packs = [[c, i] for c, i in zip(counts, ids)]
    rng.shuffle(packs)
    return packs


def _random_counts(rng, maxn):
    style = rng.random()
    n = rng.randint(2, maxn)
    if style < 0.3:      # near powers of ten, many duplicates
        pool = [1, 1, 1, 2, 9, 10, 10, 11, 99, 100, 100, 101, 999, 1000, 10000, 100000]
        return [rng.choice(pool) for _ in range(n)]
    if style < 0.55:     # what autopack itself produces: powers of ten plus a tail of ones
        out = []
        for e in range(rng.randint(0, 5), -1, -1):
            out += [10 ** e] * rng.randint(0, 4)
        out += [1] * rng.randint(0, 12)
        return (out or [1, 1])[:maxn]
    if style < 0.8:      # small arbitrary
        return [rng.randint(1, 30) for _ in range(n)]
    hi = 10 ** rng.randint(1, 6)
    return [rng.randint(1, hi) for _ in range(n)]


def _resplit(counts, rng):
    """Another multiset of positive counts with the same sum."""
    out = list(counts)
    for _ in range(rng.randint(1, 4)):
        if len(out) >= 2 and rng.random() < 0.5:
            a = out.pop(rng.randrange(len(out)))
            out[rng.randrange(len(out))] += a
        else:
            j = rng.randrange(len(out))
            if out[j] >= 2 and len(out) < 30:
                a = rng.randint(1, out[j] - 1)
                out[j] -= a
                out.append(a)
    return out


def corpus():
    out = [
        {"kind": "direct", "total": 1, "packs": [[1, 0], [1, 1]]},            # F-C07 witness: IndexError
        {"kind": "direct", "total": 10, "packs": [[20, 0], [5, 1]]},          # total < sum, IndexError inside the inner loop
        {"kind": "direct", "total": 2, "packs": [[1, 0], [1, 1], [1, 2]]},
        {"kind": "direct", "total": 20, "packs": [[10, 0]] + [[1, i] for i in range(1, 11)]},
        {"kind": "direct", "total": 11, "packs": [[10, 0], [1, 1]]},
        {"kind": "direct", "total": 30, "packs": [[15, 0], [3, 1], [3, 2], [3, 3], [3, 4], [3, 5]]},
        {"kind": "direct", "total": 0, "packs": []},
        {"kind": "direct", "total": 1000, "packs": [[1, 1], [1, 0]]},         # total > sum
        {"kind": "raw", "dist": [10, 10, 10], "packs": [[15, 0], [3, 1], [3, 2], [2, 3], [2, 4]]},
        {"kind": "auto", "total": None, "packs": [[0, 0], [0, 1], [0, 2], [1, 3]]},
        {"kind": "auto", "total": None, "packs": [[1, i] for i in range(10)]},
        {"kind": "auto", "total": None, "packs": [[1, i] for i in range(9)]},
        # the same total asked twice on one collection object (plan consumes its distribution list in place)
        {"kind": "seq", "mode": "direct", "steps": [
            {"total": 20, "packs": [[10, 0]] + [[1, i] for i in range(1, 11)]},
            {"total": 20, "packs": [[10, 0]] + [[1, i] for i in range(1, 11)]}]},
        {"kind": "seq", "mode": "direct", "steps": [
            {"total": 12, "packs": [[3, 0], [3, 1], [3, 2], [3, 3]]},
            {"total": 12, "packs": [[10, 0], [1, 1], [1, 2]]},
            {"total": 12, "packs": [[6, 0], [2, 1], [2, 2], [1, 3], [1, 4]]}]},
        {"kind": "seq", "mode": "auto", "steps": [
            {"total": None, "packs": [[1, i] for i in range(10)]},
            {"total": None, "packs": [[1, i] for i in range(10)]}]},
    ]
    return out


def cases(rng, tier):
    quick = tier == "quick"
    # 1. exhaustive: every multiset of positive counts with sum n, total = n
    for n in range(1, (18 if quick else 26) + 1):
        for p in _partitions(n):
            yield {"kind": "direct", "total": n, "packs": _with_ids(p, rng)}
    # 2. small multisets x every total in 0 .. n+3 and a few large ones
    for n in range(1, (8 if quick else 11) + 1):
        for p in _partitions(n):
            for total in list(range(0, n + 4)) + [10 * n, 10 * n + 1, 100]:
                if total != n:
                    yield {"kind": "direct", "total": total, "packs": _with_ids(p, rng)}
    # 3. random structured multisets, totals around the sum
    for _ in range(500 if quick else 5000):
        counts = _random_counts(rng, 30 if quick else 40)
        s = sum(counts)
        r = rng.random()
        if r < 0.7:
            total = s
        elif r < 0.85:
            total = s + rng.choice([1, 9, 10, s, rng.randint(1, s)])
        else:
            total = max(0, s - rng.choice([1, 1, 2, 10, rng.randint(1, s)]))
        yield {"kind": "direct", "total": total, "packs": _with_ids(counts, rng)}
    # 4. the planner on arbitrary distribution lists, zero counts allowed
    for _ in range(300 if quick else 2000):
        counts = [rng.randint(0, 25) for _ in range(rng.randint(0, 10))]
        dist = [rng.choice([0, 1, 1, 2, 3, 5, 10, 10, 20, 100]) for _ in range(rng.randint(0, 8))]
        yield {"kind": "raw", "dist": dist, "packs": _with_ids(counts, rng)}
    # 5. the real _do_autopack on fake packs
    for n in range(1, (8 if quick else 12) + 1):
        for p in _partitions(n):
            yield {"kind": "auto", "total": None, "packs": _with_ids(p, rng)}
    for _ in range(400 if quick else 3000):
        counts = _random_counts(rng, 25)
        if rng.random() < 0.3:
            counts += [0] * rng.randint(1, 4)
        total = None
        if rng.random() < 0.15:
            total = sum(counts) + rng.choice([1, 5, 10, 1000])
        yield {"kind": "auto", "total": total, "packs": _with_ids(counts, rng)}
    # 6. sequences of calls on one collection object; mostly the same total again (same or another multiset)
    for k in range(220 if quick else 2500):
        mode = "auto" if k % 4 == 3 else "direct"
        steps = []
        counts = _random_counts(rng, 14) if rng.random() < 0.5 else rng.choice(list(_partitions(rng.randint(3, 16))))
        for _ in range(rng.randint(2, 4)):
            r = rng.random()
            if r < 0.45 or not steps:
                pass                                     # the same multiset again
            elif r < 0.8:                                # another multiset with the same total
                counts = _resplit(counts, rng)
            else:
                counts = _random_counts(rng, 14)         # a different total
            steps.append({"total": sum(counts) if mode == "direct" else None, "packs": _with_ids(list(counts), rng)})
        yield {"kind": "seq", "mode": mode, "steps": steps}
    # 7. real repositories
    yield {"kind": "repo", "batches": [1] * (32 if quick else 112)}
    for _ in range(3 if quick else 12):
        k = rng.randint(8, 20 if quick else 40)
        yield {"kind": "repo", "batches": [rng.choice([1, 1, 1, 2, 3, 5, 9, 10, 11]) for _ in range(k)]}


# --------------------------------------------------------------------------
# implementation driver
# --------------------------------------------------------------------------

_cls = {}


def _classes():
    if _cls:
        return _cls
    import breezy
    import breezy.bzr  # noqa
    from breezy.bzr.pack_repo import RepositoryPackCollection

    class FakePack:
        def __init__(self, count, pid):
            self.count, self.pid, self.name = count, pid, "p%06d" % pid

        def get_revision_count(self):
            return self.count

        def __lt__(self, other):
            return self.pid < other.pid

        def __gt__(self, other):
            return self.pid > other.pid

    class Recording(RepositoryPackCollection):
        def __init__(self, packs, total):
            self.normal_packer_class = None
            self.recorded = None
            self.set_state(packs, total)

        def set_state(self, packs, total):
            self._fake = [FakePack(c, i) for c, i in packs]
            self._names = {p.name: None for p in self._fake}
            self.revision_index = types.SimpleNamespace(
                combined_index=types.SimpleNamespace(key_count=lambda: total))
            self.normal_packer_class = None
            self.recorded = None

        def __repr__(self):
            return "Recording()"

        def all_packs(self):
            return list(self._fake)

        def _execute_pack_operations(self, pack_operations, packer_class, reload_func=None):
            self.recorded = [[n, [p.pid for p in packs]] for n, packs in pack_operations]
            return ["executed"]

    _cls.update(coll=RepositoryPackCollection, rec=Recording)
    return _cls


def _guard(f):
    try:
        return f()
    except IndexError:
        return Err("IndexError")
    except AssertionError:
        return Err("AssertionError")


def _impl_repo(batches):
    import breezy.transport
    from breezy import controldir
    from breezy.branchbuilder import BranchBuilder
    from dromedary.memory import MemoryServer
    srv = MemoryServer()
    srv.start_server()
    try:
        base = breezy.transport.get_transport(srv.get_url())
        base.mkdir("src")
        base.mkdir("tgt")
        src = BranchBuilder(base.clone("src"), format="2a")
        total = sum(batches)
        src.start_series()
        for i in range(1, total + 1):
            src.build_snapshot(None, [("add", ("", b"root-id", "directory", ""))] if i == 1 else [],
                               revision_id=b"r%d" % i)
        src.finish_series()
        srepo = src.get_branch().repository
        fmt = controldir.format_registry.make_controldir("2a")
        tgt = fmt.initialize_on_transport(base.clone("tgt")).create_repository()
        out = []
        done = 0
        for b in batches:
            done += b
            tgt.fetch(srepo, revision_id=b"r%d" % done)    # one new pack, then autopack
            with tgt.lock_read():
                pc = tgt._pack_collection
                pc.ensure_loaded()
                counts = sorted((p.get_revision_count() for p in pc.all_packs()), reverse=True)
                out.append([counts, pc.revision_index.combined_index.key_count()])
        return out
    finally:
        srv.stop_server()


def _real_collection():
    """The RepositoryPackCollection of a fresh, empty, real 2a repository."""
    import breezy.transport
    from breezy import controldir
    from dromedary.memory import MemoryServer
    srv = MemoryServer()
    srv.start_server()
    try:
        fmt = controldir.format_registry.make_controldir("2a")
        repo = fmt.initialize_on_transport(breezy.transport.get_transport(srv.get_url())).create_repository()
        return repo._pack_collection
    finally:
        srv.stop_server()


def _direct_on(c, total, packs):
    mpc = c._max_pack_count(total)
    dist = c.pack_distribution(total)
    d0 = list(dist)
    res = _guard(lambda: [[n, list(l)] for n, l in c.plan_autopack_combinations(list(packs), dist)])
    return [mpc, d0, res, list(dist)]


def _auto_on(rec):
    def run():
        rec.recorded = None
        r = rec._do_autopack()
        if rec.recorded is None:
            if r is not None:
                raise RuntimeError("returned %r without executing" % (r,))
            return Tag("noop")
        return rec.recorded
    return _guard(run)


def _impl_seq(inp, k):
    out = []
    if inp["mode"] == "direct":
        c = _real_collection()
        for st in inp["steps"]:
            out.append(_direct_on(c, st["total"], [(int(a), int(b)) for a, b in st["packs"]]))
        return out
    rec = None
    for st in inp["steps"]:
        packs = [(int(a), int(b)) for a, b in st["packs"]]
        total = sum(a for a, _ in packs)
        if rec is None:
            rec = k["rec"](packs, total)
        else:                       # the same object sees another state; nothing is added to / removed from memory
            rec.set_state(packs, total)
        out.append(_auto_on(rec))
    return out


def impl(inp):
    k = _classes()
    if inp["kind"] == "seq":
        return _impl_seq(inp, k)
    packs = [(int(c), int(i)) for c, i in inp.get("packs", [])]
    if inp["kind"] == "direct":
        c = object.__new__(k["coll"])
        total = inp["total"]
        mpc = c._max_pack_count(total)
        dist = c.pack_distribution(total)
        d0 = list(dist)
        res = _guard(lambda: [[n, list(l)] for n, l in c.plan_autopack_combinations(list(packs), dist)])
        return [mpc, d0, res, list(dist)]
    if inp["kind"] == "raw":
        c = object.__new__(k["coll"])
        dist = list(inp["dist"])
        res = _guard(lambda: [[n, list(l)] for n, l in c.plan_autopack_combinations(list(packs), dist)])
        return [res, list(dist)]
    if inp["kind"] == "auto":
        total = inp["total"] if inp["total"] is not None else sum(c for c, _ in packs)
        rec = k["rec"](packs, total)

        def run():
            r = rec._do_autopack()
            if rec.recorded is None:
                if r is not None:
                    raise RuntimeError("returned %r without executing" % (r,))
                return Tag("noop")
            return rec.recorded
        return _guard(run)
    if inp["kind"] == "repo":
        return _impl_repo(inp["batches"])
    raise ValueError(inp["kind"])


# --------------------------------------------------------------------------
# model term
# --------------------------------------------------------------------------

def _coq_packs(packs):
    if not packs:
        return "(@nil pack)"
    return "[" + ";".join(f"({int(c)},{int(i)})" for c, i in packs) + "]%N"


def _coq_Ns(xs):
    if any(int(x) < 0 for x in xs):
        raise ValueError("negative N")
    return "[" + ";".join(str(int(x)) for x in xs) + "]%N" if xs else "(@nil N)"


def _step_input(inp, st):
    return {"kind": inp["mode"], "total": st["total"], "packs": st["packs"]}


def model_term(inp):
    if inp["kind"] == "seq":        # the model is a function of each step's arguments only
        return "OL [" + "; ".join(model_term(_step_input(inp, st)) for st in inp["steps"]) + "]"
    if inp["kind"] == "direct":
        return f"run_case {coq_N(inp['total'])} {_coq_packs(inp['packs'])}"
    if inp["kind"] == "raw":
        return f"run_raw {_coq_Ns(inp['dist'])} {_coq_packs(inp['packs'])}"
    if inp["kind"] == "auto":
        total = inp["total"] if inp["total"] is not None else sum(c for c, _ in inp["packs"])
        return f"run_auto {coq_N(total)} {_coq_packs(inp['packs'])}"
    if inp["kind"] == "repo":
        return f"run_repo {_coq_Ns(inp['batches'])}"
    raise ValueError(inp["kind"])


# --------------------------------------------------------------------------
# the property itself, on the implementation
# --------------------------------------------------------------------------

def _digit_sum(n):
    s = 0
    while n:
        s += n % 10
        n //= 10
    return s


def _bound(total):
    """digit sum of the total; an empty repository (total 0) may have one pack."""
    return _digit_sum(total) if total else 1


def _check_plan(packs, total, res):
    """The four clauses for a plan [] | [[n, ids]] | Err of `packs` (all counts positive)."""
    if isinstance(res, Err):
        return f"planning failed with an internal error {res} (packs {sorted(c for c, _ in packs)}, total {total})"
    bound = _bound(total)
    if len(res) == 0:
        return None
    if len(res) != 1:
        return f"{len(res)} combinations planned, expected at most one"
    n, ids = res[0]
    by_id = {}
    for c, i in packs:
        by_id.setdefault(i, []).append(c)
    if len(ids) < 2:
        return f"a combination of {len(ids)} pack(s) was planned (need at least 2)"
    if len(set(ids)) != len(ids) or any(i not in by_id for i in ids):
        return f"planned packs {ids} are not distinct packs of the collection"
    if n != sum(by_id[i][0] for i in ids):
        return f"planned revision count {n} is not the sum of the combined packs"
    after = len(packs) - len(ids) + 1
    if after > bound:
        return f"{after} packs remain after the planned combination, more than digit sum {bound} of total {total}"
    if len(packs) <= bound:
        return f"a combination was planned although {len(packs)} packs are within the bound {bound}"
    return None


def oracle(inp, obs):
    if isinstance(obs, Err) and str(obs).startswith("DRIVER:"):
        return "driver error " + str(obs)
    if inp["kind"] == "seq":
        if len(obs) != len(inp["steps"]):
            return "missing observations"
        for j, (st, o) in enumerate(zip(inp["steps"], obs)):
            why = oracle(_step_input(inp, st), o)
            if why:
                return f"call {j + 1} of {len(obs)} on one collection object: {why}"
        return None
    packs = [(int(c), int(i)) for c, i in inp.get("packs", [])]
    if inp["kind"] == "direct":
        if any(c <= 0 for c, _ in packs):
            return None
        mpc, d0, res, _d1 = obs
        total = inp["total"]
        if mpc != _bound(total):
            return f"_max_pack_count({total}) = {mpc}, digit sum is {_bound(total)}"
        if sum(d0) != total or len(d0) != _bound(total):
            return f"pack_distribution({total}) = {d0}: wrong sum or length"
        return _check_plan(packs, total, res)
    if inp["kind"] == "raw":
        return None                      # outside the property's domain: correspondence only
    if inp["kind"] == "auto":
        if any(c <= 0 for c, _ in packs):
            if isinstance(obs, Err):
                return f"_do_autopack failed with {obs}"
            return None
        total = inp["total"] if inp["total"] is not None else sum(c for c, _ in packs)
        if isinstance(obs, Tag):         # returned None before planning: "plans nothing" is always well-formed
            return None
        return _check_plan(packs, total, obs)
    if inp["kind"] == "repo":
        done = 0
        for b, (counts, kc) in zip(inp["batches"], obs):
            done += b
            if kc != sum(counts):
                return f"key_count() {kc} differs from the sum of the per-pack revision counts {counts}"
            if sum(counts) != done:
                return f"{done} revisions fetched but packs hold {counts}"
            if len(counts) > _bound(kc):
                return f"after autopack {len(counts)} packs {counts} for {kc} revisions (bound {_bound(kc)})"
        if len(obs) != len(inp["batches"]):
            return "missing observations"
        return None
    return "unknown kind"


def finding_matches(fid, inp, obs, why):
    if fid == FINDING:
        # direct call with a total smaller than the sum of the counts (not reachable through _do_autopack)
        return (inp["kind"] == "direct" and all(c > 0 for c, _ in inp["packs"])
                and inp["total"] < sum(c for c, _ in inp["packs"]))
    return False


def nontrivial(inp, obs):
    if inp["kind"] == "seq":
        return any(nontrivial(_step_input(inp, st), None) for st in inp["steps"][:-1])
    if inp["kind"] == "repo":
        return True
    if inp["kind"] == "raw":
        return len(inp["packs"]) > len(inp["dist"])
    total = inp["total"] if inp.get("total") is not None else sum(c for c, _ in inp["packs"])
    return len(inp["packs"]) > _bound(total)


def distribution(inputs, observations):
    d = {"kind": {}, "total_vs_sum": {"eq": 0, "gt": 0, "lt": 0}, "outcome": {}, "npacks": {}, "with_zero_counts": 0}
    for i, o in zip(inputs, observations):
        d["kind"][i["kind"]] = d["kind"].get(i["kind"], 0) + 1
        if i["kind"] in ("repo", "seq"):
            if i["kind"] == "seq":
                tots = [sum(c for c, _ in st["packs"]) for st in i["steps"]]
                key = "seq_repeats_total" if len(set(tots)) < len(tots) else "seq_distinct_totals"
                d[key] = d.get(key, 0) + 1
            continue
        packs = i["packs"]
        if any(c == 0 for c, _ in packs):
            d["with_zero_counts"] += 1
        if i["kind"] == "direct":
            s = sum(c for c, _ in packs)
            d["total_vs_sum"]["eq" if i["total"] == s else "gt" if i["total"] > s else "lt"] += 1
            res = o[2]
        elif i["kind"] == "raw":
            res = o[0]
        else:
            res = o
        if isinstance(res, Err):
            key = str(res)
        elif isinstance(res, Tag):
            key = "trigger-noop"
        elif len(res) == 0:
            key = "plan-nothing"
        else:
            key = "combine"
        d["outcome"][key] = d["outcome"].get(key, 0) + 1
        b = str(min(len(packs) // 5 * 5, 40))
        d["npacks"][b] = d["npacks"].get(b, 0) + 1
    return d


def shrink(inp, fails):
    if inp["kind"] == "seq":
        steps = list(inp["steps"])
        changed = True
        while changed and len(steps) > 1:
            changed = False
            for j in range(len(steps)):
                cand = dict(inp, steps=steps[:j] + steps[j + 1:])
                if fails(cand):
                    steps, changed = cand["steps"], True
                    break
        return dict(inp, steps=steps)
    if inp["kind"] == "repo":
        b = list(inp["batches"])
        while len(b) > 1 and fails(dict(inp, batches=b[:-1])):
            b = b[:-1]
        return dict(inp, batches=b)
    packs = list(inp["packs"])
    changed = True
    while changed:
        changed = False
        for j in range(len(packs)):
            cand = dict(inp, packs=packs[:j] + packs[j + 1:])
            if inp["kind"] == "direct" and inp["total"] >= sum(c for c, _ in packs):
                # keep total = / >= sum relation: shrink the total with the removed count
                cand["total"] = inp["total"] - packs[j][0] if inp["total"] == sum(c for c, _ in packs) else inp["total"]
            if fails(cand):
                inp, packs, changed = cand, cand["packs"], True
                break
    return inp


def search(hints, rng):
    """Wider oracle search when the tie or a proof broke: small exhaustive domain, total = sum."""
    for n in range(1, 23):
        for p in _partitions(n):
            for kind in ("direct", "auto"):
                inp = {"kind": kind, "total": n if kind == "direct" else None, "packs": [[c, i] for i, c in enumerate(p)]}
                try:
                    o = impl(inp)
                except Exception as e:  # noqa
                    o = Err("DRIVER:" + type(e).__name__)
                why = oracle(inp, o)
                if why:
                    return inp, o, why
    for n in range(2, 15):                       # the same call repeated on one object
        for p in _partitions(n):
            for mode in ("direct", "auto"):
                st = {"total": n if mode == "direct" else None, "packs": [[c, i] for i, c in enumerate(p)]}
                inp = {"kind": "seq", "mode": mode, "steps": [st, st, st]}
                try:
                    o = impl(inp)
                except Exception as e:  # noqa
                    o = Err("DRIVER:" + type(e).__name__)
                why = oracle(inp, o)
                if why:
                    return inp, o, why
    return None
