"""C25 -- Log lists the requested history completely and consistently (tie H).

Histories are Lib/Dag lists (merges of merges, criss-cross, extra roots, ghosts as
non-left parents), materialised as real 2a branches; the same list is given to the
Coq model.  Kinds of cases:
  rbd    log.reverse_by_depth / log._rebase_merge_depth on arbitrary (id, depth) lists
         (well-formed and not), plus reverse_by_depth applied twice
  calc   log._calc_view_revisions(branch, start, end, direction, generate_merge_revisions,
         delayed_graph_generation, exclude_common_ancestry) consumed completely
  log    _DefaultLogGenerator(branch, **make_log_request_dict(...)).iter_log_revisions():
         the (revision, revno, merge_depth) sequence for (start, end) ranges, both
         directions, levels 0/1/2, limits, exclude_common_ancestry
  file   (oracle only, no model) the per-file clause: on linear histories of 12-30 revisions
         with a file that is modified and renamed (long enough to cross the batch boundaries
         9, 22 of make_log_rev_iterator) the log of that file by delta matching
         (_match_using_deltas=True) and by the per-file graph (False), both directions
"""
import daglib
import msortlib
from daglib import rid, idx
from msortlib import ref_merge_sort, good_tips
from vlib import Err, coq_bool, coq_list, coq_option

PROP = "C25"
COQ = {
    "property_file": "Properties/C25.v",
    "imports": "From BV Require Import Lib.Dag Lib.DagMergeSort Model.RevSpec Model.Log.",
}
META = {
    "level": "proof",
    "title": "Log lists the requested history completely and consistently",
    "technique": ("Coq theorems over a hand model of log.reverse_by_depth, _rebase_merge_depth, _calc_view_revisions, "
                  "_linear_view_revisions, _generate_all_revisions, _graph_view_revisions and the level/limit loop of "
                  "_DefaultLogGenerator.iter_log_revisions, on the shared revision-graph library Lib/Dag and the Gallina "
                  "merge sort Lib/DagMergeSort + correspondence on real 2a branches"),
    "level_text": ("partial (P-core): for every well-formed history (unbounded) the whole-history log lists every present "
                   "ancestor of the tip exactly once with the merge-sorted revno and depth; reverse_by_depth is a "
                   "permutation on ALL lists and an involution on depth-well-formed lists, and the forward log is the "
                   "reverse-by-depth of the reverse log; level 1 lists exactly the left-hand history; a mainline range "
                   "lists exactly the left-hand segment it denotes on the linear path, which agrees with the depth-0 part "
                   "of the merge-sorted path entry by entry; no request lets the internal _StartNotLinearAncestor escape "
                   "(unguarded since the repairs a31cbfe/036aad8; uses the proved facts that dotted revnos are distinct and "
                   "a development line is a left-hand chain). NOT proved: exactness of with-merges ranges and the per-file "
                   "clause (oracle only: per-file logs by delta matching and by the per-file graph must list exactly the "
                   "revisions that touched the file id, across renames and batch boundaries; one known finding there: "
                   "forward per-file logs)."),
    "level_note": ("Trusted: Coq kernel, vm_compute, the hand model's correspondence (bounded sampling), vcsgraph merge_sort "
                   "and graph queries as modelled (compared on every run). Only local bzr 2a branches without ghosts on "
                   "walked left-hand histories; the per-file filters have an oracle but no model (linear histories with "
                   "renames); search filters and formatters are not covered."),
    "design_ref": "DESIGN.md §5 C25",
    "trusted_base": ["hand model coq/Model/Log.v of breezy/log.py (and coq/Model/RevSpec.v for iter_merge_sorted_revisions, dotted revnos)",
                     "coq/Lib/DagMergeSort.v as a model of vcsgraph KnownGraph.merge_sort (compiled, outside /repo)",
                     "correspondence harness harness/props/c25.py, harness/msortlib.py, harness/daglib.py"],
    "assumptions": ["vcsgraph KnownGraph.merge_sort numbers revisions like Lib/DagMergeSort.merge_sort (compared through every whole-history log; see also C22 kind=ms)",
                    "no ghost on a left-hand history that log walks (the generator produces ghosts only as non-left parents)",
                    "the branch records revno = left-hand history length (C21 keeps this)",
                    "start/end revisions are present in the repository"],
    "rule": "log/calc cases on histories containing a merge are non-trivial; distinct = distinct (input, observation)",
}
SHARD = 200

_state = {}


def setup(scratch):
    _state["h"] = msortlib.Histories(keep=2)


def teardown():
    h = _state.pop("h", None)
    if h is not None:
        h.close()


# ---- generation -------------------------------------------------------------------------------

def _wf_depth_list(rng, n):
    out, d = [], 0
    for i in range(n):
        d = 0 if i == 0 else rng.randint(0, d + 1) if rng.random() < 0.8 else max(0, d - rng.randint(0, 2))
        out.append([i, d])
    return out


def _rbd_cases(rng, tier):
    import itertools
    # exhaustive: all depth sequences of length <= 4 over depths 0..2 (well-formed or not)
    for n in range(0, 5):
        for ds in itertools.product(range(3), repeat=n):
            yield {"kind": "rbd", "l": [[i, d] for i, d in enumerate(ds)]}
    for _ in range(60 if tier == "quick" else 600):
        n = rng.randint(3, 12)
        if rng.random() < 0.6:
            yield {"kind": "rbd", "l": _wf_depth_list(rng, n)}
        else:
            yield {"kind": "rbd", "l": [[i, rng.randint(0, 3)] for i in range(n)]}


def _graphs(rng, tier):
    ndag, maxn = (10, 11) if tier == "quick" else (70, 14)
    out = [list(map(list, g)) for g in msortlib.FIXED if not any(ps and ps[0] >= len(g) for ps in g)]
    for _ in range(ndag):
        out.append(daglib.gen_dag(rng, rng.randint(3, maxn), p_merge=0.3 + 0.35 * rng.random(),
                                  p_ghost=0.05, p_left_ghost=0.0, p_root=0.05))
    return out


def _log_case(g, tip, start, end, forward, levels, limit, excl):
    return {"kind": "log", "g": g, "tip": tip, "start": start, "end": end, "forward": forward,
            "levels": levels, "limit": limit, "excl": excl}


def _cases_for(rng, g, tier):
    n = len(g)
    good = good_tips(g)
    if not good:
        return
    tips = list(dict.fromkeys([good[-1]] + rng.sample(good, min(len(good), 1))))
    for tip in tips:
        ms = ref_merge_sort(g, tip)
        ids = [x for x, _d, _r, _e in ms]
        ml = daglib.lefthand(g, tip)
        # the whole history: both directions, levels 0/1/2, a limit
        for fw in (False, True):
            for lv in (0, 1, 2):
                yield _log_case(g, tip, None, None, fw, lv, 0, False)
            yield _log_case(g, tip, None, None, fw, rng.choice([0, 1]), rng.randint(1, 4), False)
        # all mainline ranges (or a sample), both directions, levels 0/1
        pairs = [(s, e) for i, e in enumerate(ml) for s in ml[i:]]
        if len(pairs) > (10 if tier == "quick" else 24):
            pairs = rng.sample(pairs, 10 if tier == "quick" else 24)
        for s, e in pairs:
            fw = rng.random() < 0.5
            for lv in (0, 1):
                yield _log_case(g, tip, s, e, fw, lv, 0, False)
            yield _log_case(g, tip, s, e, not fw, rng.choice([0, 1]), 0, False)
        # ranges over any revisions (dotted ones, unrelated ones, reversed ones, open ends)
        pool = ids + list(range(n)) + [None, None]
        for _ in range(14 if tier == "quick" else 30):
            s, e = rng.choice(pool), rng.choice(pool)
            yield _log_case(g, tip, s, e, rng.random() < 0.4, rng.choice([0, 0, 1, 1, 2]),
                            rng.choice([0, 0, 0, 1, 2, 5]), rng.random() < 0.15 and s is not None and e is not None)
        # a walk that starts at a nested revision (the running depth adjustment), in
        # particular at a merged revision that is itself a merge
        for x, d, _rv, _e in ms:
            if d >= 1 and (len(g[x]) > 1 or rng.random() < 0.3):
                yield _log_case(g, tip, None, x, False, 0, 0, False)
                if rng.random() < 0.3:
                    yield _log_case(g, tip, None, x, True, 0, 0, False)
        # one-level logs and limited logs that end or start on a merged line (a left-hand walk off
        # the mainline: fork points of a branch of a branch must keep their dotted revno; the
        # level filter hides revisions, the limit counts the shown ones only)
        nested = [x for x, d, _rv, _e in ms if d >= 1]
        for x in (nested if len(nested) <= 6 else rng.sample(nested, 6)):
            yield _log_case(g, tip, None, x, rng.random() < 0.3, 1, 0, False)
            yield _log_case(g, tip, None, x, False, rng.choice([1, 2]), rng.randint(1, 3), False)
            yield _log_case(g, tip, x, None, rng.random() < 0.3, 1, rng.randint(1, 3), False)
        if any(d >= 2 for _x, d, _rv, _e in ms):
            for lim in (2, 3, 4, 5):
                yield _log_case(g, tip, None, None, rng.random() < 0.3, 2, lim, False)
        # two merged revisions with the same base (the _is_obvious_ancestor shortcut)
        dotted = [(x, rv) for x, _d, rv, _e in ms if len(rv) == 3]
        same_base = [(a, b) for a, ra in dotted for b, rb in dotted if a != b and ra[0] == rb[0]]
        for s, e in rng.sample(same_base, min(len(same_base), 4)):
            yield _log_case(g, tip, s, e, False, rng.choice([0, 1]), 0, False)
        # _calc_view_revisions with every flag combination on sampled limits
        for _ in range(10 if tier == "quick" else 24):
            s, e = rng.choice(pool), rng.choice(pool)
            yield {"kind": "calc", "g": g, "tip": tip, "start": s, "end": e, "forward": rng.random() < 0.5,
                   "gen_merge": rng.random() < 0.6, "delayed": rng.random() < 0.5,
                   "excl": rng.random() < 0.2}
    yield _log_case(g, None, None, None, False, 0, 0, False)


def _file_case(rng, n, forward, target="f", deltas_first=True):
    """A linear history r0..r(n-1): r0 adds the file f0 and another file o; every later revision
    either modifies the tracked file, renames it (f0 -> f1 -> ...) or modifies o."""
    ev = [["add"]]
    for i in range(1, n):
        x = rng.random()
        ev.append(["ren"] if x < 0.12 else ["mod"] if x < 0.45 else ["other"])
    return {"kind": "file", "n": n, "events": ev, "forward": forward, "target": target}


def _file_cases(rng, tier):
    # fixed: a rename right before / right after the first batch boundary (9 revisions from the tip)
    for n, ren_at in ((14, 4), (14, 5), (14, 6), (26, 3), (26, 4), (26, 16)):
        ev = [["add"]] + [["mod"] if i % 3 == 1 else ["other"] for i in range(1, n)]
        ev[ren_at] = ["ren"]
        for fw in (False, True):
            yield {"kind": "file", "n": n, "events": ev, "forward": fw, "target": "f"}
    for _ in range(10 if tier == "quick" else 80):
        n = rng.randint(12, 30)
        c = _file_case(rng, n, False)
        yield c
        if rng.random() < 0.5:
            yield dict(c, forward=True)
        if rng.random() < 0.3:
            yield dict(c, target="o", forward=rng.random() < 0.5)


def corpus():
    g = [list(ps) for ps in msortlib.FIXED[0]]
    # regression inputs of the two repaired findings (must PASS now):
    # C25-start-not-linear-leak (a31cbfe): 1.1.1 .. 1.2.1 at level 1 (r3 .. r4 of the first fixed history)
    g2 = [list(ps) for ps in msortlib.FIXED[1]]
    return [_log_case(g, 6, 3, 4, False, 1, 0, False),
            _log_case(g, 6, 3, 4, False, 0, 0, False),
            _log_case(g, 6, 3, 4, True, 1, 0, False),
            # C25-open-end-valueerror (036aad8): a start revision, an open end, the delayed-graph path
            _log_case(g2, 8, 4, None, True, 1, 0, False),
            _log_case(g2, 8, 4, None, False, 0, 0, False),
            # the same ranges with the end given: fine
            _log_case(g2, 8, 4, 8, True, 1, 0, False),
            _log_case(g2, 8, 4, 8, False, 0, 0, False),
            # C25-rename-at-batch-start (844065f): the renaming revision is the first of the second batch
            {"kind": "file", "n": 14, "forward": False, "target": "f",
             "events": [["add"], ["mod"], ["other"], ["other"], ["ren"], ["other"], ["other"], ["mod"], ["other"],
                        ["other"], ["mod"], ["other"], ["other"], ["mod"]]},
            # ... and of the first batch (the tip itself renames the file)
            {"kind": "file", "n": 13, "forward": False, "target": "f",
             "events": [["add"], ["mod"], ["other"], ["other"], ["mod"], ["other"], ["other"], ["mod"], ["other"],
                        ["other"], ["mod"], ["other"], ["ren"]]}]


def cases(rng, tier):
    yield from _rbd_cases(rng, tier)
    yield from _file_cases(rng, tier)
    for g in _graphs(rng, tier):
        yield from _cases_for(rng, g, tier)


# ---- implementation driver ----------------------------------------------------------------------

def _revno_list(r):
    if r is None:
        return None
    return [int(x) for x in str(r).split(".")]


def _err_name(e):
    n = type(e).__name__
    if n == "_StartNotLinearAncestor":
        return Err(n)
    if n == "CommandError":
        m = str(e)
        if "not found in history" in m:
            return Err("CommandError:start-not-found")
        if "must be older" in m:
            return Err("CommandError:start-after-end")
        if "exclude-common-ancestry requires" in m:
            return Err("CommandError:exclude-needs-two")
    if n == "ValueError" and "get_parent_map(None)" in str(e):
        return Err("ValueError")
    raise e


def _consume(it_fn, conv):
    out = []
    try:
        for x in it_fn():
            out.append(conv(x))
    except Exception as e:
        return [out, _err_name(e)]
    return [out, None]


def impl(inp):
    import breezy.bzr  # noqa: F401
    from breezy import log, revisionspec
    if inp["kind"] == "rbd":
        l = [(i, str(i), d) for i, d in inp["l"]]
        once = log.reverse_by_depth(list(l))
        return [[[i, d] for i, _s, d in once],
                [[i, d] for i, _s, d in log._rebase_merge_depth(list(l))],
                [[i, d] for i, _s, d in log.reverse_by_depth(list(once))]]
    if inp["kind"] == "file":
        return _impl_file(inp)
    g = inp["g"]
    br = _state["h"].at_tip(g, inp["tip"])
    s = None if inp["start"] is None else rid(inp["start"])
    e = None if inp["end"] is None else rid(inp["end"])
    with br.lock_read():
        if inp["kind"] == "calc":
            return _consume(lambda: log._calc_view_revisions(
                br, s, e, "forward" if inp["forward"] else "reverse", inp["gen_merge"],
                delayed_graph_generation=inp["delayed"], exclude_common_ancestry=inp["excl"]),
                lambda v: [idx(v[0]), _revno_list(v[1]), v[2]])
        info = revisionspec.RevisionInfo.from_revision_id
        rq = log.make_log_request_dict(
            direction="forward" if inp["forward"] else "reverse",
            start_revision=None if s is None else info(br, s),
            end_revision=None if e is None else info(br, e),
            limit=inp["limit"] or None, levels=inp["levels"],
            exclude_common_ancestry=inp["excl"])
        conv = lambda lr: [idx(lr.rev.revision_id), _revno_list(lr.revno), lr.merge_depth]  # noqa: E731
        out = _consume(log._DefaultLogGenerator(br, **rq).iter_log_revisions, conv)
        if inp["limit"]:
            # the same request without the limit (for the oracle only: a limited log is a prefix of it)
            out.append(_consume(log._DefaultLogGenerator(br, **dict(rq, limit=None)).iter_log_revisions, conv))
        return out


def impl_obs(inp, obs):
    """The part of the observation the model predicts."""
    if inp["kind"] == "log" and not isinstance(obs, Err) and len(obs) == 3:
        return obs[:2]
    return obs


def _file_history(inp):
    """(graph, BranchBuilder actions per revision, name of the tracked file at the tip, touching revisions)"""
    n = inp["n"]
    g = [[]] + [[i] for i in range(n - 1)]
    extra, k, touched = {}, 0, []
    for i, ev in enumerate(inp["events"]):
        if ev[0] == "add":
            extra[i] = [("add", ("f0", b"f-id", "file", b"0\n")), ("add", ("o", b"o-id", "file", b"0\n"))]
            touched.append(i)
        elif ev[0] == "ren":
            extra[i] = [("rename", ("f%d" % k, "f%d" % (k + 1)))]
            k += 1
            touched.append(i)
        elif ev[0] == "mod":
            extra[i] = [("modify", ("f%d" % k, b"%d\n" % i))]
            touched.append(i)
        else:
            extra[i] = [("modify", ("o", b"%d\n" % i))]
    return g, extra, "f%d" % k, touched


def _impl_file(inp):
    from breezy import log
    g, extra, name, _t = _file_history(inp)
    br = _state["h"].at_tip(g, inp["n"] - 1, extra=extra)
    path = name if inp["target"] == "f" else "o"
    out = []
    for deltas in (True, False):
        with br.lock_read():
            rq = log.make_log_request_dict(direction="forward" if inp["forward"] else "reverse",
                                           specific_files=[path], levels=1, _match_using_deltas=deltas)
            gen = log._DefaultLogGenerator(br, **rq)
            try:
                out.append([idx(lr.rev.revision_id) for lr in gen.iter_log_revisions()])
            except Exception as e:
                if type(e).__name__ != "NoSuchFile":
                    raise
                out.append(Err("NoSuchFile"))
    return out


# ---- model term -----------------------------------------------------------------------------------

def _o(v):
    return coq_option(v, str)


def model_term(inp):
    if inp["kind"] == "file":
        return None            # the per-file filters are not modelled: oracle only
    if inp["kind"] == "rbd":
        return "run_rbd " + coq_list([f"({i}, {d})" for i, d in inp["l"]])
    g = daglib.coq_dag(inp["g"])
    if inp["kind"] == "calc":
        return (f"run_calc {g} {_o(inp['tip'])} {_o(inp['start'])} {_o(inp['end'])} {coq_bool(inp['forward'])} "
                f"{coq_bool(inp['gen_merge'])} {coq_bool(inp['delayed'])} {coq_bool(inp['excl'])}")
    return (f"run_log {g} {_o(inp['tip'])} {_o(inp['start'])} {_o(inp['end'])} {coq_bool(inp['forward'])} "
            f"{inp['levels']} {inp['limit']} {coq_bool(inp['excl'])}")


# ---- the property itself, on the implementation's observation ------------------------------------

def _wf_depths(ds):
    return all(d == 0 if i == 0 else d <= ds[i - 1] + 1 for i, d in enumerate(ds))


def _mirror(items):
    """reverse-by-depth defined on the nesting structure: items = [(x, depth)], depth-well-formed.
    Parse into a forest (a deeper item is a child of the nearest shallower item before it),
    reverse the order of siblings at every level, flatten."""
    def parse(pos, d):
        trees = []
        while pos < len(items) and items[pos][1] == d:
            x = items[pos]
            kids, pos = parse(pos + 1, d + 1)
            trees.append((x, kids))
        return trees, pos

    def flat(trees):
        out = []
        for x, kids in reversed(trees):
            out.append(x)
            out.extend(flat(kids))
        return out
    trees, pos = parse(0, 0)
    if pos != len(items):
        return None
    return flat(trees)


def oracle(inp, obs):
    if isinstance(obs, Err):
        return "driver error " + str(obs)
    if inp["kind"] == "rbd":
        once, rebased, twice = obs
        l = [list(x) for x in inp["l"]]
        if sorted(once) != sorted(l):
            return "reverse_by_depth is not a permutation of its input"
        if _wf_depths([d for _i, d in l]):
            if twice != l:
                return "reverse_by_depth applied twice to a depth-well-formed list is not the identity"
            if once != [list(x) for x in _mirror([tuple(x) for x in l])]:
                return "reverse_by_depth differs from reversing the siblings at every nesting level"
        if [i for i, _d in rebased] != [i for i, _d in l]:
            return "_rebase_merge_depth changes the revisions"
        if l:
            shift = {a[1] - b[1] for a, b in zip(l, rebased)}
            if len(shift) != 1 or min(shift) < 0:
                return "_rebase_merge_depth does not shift all depths by one amount"
            if l[0][1] and l[-1][1] and min(d for _i, d in rebased) != 0:
                return "_rebase_merge_depth leaves the top level above 0"
        return None
    if inp["kind"] == "file":
        by_deltas, by_graph = obs
        _g, _extra, _name, touched = _file_history(inp)
        if inp["target"] == "o":
            touched = [i for i, ev in enumerate(inp["events"]) if ev[0] in ("add", "other")]
        want = touched if inp["forward"] else touched[::-1]
        for how, got in (("delta matching", by_deltas), ("the per-file graph", by_graph)):
            if isinstance(got, Err):
                return f"per-file log by {how} fails with {got}; the file was touched by {want}"
            if got != want:
                return f"per-file log by {how} lists {got}, the revisions that touched the file are {want}"
        return None
    unlimited = obs[2] if len(obs) == 3 else None
    items, err = obs[0], obs[1]
    if err is not None and str(err) == "_StartNotLinearAncestor":
        return "the internal _StartNotLinearAncestor exception escapes from the log generator"
    if err is not None and str(err) == "ValueError":
        return "log crashes with ValueError: get_parent_map(None) is not valid"
    if inp["kind"] == "calc":
        return None
    g, tip, s, e = inp["g"], inp["tip"], inp["start"], inp["end"]
    ids = [x[0] for x in items]
    if len(set(ids)) != len(ids):
        return "a revision is listed twice"
    if inp["limit"] and len(items) > inp["limit"]:
        return "more revisions than the limit"
    if unlimited is not None and unlimited[1] is None and err is None and items != unlimited[0][:inp["limit"]]:
        return (f"the log limited to {inp['limit']} lists {[x[0] for x in items]}, the first {inp['limit']} entries of "
                f"the unlimited log are {[x[0] for x in unlimited[0][:inp['limit']]]}")
    revnos = [tuple(x[1]) for x in items if x[1] is not None]
    if len(set(revnos)) != len(revnos):
        return f"two listed revisions carry the same revision number: {[x[:2] for x in items]}"
    if inp["levels"] and any(x[2] >= inp["levels"] for x in items):
        return "a revision deeper than the requested levels is listed"
    ms = ref_merge_sort(g, tip)
    info = {x: (list(rv), d) for x, d, rv, _e in ms}
    for x, rv, d in items:
        if x in info and rv != info[x][0]:
            return f"revision {x} is listed with revno {rv}, its dotted revno is {info[x][0]}"
    if (not inp["forward"] and inp["levels"] == 0 and all(x in info for x, _rv, _d in items)):
        # a reverse log shows every revision at its depth relative to the shallowest
        # revision listed so far (a walk that starts inside a merge is shifted to the left)
        low = None
        for x, _rv, d in items:
            low = info[x][1] if low is None else min(low, info[x][1])
            if d != info[x][1] - low:
                return (f"revision {x} (merge depth {info[x][1]}) is shown at depth {d}; the shallowest "
                        f"revision so far has depth {low}")
    if err is not None or inp["limit"] or inp["excl"]:
        return None
    ml = [] if tip is None else daglib.lefthand(g, tip)
    whole = s is None and e is None
    if whole:
        want = [(x, d) for x, d, _rv, _e in ms if not inp["levels"] or d < inp["levels"]]
        if inp["levels"] == 1 and ids != (ml[::-1] if inp["forward"] else ml):
            return "level 1 does not list the left-hand history"
        if not inp["forward"]:
            if [(x[0], x[2]) for x in items] != want:
                return "the reverse log is not the merge-sorted ancestry with its depths"
        elif inp["levels"] != 1:
            if [(x[0], x[2]) for x in items] != _mirror(want):
                return "the forward log is not the reverse-by-depth of the reverse log"
        if inp["levels"] == 0 and set(ids) != msortlib.present_ancestors(g, tip):
            return "the log does not list exactly the ancestry of the tip"
        return None
    # ranges: both limits on the mainline, start not newer than end
    s2 = s if s is not None else (ml[-1] if ml else None)
    e2 = e if e is not None else tip
    if s2 in ml and e2 in ml and ml.index(e2) <= ml.index(s2):
        seg = ml[ml.index(e2):ml.index(s2) + 1]
        if inp["levels"] == 1:
            if ids != (seg[::-1] if inp["forward"] else seg):
                return f"level-1 range {s}..{e} lists {ids}, the left-hand segment is {seg}"
        else:
            lp = g[s2][0] if g[s2] else None
            below = daglib.ancestors(g, [lp]) if lp is not None else set()
            want = {x for x in daglib.ancestors(g, [e2]) if x < len(g) and x not in below}
            if inp["levels"] == 0 and set(ids) != want:
                return f"range {s}..{e} lists {sorted(ids)}, the range denotes {sorted(want)}"
            if [x for x in ids if x in ml] != (seg[::-1] if inp["forward"] else seg):
                return f"range {s}..{e}: the mainline revisions listed are not the left-hand segment {seg}"
    return None


def finding_matches(fid, inp, obs, why):
    if fid == "C25-forward-file-log":
        # forward per-file logs: delta matching drops the revisions that follow the file's creation
        # inside one batch and fails with NoSuchFile for a renamed file; the per-file graph looks
        # the path up in the oldest revision of the view and lists nothing for a renamed file
        return inp.get("kind") == "file" and inp["forward"]
    return False


def nontrivial(inp, obs):
    if inp["kind"] == "file":
        return any(ev[0] == "ren" for ev in inp["events"])
    return inp["kind"] != "rbd" and any(len(ps) > 1 for ps in inp["g"])


def distribution(inputs, observations):
    d = {"kinds": {}, "levels": {}, "direction": {"forward": 0, "reverse": 0}, "ranges": 0, "mainline_ranges": 0,
         "with_limit": 0, "errors": {}, "histories": 0, "rbd_wellformed": 0, "graph_size": {}}
    seen = set()
    for i, o in zip(inputs, observations):
        d["kinds"][i["kind"]] = d["kinds"].get(i["kind"], 0) + 1
        if i["kind"] == "rbd":
            d["rbd_wellformed"] += _wf_depths([x[1] for x in i["l"]])
            continue
        if i["kind"] == "file":
            d["file_renames"] = d.get("file_renames", 0) + sum(ev[0] == "ren" for ev in i["events"])
            continue
        key = str(i["g"])
        if key not in seen:
            seen.add(key)
            k = str(len(i["g"]))
            d["graph_size"][k] = d["graph_size"].get(k, 0) + 1
        d["direction"]["forward" if i["forward"] else "reverse"] += 1
        if not isinstance(o, Err) and o[1] is not None:
            d["errors"][str(o[1])] = d["errors"].get(str(o[1]), 0) + 1
        if i["kind"] == "log":
            d["levels"][str(i["levels"])] = d["levels"].get(str(i["levels"]), 0) + 1
            d["with_limit"] += bool(i["limit"])
            if i["start"] is not None or i["end"] is not None:
                d["ranges"] += 1
                ml = daglib.lefthand(i["g"], i["tip"]) if i["tip"] is not None else []
                d["mainline_ranges"] += (i["start"] in ml or i["start"] is None) and (i["end"] in ml or i["end"] is None)
    d["histories"] = len(seen)
    return d
