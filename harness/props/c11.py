"""C11 -- adding files versions exactly the intended paths (tie H: hand model + real bzr/git trees)."""
import itertools
import json
import shutil

from vlib import Tag, Err, coq_bool
from props import _dirtree_common as D
from props.c46 import _random_layout, _random_versioned, _bzrctl, _gitctl, _is_ctl_path

PROP = "C11"
COQ = {
    "property_file": "Properties/C11.v",
    "imports": "From BV Require Import Lib.Bytes Lib.DirTree Model.CleanTree Model.SmartAdd.",
}
META = {
    "level": "proof",
    "title": "Adding files versions exactly the intended paths",
    "technique": ("Coq theorems over a hand model of _SmartAddHelper.add / GitWorkingTree.smart_add on an abstract "
                  "directory tree (Lib/DirTree.v) + correspondence on real 2a and git working trees"),
    "level_text": ("Proved for every directory tree, versioned set, ignore oracle, conflict list, list of named paths "
                   "and recurse flag: the versioned set afterwards is exactly versioned-before + named paths with their "
                   "parents + (when recursing) the descendants reached from the walked directories by steps that are "
                   "not ignored-and-unversioned, not the control directory, not below a nested tree, not conflict "
                   "helpers; existing entries are untouched; new entries carry the on-disk kind. The walked directories "
                   "are all named directories when none is inside another (guarded theorem); a machine-checked "
                   "refutation shows that naming a directory inside a named nested tree makes its content be skipped."),
    "level_note": ("Trusted: Coq kernel, vm_compute, correspondence of the hand model (sampled layouts), is_ignored and "
                   "the conflict list are inputs (real answers fed in), default AddAction only."),
    "design_ref": "DESIGN.md §5 C11",
    "trusted_base": ["hand model coq/Model/SmartAdd.v of breezy/bzr/inventorytree.py (_SmartAddHelper), "
                     "breezy/git/workingtree.py (smart_add), breezy/add.py (AddAction)",
                     "harness/props/c11.py + _dirtree_common.py"],
    "assumptions": ["versioned entries present on disk have their on-disk kind (no kind changes pending)",
                    "named paths are tree-relative after osutils.canonical_relpaths and traverse no symlink",
                    "directories have pairwise distinct, ASCII entry names (wf_node; Python str sort = byte sort)",
                    "is_ignored is an oracle; conflicts are text conflicts (associated files .THIS/.BASE/.OTHER)",
                    "default AddAction (skip_file never skips); file kinds are file/directory/symlink",
                    "nested control directories are .bzr with a valid branch-format file or any .git entry"],
    "rule": ("hand layouts x all non-empty sets of <= 3 named paths x recurse x bzr/git, then seeded random layouts over "
             "<= 8 names (ignore patterns, .bzr/.git at depth 0-3, conflict helper files, symlinks) with 1-3 named "
             "paths; non-trivial = something becomes versioned or an error is raised"),
}
SHARD = 200
_cache = {}
# a versioned directory that holds a control directory is reported as "tree-reference" by the
# dirstate working tree even in 2a; it is the same inventory entry -> "d"
KTAG = {"file": "f", "directory": "d", "symlink": "l", "tree-reference": "d"}
KCOQ = {"f": "KFile", "d": "KDir", "l": "KSymlink"}


def setup(scratch):
    D.setup(scratch)


def _inp(fmt, layout, versioned, ignore, conflicts, named, recurse):
    return {"fmt": fmt, "layout": [list(e) for e in layout], "versioned": list(versioned), "ignore": list(ignore),
            "conflicts": list(conflicts), "named": list(named), "recurse": bool(recurse)}


HAND = [
    # layout, versioned bzr, versioned git, ignore, conflicts, candidate names
    ([("a", "d"), ("a/b", "d"), ("a/b/x", "f"), ("a/ig", "f"), ("a/y", "f"), ("z", "f"), ("c", "f"), ("c.THIS", "f"),
      ("c.BASE", "f"), ("a/c.OTHER", "f")], ["c"], ["c"], ["ig"], ["c", "a/c"],
     ["", "a", "a/b", "a/ig", "z", "c.THIS", "a/b/x"]),
    ([("n", "d")] + _bzrctl("n") + [("n/s", "d"), ("n/s/g", "f"), ("n/f", "f"), ("m", "d")] + _gitctl("m") +
     [("m/h", "f"), ("u", "d"), ("u/k", "d")] + _bzrctl("u/k") + [("u/k/w", "f"), ("u/l", "lo")], [], [], [], [],
     ["", "n", "n/s", "n/f", "m", "u", "u/k", "u/l"]),
    ([("ig", "d"), ("ig/f", "f"), ("ig/ig", "f"), ("v", "d"), ("v/ig", "d"), ("v/ig/q", "f"), ("v/w", "f"),
      ("v/x.o", "f"), ("li", "li:v")], ["v", "v/ig"], ["v/w"], ["ig", "*.o"], [],
     ["", "ig", "ig/f", "v", "v/ig", "v/x.o", "li"]),
    # sibling directories whose names are string prefixes of each other (doc / docs / doc-x), named together
    ([("doc", "d"), ("doc/p", "f"), ("docs", "d"), ("docs/q", "f"), ("docs/r", "d"), ("docs/r/s", "f"),
      ("doc-x", "d"), ("doc-x/t", "f"), ("z", "f")], [], ["z"], [], [], ["doc", "docs", "doc-x", "docs/r", "z"]),
    # negated ignore patterns that re-include part of what an earlier pattern excludes (git), or nothing (bzr)
    ([("o", "d"), ("o/keep.log", "f"), ("o/x.log", "f"), ("o/out", "d"), ("o/out/keep", "f"), ("o/out/junk", "f"),
      ("z", "f")], [], ["z"], ["*.log", "!keep.log", "out/*", "!out/keep"], [], ["", "o", "o/out", "o/x.log"]),
    # an already versioned directory with a plain ".bzr" subdirectory (tree-reference view of the dirstate tree)
    ([("m", "d"), ("m/.bzr", "d"), ("m/b", "f"), ("m/q", "f"), ("m/s", "d"), ("m/s/y", "f"), ("z", "f")],
     ["m"], ["z"], [], [], ["", "m", "m/b", "m/s", "m/s/y", "z"]),
]


def corpus():
    lay = [("a", "d")] + _bzrctl("a") + [("a/b", "d"), ("a/b/x", "f")]
    return [_inp("bzr", lay, [], [], [], ["a", "a/b"], True),     # finding witness: a/b/x skipped
            _inp("bzr", lay, [], [], [], ["a/b"], True),          # ... although it is added here
            # a versioned directory with a plain ".bzr" subdirectory, named: not walked (tree-reference view)
            _inp("bzr", [("v", "d"), ("v/.bzr", "d"), ("v/x", "f")], ["v"], [], [], ["v"], True),
            _inp("bzr", [("v", "d"), ("v/.bzr", "d"), ("v/x", "f")], ["v"], [], [], [""], True)]


def _nameable(layout, fmt):
    kinds = dict(layout)
    out = [""]
    for p, _k in layout:
        anc = [p.rsplit("/", i)[0] for i in range(1, p.count("/") + 1)]
        if any(kinds.get(a, "d") != "d" for a in anc):
            continue
        top = p.split("/")[0]
        if top == D.OWN_CTL[fmt]:
            continue
        if fmt == "git" and _is_ctl_path(p):
            continue
        out.append(p)
    return out


def cases(rng, tier):
    for lay, vb, vg, ign, confl, names in HAND:
        for fmt in ("bzr", "git"):
            subsets = [s for k in (1, 2, 3) for s in itertools.combinations(names, k)]
            if tier == "quick":
                subsets = subsets[:28] + rng.sample(subsets[28:], max(0, min(22, len(subsets) - 28)))
            subsets += [tuple(reversed(s)) for s in subsets if len(s) == 2]      # order of the names matters
            for s in subsets:
                for rec in (True, False) if len(s) < 3 else (True,):
                    cf = confl if fmt == "bzr" else [c for c in confl if c in vg]
                    yield _inp(fmt, lay, vb if fmt == "bzr" else vg, ign, cf, list(s), rec)
    yield _inp("bzr", [("f", "f")], [], [], [], [".bzr/checkout"], True)
    yield _inp("bzr", [("f", "f")], [], [], [], ["f", "nope"], True)
    yield _inp("git", [("f", "f")], [], [], [], ["nope", "f"], False)
    n = 500 if tier == "quick" else 5000
    for _ in range(n):
        fmt = "bzr" if rng.random() < 0.6 else "git"
        lay = _random_layout(rng, fmt)
        vs = _random_versioned(rng, fmt, lay)
        have = {p for p, _k in lay}
        vs = [v for v in vs if not any(a + "/.bzr" in have for a in _prefixes(v)[:-1])]
        if fmt == "bzr" and rng.random() < 0.1:     # \r in a name: the illegalpath_re branch (bzr only)
            dirs = [""] + [p for p, k in lay if k == "d" and not _is_ctl_path(p)]
            d = rng.choice(dirs)
            lay.append(((d + "/" if d else "") + "r\rn", "f"))
        kinds = dict(lay)
        confl = []
        for p, k in list(lay):
            for sfx in (".THIS", ".BASE", ".OTHER"):
                if p.endswith(sfx) and rng.random() < 0.6:
                    stem = p[:-len(sfx)]
                    if fmt == "git":
                        if k != "f":
                            continue
                        anc = [stem.rsplit("/", i)[0] for i in range(1, stem.count("/") + 1)]
                        if _is_ctl_path(stem) or any(kinds.get(a) != "d" for a in anc):
                            continue
                        if stem not in kinds:
                            lay.append((stem, "f"))
                            kinds[stem] = "f"
                        if kinds[stem] != "f":
                            continue
                        if stem not in vs:
                            vs.append(stem)
                    if stem not in confl:
                        confl.append(stem)
        ign = [x for x in ["ig", "*.o", "*.tmp", "./v/ig", "n", "u/*", "m"] if rng.random() < 0.25]
        if fmt == "git" and rng.random() < 0.35:
            # an exclude pattern followed by a negated pattern that re-includes part of what it matched
            ign = [x for x in ign if x != "./v/ig"] + rng.choice(
                [["*.tmp", "!t.tmp"], ["*.o", "!x.o"], ["u/*", "!u/n", "!u/a"], ["ig", "!ig"], ["/*", "!/v", "!/a", "!/u"],
                 ["m", "n", "!n"], ["*.tmp", "*.o", "!q.tmp", "!x.o"]])
        pair = []
        if rng.random() < 0.12:
            # two sibling directories one of whose names is a string prefix of the other (doc / docs)
            dirs = [""] + [p for p, k in lay if k == "d" and not _is_ctl_path(p)]
            d = rng.choice(dirs)
            pre = d + "/" if d else ""
            a, b = rng.choice([("doc", "docs"), ("lib", "lib64"), ("a", "a-b"), ("n", "n.d")])
            have = {p for p, _k in lay}
            if pre + a not in have and pre + b not in have and not any(kinds.get(x, "d") != "d" for x in _prefixes(pre + a)[:-1]):
                lay += [(pre + a, "d"), (pre + a + "/p", "f"), (pre + b, "d"), (pre + b + "/q", "f"), (pre + b + "/r", "d"),
                        (pre + b + "/r/s", "f")]
                pair = [pre + a, pre + b]
        cand = _nameable(lay, fmt)
        k = rng.choice([1, 1, 1, 2, 2, 3])
        named = [rng.choice(cand) for _ in range(k)]
        if pair:
            named = (pair if rng.random() < 0.5 else pair[::-1]) + named[:1]
        if rng.random() < 0.04:
            named.insert(rng.randrange(len(named) + 1), "zz-missing")
        if fmt == "bzr" and rng.random() < 0.03:
            named.append(".bzr/checkout")
        yield _inp(fmt, lay, vs, ign, confl, named, rng.random() < 0.75)


# ---------------------------------------------------------------- implementation driver
def _key(inp):
    return json.dumps(inp, sort_keys=True)


def _entries(wt, fmt):
    with wt.lock_read():
        if fmt == "bzr":
            # the inventory itself (iter_entries_by_dir of a dirstate tree hides what is below a
            # versioned directory that holds a .bzr, reporting it as a tree reference)
            out = [[p, KTAG[ie.kind]] for p, ie in wt.root_inventory.iter_entries() if p != ""]
        else:
            # the index itself (iter_entries_by_dir does not list a conflicted entry without a THIS stage)
            import stat
            out = []
            for raw, e in wt.index.iteritems():
                if not hasattr(e, "mode"):
                    e = e.this or e.other or e.ancestor
                out.append([raw.decode("utf-8"), "l" if stat.S_ISLNK(e.mode) else "f"])
    return sorted(out, key=lambda e: e[0].encode())


def _reference_ignored(wt, base, before):
    """Which paths are ignored in a git tree, decided independently of GitWorkingTree.is_ignored: breezy's
    global ignore globs, then the .gitignore rule "the LAST matching pattern decides" evaluated with
    dulwich's pattern matcher (code outside /repo).  The model is fed the tree's own answers; the oracle
    uses this reference, so a wrong is_ignored shows up as a property violation."""
    from breezy import globbing, ignores
    from dulwich.ignore import IgnoreFilterManager
    from dulwich.repo import Repo
    glob = globbing.ExceptionGlobster(set(ignores.get_runtime_ignores()) | set(ignores.get_user_ignores()))
    mgr = IgnoreFilterManager.from_repo(Repo(base))
    out = []
    for p, k in before:
        if glob.match(p) is not None:
            out.append(p)
            continue
        ps = list(mgr.find_matching(p + "/" if k == "d" else p))
        if ps and ps[-1].is_exclude:
            out.append(p)
    return out


def impl(inp):
    import breezy
    import breezy.bzr  # noqa
    import breezy.git  # noqa
    from breezy import errors
    from breezy.workingtree import WorkingTree
    fmt = inp["fmt"]
    base = D.new_tree(fmt)
    try:
        D.materialise(base, [tuple(e) for e in inp["layout"]], inp["ignore"], fmt)
        wt = WorkingTree.open(base)
        if inp["versioned"]:
            wt.add(list(inp["versioned"]))
        if inp["conflicts"]:
            if fmt == "bzr":
                from breezy.bzr.conflicts import TextConflict
            else:
                from breezy.git.workingtree import TextConflict
            if fmt == "bzr":
                wt.set_conflicts([TextConflict(p) for p in inp["conflicts"]])
            else:       # git: set_conflicts does not persist (it drops the entry); add_conflicts builds the
                wt.add_conflicts([TextConflict(p) for p in inp["conflicts"]])   # stages from the helper files
        wt = WorkingTree.open(base)
        before = D.snapshot(base, fmt)
        vs = _entries(wt, fmt)
        with wt.lock_read():
            ign = [p for p, _k in before if wt.is_ignored(p) is not None]
            confl = sorted(c.path for c in wt.conflicts())
            ign_ref = _reference_ignored(wt, base, before) if fmt == "git" else ign
        facts = {"before": [list(e) for e in before], "vs": vs, "ign": ign, "confl": confl, "ign_ref": ign_ref}
        _cache[_key(inp)] = facts
        exc = None
        try:
            wt.smart_add([base + "/" + p if p else base for p in inp["named"]], recurse=inp["recurse"])
        except Exception as e:   # expected: NoSuchFile, ForbiddenControlFileError; anything else is judged by the oracle
            exc = type(e).__name__
        after = _entries(WorkingTree.open(base), fmt)
        return {"facts": facts, "after": after, "exc": exc, "disk_same": D.snapshot(base, fmt) == before}
    finally:
        shutil.rmtree(base, ignore_errors=True)


def impl_obs(inp, obs):
    if isinstance(obs, Err):
        return obs
    if obs["exc"]:
        return Err(obs["exc"])
    return [[p, Tag(k)] for p, k in obs["after"]]


def model_term(inp):
    facts = _cache.get(_key(inp))
    if facts is None:
        facts = impl(inp)["facts"]
    vs = "[" + "; ".join(f"({D.coq_path(p)}, {KCOQ[k]})" for p, k in facts["vs"]) + "]" \
        if facts["vs"] else "(@nil entry)"
    return (f"run_case {'Bzr' if inp['fmt'] == 'bzr' else 'Git'} {D.coq_node([tuple(e) for e in facts['before']])} "
            f"{vs} {D.coq_paths(facts['ign'])} {D.coq_paths(facts['confl'])} {D.coq_paths(inp['named'])} "
            f"{coq_bool(inp['recurse'])}")


# ---------------------------------------------------------------- the property itself
def _prefixes(p):
    s = p.split("/")
    return ["/".join(s[:k]) for k in range(1, len(s) + 1)]


def _expected(inp, facts):
    """The property text evaluated on the layout: versioned-before + named (with parents) +
    eligible descendants of every named directory."""
    fmt = inp["fmt"]
    kinds = {p: k for p, k in facts["before"]}
    kids = {}
    for p in kinds:
        kids.setdefault(p.rsplit("/", 1)[0] if "/" in p else "", []).append(p)
    ign = set(facts.get("ign_ref", facts["ign"]))
    helper = {c + s for c in facts["confl"] for s in (".THIS", ".BASE", ".OTHER")}
    before = {p for p, _ in facts["vs"]}
    exp = set(before)

    def nested(q):
        if q == "" or kinds.get(q, "d") != "d":
            return False
        # a ".bzr" directory without a format file is an ordinary directory (ControlDir.open rejects it)
        return bool(D.is_ctl_dir(kinds, q + "/.bzr") and (q + "/.bzr") in kinds or (q + "/.git") in kinds)

    def illegal(q):
        return "\r" in q or "\n" in q

    for p in inp["named"]:
        if fmt == "bzr":
            exp.update(_prefixes(p) if p else [])
        elif p and kinds.get(p) != "d":
            exp.add(p)
    if not inp["recurse"]:
        return exp
    now = set(exp)          # what counts as "already versioned" when the walk looks at a child

    def walk(q):            # q: a directory whose content is eligible
        for c in sorted(kids.get(q, [])):
            if c.split("/")[0] == D.OWN_CTL[fmt] and "/" not in c:
                continue                                           # the control directory
            if fmt == "bzr":
                if c not in now and c in ign:
                    continue                                       # ignored
                if illegal(c) or c in helper:
                    continue                                       # conflict helper (or \r\n name)
                if nested(c):
                    continue                                       # nested tree: neither added nor entered
                exp.add(c)
                if kinds[c] == "d":
                    walk(c)
            else:
                if c in ign:
                    continue
                if kinds[c] == "d":
                    if not nested(c):
                        walk(c)
                elif c not in helper:
                    exp.add(c)

    for d in inp["named"]:
        if kinds.get(d, "d" if d == "" else None) != "d":
            continue
        if nested(d) or (fmt == "bzr" and (illegal(d) or d in helper)):
            continue
        walk(d)
    return exp


def oracle(inp, obs):
    if isinstance(obs, Err):
        return "driver error " + str(obs)
    facts = obs["facts"]
    kinds = {p: k.lower() for p, k in facts["before"]}
    if not obs["disk_same"]:
        return "smart_add changed the working directory"
    before = {p: k for p, k in facts["vs"]}
    after = {p: k for p, k in obs["after"]}
    if obs["exc"]:
        bad = [p for p in inp["named"] if p and (kinds.get(p) is None or p.split("/")[0] == D.OWN_CTL[inp["fmt"]])]
        if not bad:
            return f"smart_add raised {obs['exc']} although every named path exists and is not a control file"
        if inp["fmt"] == "bzr" and after != before:
            return "failed smart_add changed the versioned set"
        return None
    for p, k in before.items():
        if after.get(p) != k:
            return f"already versioned {p!r} ({k}) changed to {after.get(p)!r}"
    exp = _expected(inp, facts)
    got = set(after)
    if got - exp:
        return f"versioned but not intended: {sorted(got - exp)[:4]!r}"
    if exp - got:
        return f"intended but not versioned: {sorted(exp - got)[:4]!r}"
    for p, k in after.items():
        if p not in before and kinds.get(p) != k:
            return f"{p!r} added with kind {k!r} but it is {kinds.get(p)!r} on disk"
    return None


def finding_matches(fid, inp, obs, why):
    if inp["fmt"] != "bzr" or not inp["recurse"] or not (why or "").startswith("intended but not versioned"):
        return False
    kinds = {p: k for p, k in inp["layout"]}
    if fid == "C11-treeref-root":
        # a named, already versioned directory holding a ".bzr" directory that is no control directory
        return any(d in inp["versioned"] and kinds.get(d + "/.bzr") == "d" and (d + "/.bzr/branch-format") not in kinds
                   for d in inp["named"])
    if fid != "C11-named-dir-shadowed":
        return False
    helper = {c + s for c in inp["conflicts"] for s in (".THIS", ".BASE", ".OTHER")}

    def blocked(q):
        return q != "" and ((D.is_ctl_dir(kinds, q + "/.bzr") and (q + "/.bzr") in kinds) or (q + "/.git") in kinds
                            or "\r" in q or "\n" in q or q in helper)

    dirs = [p for p in inp["named"] if p == "" or kinds.get(p) == "d"]
    for d1 in dirs:
        for d2 in dirs:
            if d1 != d2 and (d1 == "" or d2.startswith(d1 + "/")):
                chain = [q for q in ([""] + _prefixes(d2)) if (q == d1 or d1 == "" or q.startswith(d1 + "/")) and q != d2]
                if any(blocked(q) for q in chain):
                    return True
    return False


def nontrivial(inp, obs):
    if isinstance(obs, Err):
        return False
    return bool(obs["exc"]) or len(obs["after"]) != len(obs["facts"]["vs"])


def distribution(inputs, observations):
    d = {"bzr": 0, "git": 0, "recurse": 0, "errors": 0, "added_something": 0, "with_nested_control": 0,
         "with_conflicts": 0, "n_named": {}}
    for i, o in zip(inputs, observations):
        d[i["fmt"]] += 1
        d["recurse"] += bool(i["recurse"])
        if not isinstance(o, Err):
            d["errors"] += bool(o["exc"])
            d["added_something"] += len(o["after"]) != len(o["facts"]["vs"])
        d["with_nested_control"] += any(_is_ctl_path(p) for p, _k in i["layout"])
        d["with_conflicts"] += bool(i["conflicts"])
        k = str(len(i["named"]))
        d["n_named"][k] = d["n_named"].get(k, 0) + 1
    return d


def shrink(inp, fails):
    cur = inp
    changed = True
    while changed:
        changed = False
        for idx in range(len(cur["layout"])):
            p = cur["layout"][idx][0]
            if any(n == p or n.startswith(p + "/") for n in cur["named"]):
                continue
            lay = [e for e in cur["layout"] if e[0] != p and not e[0].startswith(p + "/")
                   and not (e[1].startswith("li:") and (e[1][3:] == p or e[1][3:].startswith(p + "/")))]
            vs = [v for v in cur["versioned"] if v != p and not v.startswith(p + "/")]
            cf = [c for c in cur["conflicts"] if c != p and not c.startswith(p + "/")]
            cand = dict(cur, layout=lay, versioned=vs, conflicts=cf)
            try:
                if fails(cand):
                    cur, changed = cand, True
                    break
            except Exception:
                pass
    return cur
