"""C44 helper: generator of histories (graph + full inventory per revision + metadata + tags).

A case is JSON-like:
  plain/rewrite/no_tags  exporter flags (0/1);  chunk (REVISIONS_CHUNK_SIZE override), checkpoint (exporter --checkpoint): size knobs, 0 = default
  names    table of path components (str);  strings: table of texts/targets/idents/messages/tag names
  revs     [{parents:[int], inv:[[id,parent,name,kind,data,exec]], committer, authors:[..], ts4, tz, msg}]
           (kind "f"/"l"/"d"; data = index into strings for files (text) and links (target); ts4 = timestamp*4)
  tip      index of the branch tip;  tags: [[string index, revision index or -1 (ghost)]]
"""

NAMES = ["a", "b", "c", "d", "e", "f", "g", "h", "\u00e9", "\u65e5\u672c", "x y", "w ", "-m", "A", "\u00c5"]
PLAIN_NAMES = 8          # the first names are plain ASCII letters

TEXTS = ["", "A\n", "B\n", "no newline", "l1\nl2\n", "éè\n", "\r\n", " \n", "x" * 40 + "\n", "\x00\x01bin\xff"]
TARGETS = ["a", "../up", "t\u00e9", "e\u0301", "d/x y", "w ", "\u65e5", "/abs/\u00c5"]
IDENTS = ["Joe <joe@x.org>", "Jöe Blöggs <jöe@x.org>", "joe@x.org", "Joe", "Joe é <j@x>",
          "日本 <n@x.jp>", "Ann Other <ann@y>",
          # idents that parseaddr / the stream syntax normalise
          "<joe@x.org>", "Joe  Q <joe@x.org>", "\"Doe, John\" <j@x.org>", "Joe <joe@x.org> ", "Joe <>",
          "Joe <joe@x.org> (c)", " Joe <joe@x.org>", "Joe <a b@x>"]
GOOD_IDENTS = 7
MSGS = ["m", "", "two\nlines\n", "trail \n\n", "é é 日\n", " lead", "tab\there", "x" * 70]
TAGS = ["v1", "rel-2.0", "café", "é", "v 2", "a..b", "x/", ".hid", "t~1", "end.lock", "a@{b", "back\\slash"]
GOOD_TAGS = 4


def _paths(inv, names):
    by = {e[0]: e for e in inv}
    out = {}

    def p(i):
        if i == 0:
            return ""
        if i not in out:
            e = by[i]
            pp = p(e[1])
            out[i] = names[e[2]] if pp == "" else pp + "/" + names[e[2]]
        return out[i]
    for e in inv:
        p(e[0])
    return out


def _desc(inv, i):
    out, todo = set(), [i]
    while todo:
        x = todo.pop()
        for e in inv:
            if e[1] == x and e[0] not in out:
                out.add(e[0])
                todo.append(e[0])
    return out


def _dir_moved(old, new):
    by = {e[0]: e for e in old}
    return any(e[3] == "d" and e[0] in by and (by[e[0]][1], by[e[0]][2]) != (e[1], e[2]) for e in new) or \
        any(e[3] != by[e[0]][3] and "d" in (e[3], by[e[0]][3]) for e in new if e[0] in by)


def long_case(n):
    """A linear history of n revisions (REVISIONS_CHUNK_SIZE = 1000, tree cache 20, inventory cache 1)."""
    S = ["Joe <joe@x.org>", "m", "t0\n", "t1\n", "t2\n"]
    revs = []
    for i in range(n):
        inv = [[1, 0, 0, "f", 2 + i % 3, 0], [2, 0, 1 + (i // 400) % 2, "f", 2, int(i % 7 == 0)]]
        revs.append({"parents": [i - 1] if i else [], "inv": inv, "committer": 0, "authors": [],
                     "ts4": 4000 + 4 * i, "tz": 0, "msg": 1})
    return {"plain": 1, "rewrite": 0, "no_tags": 0, "props": 1, "chunk": 0, "checkpoint": 0,
            "names": ["a", "b", "c"], "strings": S, "revs": revs, "tip": n - 1, "tags": [[1, 999]]}


class TreeGen:
    """Random edits of an inventory (list of [id,parent,name,kind,data,exec])."""

    def __init__(self, rng, nnames, strings):
        self.rng = rng
        self.nnames = nnames
        self.S = strings
        self.next_id = 1

    def s(self, v):
        if v not in self.S:
            self.S.append(v)
        return self.S.index(v)

    def free_name(self, inv, par):
        used = {e[2] for e in inv if e[1] == par}
        free = [n for n in range(self.nnames) if n not in used]
        return self.rng.choice(free) if free else None

    def dirs(self, inv):
        return [0] + [e[0] for e in inv if e[3] == "d"]

    def new_entry(self, inv, par=None, kind=None):
        rng = self.rng
        if par is None:
            par = rng.choice(self.dirs(inv))
        nm = self.free_name(inv, par)
        if nm is None:
            return None
        kind = kind or rng.choice("ffffld")
        i = self.next_id
        self.next_id += 1
        if kind == "f":
            e = [i, par, nm, "f", self.s(rng.choice(TEXTS)), int(rng.random() < 0.3)]
        elif kind == "l":
            e = [i, par, nm, "l", self.s(rng.choice(TARGETS)), 0]
        else:
            e = [i, par, nm, "d", 0, 0]
        inv.append(e)
        return e

    def op(self, inv, kind=None):
        """Apply one random edit in place; returns its name (or None if not applicable)."""
        rng = self.rng
        k = kind or rng.choice(["add", "add", "modify", "modify", "exec", "rename", "move", "remove", "kind",
                                "swap", "replace", "chain", "dirrename", "moveout", "retarget", "nest", "emptyout",
                                "renexec", "renexec"])
        ents = list(inv)
        files = [e for e in ents if e[3] == "f"]
        if k == "add":
            return k if self.new_entry(inv) else None
        if k == "nest":
            # a chain of directories with a single file at the bottom
            d = self.new_entry(inv, kind="d")
            for _ in range(rng.choice([1, 2])):
                if d is None:
                    return None
                d = self.new_entry(inv, par=d[0], kind="d")
            if d is None:
                return None
            return k if self.new_entry(inv, par=d[0], kind=rng.choice("fl")) else None
        if k == "emptyout":
            # remove (or move to the root) every file below a top-level directory; keep or drop its directories
            tops = [e for e in ents if e[3] == "d" and e[1] == 0 and any(x[3] != "d" for x in ents if x[0] in _desc(inv, e[0]))]
            if not tops:
                return None
            t = rng.choice(tops)
            below = _desc(inv, t[0])
            drop_dirs = rng.random() < 0.6
            move = rng.random() < 0.4
            keep = []
            for x in inv:
                if x[0] in below or x[0] == t[0]:
                    if x[3] == "d":
                        if not drop_dirs:
                            keep.append(x)
                    elif move:
                        nm = self.free_name([y for y in inv if y[0] not in below] + keep, 0)
                        if nm is not None:
                            x[1], x[2] = 0, nm
                            keep.append(x)
                else:
                    keep.append(x)
            inv[:] = keep
            return k
        if k == "modify" and files:
            e = rng.choice(files)
            e[4] = self.s(rng.choice([t for t in TEXTS if self.s(t) != e[4]]))
            return k
        if k == "renexec" and files:
            # rename (or move) a file and flip its executable bit, content untouched, in ONE commit
            e = rng.choice(files)
            tgt = [d for d in self.dirs(inv)] if rng.random() < 0.3 else [e[1]]
            par = rng.choice(tgt)
            nm = self.free_name(inv, par)
            if nm is None:
                return None
            e[1], e[2], e[5] = par, nm, 1 - e[5]
            return k
        if k == "exec" and files:
            e = rng.choice(files)
            e[5] = 1 - e[5]
            return k
        if k == "retarget":
            ls = [e for e in ents if e[3] == "l"]
            if ls:
                e = rng.choice(ls)
                e[4] = self.s(rng.choice([t for t in TARGETS if self.s(t) != e[4]]))
                return k
        if k in ("rename", "dirrename") and ents:
            pool = [e for e in ents if e[3] == "d"] if k == "dirrename" else ents
            if pool:
                e = rng.choice(pool)
                nm = self.free_name(inv, e[1])
                if nm is not None:
                    e[2] = nm
                    if rng.random() < 0.3 and e[3] == "f":
                        e[4] = self.s(rng.choice(TEXTS))
                    return k
        if k == "move" and ents:
            e = rng.choice(ents)
            bad = _desc(inv, e[0]) | {e[0], e[1]}
            tgt = [d for d in self.dirs(inv) if d not in bad]
            if tgt:
                par = rng.choice(tgt)
                used = {x[2] for x in inv if x[1] == par}
                if e[2] in used:
                    nm = self.free_name(inv, par)
                    if nm is None:
                        return None
                    e[2] = nm
                e[1] = par
                return k
        if k == "remove" and ents:
            e = rng.choice(ents)
            gone = _desc(inv, e[0]) | {e[0]}
            inv[:] = [x for x in inv if x[0] not in gone]
            return k
        if k == "kind" and ents:
            e = rng.choice(ents)
            if e[3] == "d" and _desc(inv, e[0]):
                if rng.random() < 0.5:
                    return None
                gone = _desc(inv, e[0])
                inv[:] = [x for x in inv if x[0] not in gone]
            nk = rng.choice([x for x in "fld" if x != e[3]])
            e[3] = nk
            e[4] = self.s(rng.choice(TEXTS)) if nk == "f" else (self.s(rng.choice(TARGETS)) if nk == "l" else 0)
            e[5] = 0
            return k
        if k == "swap" and len(ents) >= 2:
            a, b = rng.sample(ents, 2)
            if a[0] in _desc(inv, b[0]) or b[0] in _desc(inv, a[0]):
                return None
            (a[1], a[2]), (b[1], b[2]) = (b[1], b[2]), (a[1], a[2])
            return k
        if k == "replace" and ents:
            e = rng.choice(ents)
            gone = _desc(inv, e[0]) | {e[0]}
            inv[:] = [x for x in inv if x[0] not in gone]
            ne = self.new_entry(inv, par=e[1])
            if ne:
                ne[2] = e[2]
            return k
        if k == "chain" and len(ents) >= 2:
            a, b = rng.sample(ents, 2)
            if a[0] in _desc(inv, b[0]) or b[0] in _desc(inv, a[0]):
                return None
            nm = self.free_name(inv, b[1])
            if nm is None:
                return None
            (a[1], a[2]), (b[2]) = (b[1], b[2]), nm
            return k
        if k == "moveout":
            ds = [e for e in ents if e[3] == "d" and e[1] != e[0] and [c for c in ents if c[1] == e[0]]]
            if ds:
                d = rng.choice(ds)
                c = rng.choice([c for c in ents if c[1] == d[0]])
                used = {x[2] for x in inv if x[1] == d[1]}
                if c[2] in used:
                    return None
                c[1] = d[1]
                gone = _desc(inv, d[0]) | {d[0]}
                inv[:] = [x for x in inv if x[0] not in gone]
                return k
        return None


def gen_case(rng, n=None, focus=None, plain=None, nasty=0.25, nnames=None, linear=False, nodirmove=False):
    """One history.  `focus`: an edit kind used for most edits (None = mixed).
    `nasty`: probability of drawing metadata/names from the 'normalised by the format' pools."""
    n = n or rng.choice([2, 2, 3, 3, 4, 5, 6])
    use_nasty = rng.random() < nasty
    if nnames is None:
        nnames = len(NAMES) if rng.random() < 0.4 else PLAIN_NAMES
    S = []
    tg = TreeGen(rng, nnames, S)

    def s(v):
        return tg.s(v)
    idents = IDENTS if use_nasty else IDENTS[:GOOD_IDENTS]
    revs = []
    for i in range(n):
        if i == 0 or (not linear and rng.random() < 0.04):
            ps = []
            inv = []
            for _ in range(rng.choice([1, 2, 3, 4, 6])):
                tg.new_entry(inv)
        else:
            left = i - 1 if (linear or rng.random() < 0.6) else rng.randrange(max(0, i - 4), i)
            ps = [left]
            if not linear and rng.random() < 0.3 and i >= 2:
                pool = [x for x in range(max(0, i - 5), i) if x != left]
                rng.shuffle(pool)
                ps.extend(pool[:1 if rng.random() < 0.8 else 2])
            inv = [list(e) for e in revs[left]["inv"]]
            for _ in range(rng.choice([0, 1, 1, 1, 2, 2, 3])):
                for _try in range(4):
                    keep = [list(e) for e in inv]
                    if tg.op(inv, focus if (focus and rng.random() < 0.7) else None):
                        if nodirmove and _dir_moved(revs[left]["inv"], inv):
                            inv[:] = keep
                            continue
                        break
        committer = s(rng.choice(idents))
        authors = []
        r = rng.random()
        if r < 0.2:
            authors = [s(rng.choice(idents))]
        elif r < 0.3:
            authors = [s(rng.choice(idents)), s(rng.choice(idents))]
        ts4 = rng.choice([4000, 4 * 1700000000, 0, -40]) + 4 * i
        tz = rng.choice([0, 0, 3600, -18000, 19800, 50400, -43200])
        if use_nasty and rng.random() < 0.4:
            ts4 += rng.choice([1, 2, 3])
        if use_nasty and rng.random() < 0.4:
            tz += rng.choice([30, -30, 59, 1])
        revs.append({"parents": ps, "inv": inv, "committer": committer, "authors": authors,
                     "ts4": ts4, "tz": tz, "msg": s(rng.choice(MSGS))})
    tags = []
    tagpool = TAGS if use_nasty else TAGS[:GOOD_TAGS]
    # revisions in the tip's ancestry that are NOT on its left-hand history (merged side branches)
    anc, todo = set(), [n - 1]
    while todo:
        r = todo.pop()
        if r not in anc:
            anc.add(r)
            todo.extend(revs[r]["parents"])
    main, r = set(), n - 1
    while r is not None:
        main.add(r)
        r = revs[r]["parents"][0] if revs[r]["parents"] else None
    side = sorted(anc - main)
    for _ in range(rng.choice([0, 1, 2, 3]) if not side else rng.choice([1, 2, 3])):
        t = s(rng.choice(tagpool))
        if t not in [x[0] for x in tags]:
            if side and rng.random() < 0.6:
                tags.append([t, rng.choice(side)])
            else:
                tags.append([t, rng.randrange(n) if rng.random() < 0.9 else -1])
    if plain is None:
        plain = 1 if rng.random() < 0.8 else 0
    return {"plain": plain, "rewrite": int(rng.random() < 0.4), "no_tags": int(rng.random() < 0.1),
            "chunk": rng.choice([0, 0, 1, 2, 3]), "checkpoint": rng.choice([0, 0, 1, 2, 3]),
            "names": list(NAMES[:nnames]), "strings": S, "revs": revs, "tip": n - 1, "tags": tags}
