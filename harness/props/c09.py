"""C09 -- Working trees behave like an abstract versioned file system (tie H, refinement run).

An input is {"fmt": "bzr"|"git", "ops": [op, ...]}; paths are "/"-joined single-letter names.
Ops (JSON lists):
  ["add", p]            wt.add([p])
  ["mkdir", p]          wt.mkdir(p)
  ["rmk", p]            wt.remove([p], keep_files=True)
  ["rmf", p]            wt.remove([p], keep_files=False, force=True)
  ["ren", p, q]         wt.rename_one(p, q)
  ["mv", p, d]          wt.move([p], d)
  ["mvn", [p1,..], d]   wt.move([p1,..], d)          (multi-source move)
  ["sadd", p]           wt.smart_add([abspath(p)])   (only modelled for a regular file whose parent is versioned)
  ["put", p, c]         wt.put_file_bytes_non_atomic(p, CONTENTS[c])
  ["chmod", p, x]       os.chmod(abspath(p), 0o755 if x else 0o644)   (the "mode edit" of the statement, through the OS)
  ["osrm", p]           delete p from disk behind the tree's back (unlink / rmtree)
  ["osmkdir", p]        os.mkdir(abspath(p)) behind the tree's back
  ["commit"]  ["revert"]  ["reopen"]
After every op the driver observes [status, versioned view, iter_changes against the basis tree];
every 5th op (and on "reopen") the tree object is dropped and WorkingTree.open()ed again first.
With {"one_lock": true} the whole sequence runs inside ONE wt.lock_write() (released only around a "reopen"
op), so reads see the tree's cached in-memory inventory; in every mode each observation also cross-checks the
inventory-backed read APIs (all_versioned_paths, iter_entries_by_dir, list_files, stored_kind,
iter_child_entries) against the dirstate/index-backed ones (is_versioned, path2id).
"""
import os
import shutil
import stat

from vlib import Tag, Err, coq_bytes

PROP = "C09"
NAMES = "abcdef"
CONTENTS = [b"", b"x\n", b"y\n", b"x\ny\n"]
_st = {}


# --------------------------------------------------------------------------
# implementation driver
# --------------------------------------------------------------------------

def setup(scratch):
    import breezy
    import breezy.bzr  # noqa
    import breezy.git  # noqa
    from breezy import controldir
    import logging
    logging.getLogger("brz").setLevel(logging.CRITICAL)
    os.environ.setdefault("BRZ_EMAIL", "verif <verif@example.com>")
    _st["dir"] = scratch
    _st["n"] = 0
    _st["tmpl"] = {}
    for fmt, reg in (("bzr", "2a"), ("git", "git")):
        p = os.path.join(scratch, "tmpl-" + fmt)
        controldir.ControlDir.create_standalone_workingtree(
            p, format=controldir.format_registry.make_controldir(reg))
        _st["tmpl"][fmt] = p


def _ensure():
    if os.path.isdir(_st.get("dir", "")) and os.path.isdir(_st["tmpl"]["bzr"]):
        return
    import atexit
    import tempfile
    d = tempfile.mkdtemp(prefix="verif-c09-", dir=os.environ.get("TMPDIR") or "/tmp")
    atexit.register(shutil.rmtree, d, True)
    setup(d)


def _new_tree(fmt):
    _ensure()
    _st["n"] += 1
    base = os.path.join(_st["dir"], "t%d" % _st["n"])
    shutil.copytree(_st["tmpl"][fmt], base, symlinks=True)
    return base


def _kind_on_disk(abspath):
    try:
        st = os.lstat(abspath)
    except OSError:
        return None, None
    if stat.S_ISDIR(st.st_mode):
        return "directory", st
    if stat.S_ISREG(st.st_mode):
        return "file", st
    return "other", st


def _observe(wt, fmt):
    """[versioned view, changes against basis]."""
    view = []
    with wt.lock_read():
        for p in sorted(wt.all_versioned_paths()):
            if p == "":
                continue
            try:
                k = wt.kind(p)
            except Exception as e:       # NoSuchFile for a missing file
                k = None
            if k == "file":
                view.append([p, Tag("file"), wt.get_file_text(p), bool(wt.is_executable(p))])
            elif k is None:
                view.append([p, Tag("missing"), b"", False])
            else:
                view.append([p, Tag(k), b"", False])
        basis = wt.basis_tree()
        changes = []
        try:
            with basis.lock_read():
                raw = list(wt.iter_changes(basis))
        except Exception as e:
            changes = Err(type(e).__name__)
        else:
            modified = {c.path[0] for c in raw if c.path[0] is not None and c.path[0] == c.path[1]}
            for c in raw:
                changes.extend(_canon_change(c, fmt, modified))
            changes.sort(key=lambda r: ((r[0] or ""), (r[1] or ""), repr(r)))
    vset = {r[0] for r in view}
    extras = [r for r in _disk_listing(wt.basedir) if r[0] not in vset]
    return view, changes, extras


def _coherence(wt, ops_paths):
    """True, or a Tag naming the first disagreement between the read APIs of ONE tree object (same lock)."""
    try:
        with wt.lock_read():
            a = {p for p in wt.all_versioned_paths() if p != ""}
            b = {p for p, _ie in wt.iter_entries_by_dir() if p != ""}
            c = {t[0] for t in wt.list_files(include_root=False, recursive=True) if t[1] == "V"}
            universe = set(a) | b | c | set(ops_paths)
            for p in list(universe):
                while "/" in p:
                    p = p.rsplit("/", 1)[0]
                    universe.add(p)
            universe.discard("")
            d = {p for p in universe if wt.is_versioned(p)}
            e = {p for p in universe if wt.path2id(p) is not None}
            on_disk = {p for p in a if os.path.lexists(wt.abspath(p))}      # list_files only lists what is on disk
            if getattr(wt, "index", None) is not None:
                # git: directories are implied and an index entry whose disk kind changed is not listed:
                # only require that everything list_files calls versioned is versioned and on disk
                on_disk = c & on_disk
            if c != on_disk:
                return Tag("incoherent: list_files=%r but the versioned paths on disk are %r" % (sorted(c), sorted(on_disk)))
            for name, got in (("iter_entries_by_dir", b), ("is_versioned", d), ("path2id", e)):
                if got != a:
                    return Tag("incoherent: all_versioned_paths=%r but %s=%r" % (sorted(a), name, sorted(got)))
            for p in sorted(a):
                try:
                    sk = wt.stored_kind(p)
                except Exception as ex:
                    return Tag("incoherent: stored_kind(%r) raised %s" % (p, type(ex).__name__))
                if sk == "directory":
                    kids = {(p + "/" + ie.name) for ie in wt.iter_child_entries(p)}
                    want = {q for q in a if q.rsplit("/", 1)[0] == p and "/" in q}
                    if kids != want:
                        return Tag("incoherent: iter_child_entries(%r)=%r but all_versioned_paths has %r" % (p, sorted(kids), sorted(want)))
    except Exception as ex:
        return Tag("incoherent: read API raised %s" % type(ex).__name__)
    return True


def _disk_listing(base):
    """every path on disk below the tree root except the control directory: [path, kind, bytes, exec]"""
    out = []
    for dp, dn, fn in os.walk(base):
        rel = os.path.relpath(dp, base)
        rel = "" if rel == "." else rel
        if rel == "":
            dn[:] = [d for d in dn if d not in (".bzr", ".git")]
        for n in dn:
            out.append([(rel + "/" if rel else "") + n, Tag("directory"), b"", False])
        for n in fn:
            p = os.path.join(dp, n)
            st = os.lstat(p)
            with open(p, "rb") as f:
                data = f.read()
            out.append([(rel + "/" if rel else "") + n, Tag("file"), data, bool(st.st_mode & 0o100)])
    out.sort(key=lambda r: r[0])
    return out


def _k(k):
    return None if k is None else Tag(k)


def _canon_change(c, fmt, modified=()):
    p0, p1 = c.path
    if p0 == "" or p1 == "":
        if p0 == p1 and not c.changed_content and c.versioned == (True, True):
            return []          # unchanged root never reported; a changed root is kept
    row = lambda a, b, cc, v, k, e: [a, b, bool(cc), bool(v[0]), bool(v[1]), _k(k[0]), _k(k[1]),
                                     None if e[0] is None else bool(e[0]), None if e[1] is None else bool(e[1])]
    if fmt == "git" and p0 is not None and p1 is not None and p0 != p1:
        # dulwich's similarity-based rename detection is presentation, not tree state: report a
        # detected rename as the removal + addition it was derived from (git identity = path)
        add = row(None, p1, True, (False, True), (None, c.kind[1]), (None, c.executable[1]))
        if getattr(c, "copied", False) or p0 in modified:
            return [add]       # the source is still there (reported separately when it changed)
        return [row(p0, None, True, (True, False), (c.kind[0], None), (c.executable[0], None)), add]
    return [row(p0, p1, c.changed_content, c.versioned, c.kind, c.executable)]


class _NotAFile(Exception):
    pass


def _apply(wt, base, op):
    kind = op[0]
    if kind == "add":
        wt.add([op[1]])
    elif kind == "mkdir":
        wt.mkdir(op[1])
    elif kind == "rmk":
        wt.remove([op[1]], keep_files=True)
    elif kind == "rmf":
        wt.remove([op[1]], keep_files=False, force=True)
    elif kind == "ren":
        wt.rename_one(op[1], op[2])
    elif kind == "mv":
        wt.move([op[1]], op[2])
    elif kind == "mvn":
        wt.move(list(op[1]), op[2])
    elif kind == "sadd":
        wt.smart_add([os.path.join(base, op[1])])
    elif kind == "put":
        wt.put_file_bytes_non_atomic(op[1], CONTENTS[op[2]])
    elif kind == "chmod":
        p = os.path.join(base, op[1])
        if _kind_on_disk(p)[0] != "file":
            raise _NotAFile()          # driver-level guard: mode edits are only applied to regular files
        os.chmod(p, 0o755 if op[2] else 0o644)
    elif kind == "osrm":
        p = os.path.join(base, op[1])
        k, _ = _kind_on_disk(p)
        if k is None:
            raise FileNotFoundError(p)     # (ENOTDIR below a file is reported the same way)
        if k == "directory":
            shutil.rmtree(p)
        else:
            os.unlink(p)
    elif kind == "osmkdir":
        os.mkdir(os.path.join(base, op[1]))
    elif kind == "commit":
        wt.commit("c", allow_pointless=True)
    elif kind == "revert":
        wt.revert(backups=False)
    elif kind == "reopen":
        pass
    else:
        raise AssertionError(op)


def _ops_paths(ops):
    out = set()
    for op in ops:
        for x in op[1:]:
            if isinstance(x, str):
                out.add(x)
            elif isinstance(x, list):
                out.update(x)
        if op[0] in ("mv", "mvn"):
            for src in ([op[1]] if op[0] == "mv" else op[1]):
                out.add((op[2] + "/" if op[2] else "") + src.rsplit("/", 1)[-1])
    out.discard("")
    return out


def run_ops(fmt, ops, reopen_every=5, trace=None, one_lock=False):
    from breezy.workingtree import WorkingTree
    base = _new_tree(fmt)
    out = []
    paths = _ops_paths(ops)
    locked = [None]

    def lock(wt):
        if one_lock:
            locked[0] = wt.lock_write()

    def unlock():
        if locked[0] is not None:
            lk, locked[0] = locked[0], None
            lk.unlock()

    try:
        wt = WorkingTree.open(base)
        lock(wt)
        for i, op in enumerate(ops):
            try:
                _apply(wt, base, op)
                status = Tag("ok")
            except BaseException as e:   # pyo3 panics are BaseException
                if isinstance(e, (KeyboardInterrupt, SystemExit, AssertionError)) and op[0] not in (
                        "add", "mkdir", "rmk", "rmf", "ren", "mv", "mvn", "sadd", "put", "commit", "revert"):
                    raise
                status = Err(type(e).__name__.lstrip("_"))
                if trace is not None:
                    trace.append((i, op, repr(e)))
                if not one_lock and wt.is_locked():       # a failed op must not leave the tree locked
                    raise AssertionError("tree left locked by failing %r" % (op,))
            pre = None
            if op[0] == "reopen" or (not one_lock and (i + 1) % reopen_every == 0):
                pre = _observe(wt, fmt)
                unlock()
                del wt
                wt = WorkingTree.open(base)
                lock(wt)
            view, changes, extras = _observe(wt, fmt)
            same = True if pre is None else (pre == (view, changes, extras))
            if same is True:
                same = _coherence(wt, paths)
            elif same is False:
                same = Tag("state differs after WorkingTree.open")
            out.append([status, view, changes, extras, same])
        unlock()
        return out
    finally:
        try:
            unlock()
        except Exception:
            pass
        shutil.rmtree(base, ignore_errors=True)


def impl(inp):
    try:
        return run_ops(inp["fmt"], inp["ops"], reopen_every=inp.get("reopen_every", 5), one_lock=bool(inp.get("one_lock")))
    except AssertionError:
        raise
    except Exception as e:      # an exception escaping an *observation* (not an op) is a driver error
        raise


# --------------------------------------------------------------------------
# framework interface
# --------------------------------------------------------------------------

COQ = {"property_file": "Properties/C09.v",
       "imports": "From BV Require Import Model.WT."}
META = {
    "level": "translation_validation",
    "title": "Working trees behave like an abstract versioned file system",
    "technique": ("refinement run: differential operation sequences on real dirstate (2a) and git working trees "
                  "against a Coq specification machine (vm_compute), plus Coq laws of the specification"),
    "level_text": ("A short abstract specification machine {disk; versioned tree; basis} with a per-format parameter "
                   "(dirstate ids / git paths) is defined in Coq; its laws (every operation keeps the versioned tree valid "
                   "for arbitrary sequences, status is sound and complete, commit-then-clean, revert-restores-basis, "
                   "re-open identity) are machine-checked. The implementation is tied to the machine only by differential "
                   "operation sequences (<=25 ops over <=6 names) on real trees: after every operation the error class, all "
                   "versioned paths with kind/bytes/exec bit, iter_changes against the basis and the unversioned disk content "
                   "are compared; every 5th operation the tree is closed and re-opened."),
    "level_note": ("Not a proof about breezy: bounded sampling of operation sequences. Trusted: Coq kernel, vm_compute, "
                   "the driver/canonicaliser in harness/props/c09.py (git rename/copy detection rows are split into "
                   "add+delete), the Python mirror only for generator steering and for locating 'unmodelled' steps. "
                   "After the repair round (175898e, aa28d9a, 1cfde6e, 42c6067) a failed OS rename is a BzrMoveFailedError in both "
                   "formats, git status/commit tolerate a directory replaced by a file and git commit keeps the source of a copy; "
                   "five findings remain known (notes/C09.md)."),
    "design_ref": "DESIGN.md §5 C09",
    "trusted_base": ["hand-written specification coq/Model/WT.v", "correspondence harness harness/props/c09.py",
                     "POSIX file system semantics of the scratch directory (rename into own subtree = EINVAL, ENOENT/ENOTDIR)"],
    "assumptions": ["case-sensitive POSIX file system, umask 022, process may chmod files",
                    "bzrformats dirstate and dulwich index/object store persist what they are given (exercised by the re-open steps)",
                    "dulwich RenameDetector only pairs added entries with deleted/modified ones (its output is canonicalised away)",
                    "no symlinks, no nested trees, no content filters, no ignore rules"],
    "rule": ("seeded random operation sequences steered to be mostly valid (about 70% of refused operations are re-drawn), "
             "length 8..25, <=6 names, depth <=3, both formats; non-trivial = at least one commit and 5 successful mutations"),
}
SHARD = 20

_FMT = {"bzr": "Bzr", "git": "Git"}


def _coq_path(p):
    if p == "":
        return "[]"
    return "[" + "; ".join(coq_bytes(seg.encode()) for seg in p.split("/")) + "]"


def _coq_op(op):
    k = op[0]
    if k == "add": return f"OAdd {_coq_path(op[1])}"
    if k == "mkdir": return f"OMkdir {_coq_path(op[1])}"
    if k == "rmk": return f"ORemoveKeep {_coq_path(op[1])}"
    if k == "rmf": return f"ORemoveForce {_coq_path(op[1])}"
    if k == "ren": return f"ORename {_coq_path(op[1])} {_coq_path(op[2])}"
    if k == "mv": return f"OMove {_coq_path(op[1])} {_coq_path(op[2])}"
    if k == "mvn": return f"OMoveN [{'; '.join(_coq_path(x) for x in op[1])}] {_coq_path(op[2])}"
    if k == "sadd": return f"OSmartAdd {_coq_path(op[1])}"
    if k == "put": return f"OPut {_coq_path(op[1])} {coq_bytes(CONTENTS[op[2]])}"
    if k == "chmod": return f"OChmod {_coq_path(op[1])} {'true' if op[2] else 'false'}"
    if k == "osrm": return f"OOsRm {_coq_path(op[1])}"
    if k == "osmkdir": return f"OOsMkdir {_coq_path(op[1])}"
    return {"commit": "OCommit", "revert": "ORevert", "reopen": "OReopen"}[k]


def _stale_cut(inp):
    """one-lock dirstate sequences: index of the first FAILED rename_one of a path that only the basis knows
    (known finding C09-bzr-rename-failed-stale-inventory: the re-added entry stays in the cached inventory until
    unlock).  The specification has no cached inventory, so model and implementation are compared up to that step
    only; the oracle still sees the whole observation."""
    if inp["fmt"] != "bzr" or not inp.get("one_lock"):
        return None
    from props import _c09_mirror as M
    s = M.St("bzr")
    for i, op in enumerate(inp["ops"]):
        t = s.copy()
        e = M.step(t, op)
        if e == "Unmodelled":
            return None
        if (op[0] == "ren" and e is not None and M.path2id(s.inv, M.P(op[1])) is None
                and any(b[0] == M.P(op[1]) for b in s.basis.values())):
            return i
        s = t if e is None else s
        if e is not None:
            M.step(s, op)        # (mkdir keeps its directory on a refusal)
    return None


def model_term(inp):
    ops = inp["ops"]
    cut = _stale_cut(inp)
    if cut is not None:
        ops = ops[:cut]
    # the model's reopen is the identity, so the forced re-opens need no op of their own
    return f"run_case {_FMT[inp['fmt']]} [" + "; ".join(_coq_op(o) for o in ops) + "]"


def _mirror_run(inp):
    """(index of the first step the mirror calls unmodelled or None, list of per-step mirror errors)"""
    from props import _c09_mirror as M
    s = M.St(inp["fmt"])
    errs = []
    for i, op in enumerate(inp["ops"]):
        e = M.step(s, op)
        if e == "Unmodelled":
            return i, errs
        errs.append(e)
    return None, errs


def impl_obs(inp, obs):
    """The part of the observation the model predicts: everything up to the first step that lies outside
    the modelled domain (the model prints OT "unmodelled" there and stops)."""
    if isinstance(obs, Err):
        return obs
    stale = _stale_cut(inp)
    if stale is not None:
        return list(obs[:stale])
    cut, _ = _mirror_run(inp)
    if cut is None:
        return obs
    return list(obs[:cut]) + [Tag("unmodelled")]


# ------------------------------------------------------------------ generator

def _gen_ops(rng, fmt, n, names, one_lock=False):
    from props import _c09_mirror as M
    s = M.St(fmt)
    ops = []

    def anypath():
        d = rng.choice([1, 1, 1, 2, 2, 3])
        return "/".join(rng.choice(names) for _ in range(d))

    def known():
        c = [M.S(p) for p in s.disk if all(len(x) == 1 for x in p)]
        c += [M.S(e[0]) for e in s.inv.values() if e[0]] if fmt == "bzr" else [M.S(p) for p in s.index]
        return rng.choice(c) if c and rng.random() < 0.85 else anypath()

    def dirs():
        return [""] + [M.S(p) for p, nd in s.disk.items() if nd[0] == "d" and len(p) < 3 and all(len(x) == 1 for x in p)]

    def newchild():
        d = rng.choice(dirs())
        return (d + "/" if d else "") + rng.choice(names)

    weights = (["add"] * 5 + ["mkdir"] * 4 + ["rmk"] * 2 + ["rmf"] * 2 + ["ren"] * 5 + ["mv"] * 5 + ["put"] * 6 +
               ["chmod"] * 2 + ["osrm"] * 2 + ["osmkdir"] + ["commit"] * 3 + ["revert"] * 2 + ["reopen"] +
               ["mvn"] * 2 + ["sadd"] * 2)
    guard = 0
    while len(ops) < n and guard < 40 * n:
        guard += 1
        k = rng.choice(weights)
        if k in ("add", "rmk", "rmf", "osrm"):
            op = [k, known()]
        elif k in ("mkdir", "osmkdir"):
            op = [k, newchild()]
        elif k == "ren":
            src = rng.choice(dirs()[1:] or [known()]) if rng.random() < 0.4 else known()
            op = [k, src, newchild() if rng.random() < 0.8 else known()]
        elif k == "mv":
            src = rng.choice(dirs()[1:] or [known()]) if rng.random() < 0.4 else known()
            op = [k, src, rng.choice(dirs()) if rng.random() < 0.85 else known()]
        elif k == "mvn":
            op = [k, [known() for _ in range(rng.choice([0, 1, 2, 2, 3]))], rng.choice(dirs())]
        elif k == "sadd":
            files = [M.S(p) for p, nd in s.disk.items() if nd[0] == "f" and all(len(x) == 1 for x in p)]
            if not files:
                continue
            op = [k, rng.choice(files)]
        elif k == "put":
            op = [k, newchild() if rng.random() < 0.5 else known(), rng.randrange(len(CONTENTS))]
        elif k == "chmod":
            op = [k, known(), rng.random() < 0.6]
        else:
            op = [k]
        if any(x == "" for x in op[1:2]) or (k == "mvn" and "" in op[1]):
            continue
        t = s.copy()
        try:
            e = M.step(t, op)
        except Exception:
            continue
        if one_lock and fmt == "bzr":
            # inside one lock two more (reported) defects of the unchanged code become visible; the one-lock
            # sequences stay clear of them: add below an unversioned directory whose dirblock is still in memory
            # (C09-bzr-add-under-removed); a FAILED rename_one of a path that only the basis knows leaves the
            # re-added entry in the cached inventory (known finding C09-bzr-rename-failed-stale-inventory):
            # such a sequence ends there
            if e == "NotVersionedError" and k in ("add", "mkdir", "sadd"):
                continue
            if k == "ren" and e is not None and M.path2id(s.inv, M.P(op[1])) is None and any(
                    b[0] == M.P(op[1]) for b in s.basis.values()):
                ops.append(op)      # the comparison with the model ends here (see _stale_cut); the oracle goes on
                ops.append(["reopen"])
                break
        if e == "Unmodelled":
            if rng.random() < 0.9:
                continue            # a few sequences end in an unmodelled step on purpose
            ops.append(op)
            break
        if e is not None and rng.random() < 0.7:
            continue
        M.step(s, op)
        ops.append(op)
    return ops


# fixed regression inputs: scenarios named in the property record + finding witnesses
_CORPUS = [
    # rename into a removed directory / re-add after remove / kind change then revert (properties.jsonl "why")
    ("bzr", [["mkdir", "d"], ["put", "a", 1], ["add", "a"], ["commit"], ["rmk", "d"], ["ren", "a", "d/a"], ["add", "d"], ["ren", "a", "d/a"], ["commit"]]),
    ("bzr", [["put", "a", 1], ["add", "a"], ["commit"], ["rmk", "a"], ["add", "a"], ["commit"], ["rmf", "a"], ["put", "a", 2], ["add", "a"], ["revert"]]),
    ("bzr", [["put", "a", 1], ["add", "a"], ["commit"], ["osrm", "a"], ["osmkdir", "a"], ["revert"], ["osrm", "a"], ["osmkdir", "a"], ["commit"], ["revert"]]),
    ("git", [["put", "a", 1], ["add", "a"], ["commit"], ["osrm", "a"], ["osmkdir", "a"], ["revert"]]),
    ("bzr", [["mkdir", "a"], ["mkdir", "a/b"], ["put", "a/b/c", 1], ["add", "a/b/c"], ["commit"], ["ren", "a", "d"], ["chmod", "d/b/c", True], ["put", "d/b/c", 2], ["mv", "d/b", ""], ["revert"]]),
    ("git", [["osmkdir", "a"], ["osmkdir", "a/b"], ["put", "a/b/c", 1], ["add", "a/b/c"], ["commit"], ["ren", "a", "d"], ["chmod", "d/b/c", True], ["commit"], ["rmf", "d"], ["revert"]]),
    ("bzr", [["put", "a", 1], ["add", "a"], ["commit"], ["ren", "a", "b"], ["put", "a", 2], ["ren", "a", "c"], ["commit"]]),
    ("bzr", [["put", "a", 1], ["add", "a"], ["commit"], ["rmk", "a"], ["ren", "a", "b"], ["commit"], ["revert"]]),
    # findings (see notes/C09.md); each must agree with the model.  The witnesses of the four REPAIRED findings
    # (oserror-subscript, git-oserror, git-notadir, git-commit-copy) are regression inputs that must now pass.
    ("bzr", [["mkdir", "a"], ["mkdir", "a/b"], ["ren", "a", "a/b/c"], ["mv", "a", "a/b"]]),                                   # C09-bzr-oserror-subscript
    ("bzr", [["mkdir", "a"], ["put", "c", 1], ["add", "c"], ["osrm", "a"], ["ren", "c", "a/c"]]),                            # C09-bzr-oserror-subscript
    ("bzr", [["mkdir", "d"], ["put", "d/x", 1], ["add", "d/x"], ["commit"], ["rmk", "d"], ["put", "d/y", 2], ["add", "d/y"]]),  # C09-bzr-add-under-removed
    ("git", [["osmkdir", "c"], ["put", "c/b", 1], ["add", "c/b"], ["commit"], ["rmf", "c/b"], ["revert"]]),                   # C09-git-revert-keyerror
    ("git", [["osmkdir", "d"], ["put", "d/x", 1], ["add", "d/x"], ["commit"], ["osrm", "d"], ["put", "d", 1], ["reopen"]]),    # C09-git-notadir
    ("git", [["put", "b", 1], ["add", "b"], ["osrm", "b"], ["osmkdir", "b"], ["commit"], ["reopen"]]),                        # C09-git-commit-dirified
    ("git", [["put", "a", 2], ["add", "a"], ["commit"], ["put", "d", 2], ["add", "d"], ["put", "a", 0], ["revert"]]),          # C09-git-revert-rename-detect
    ("git", [["mkdir", "a"], ["mkdir", "a/b"], ["ren", "a", "a/b/c"]]),                                                     # C09-git-oserror
    ("git", [["put", "a", 1], ["add", "a"], ["commit"], ["put", "b", 1], ["add", "b"], ["put", "a", 2], ["commit"], ["reopen"]]),  # C09-git-commit-copy
    ("bzr", [["mkdir", "d"], ["put", "d/f", 3], ["add", "d/f"], ["commit"], ["rmf", "d"], ["ren", "d/f", "c"]]),             # C09-bzr-rename-removed-inconsistent
    ("git", [["osmkdir", "d"], ["put", "d/x", 1], ["add", "d/x"], ["commit"], ["osrm", "d"], ["put", "d", 1], ["revert"]]),     # C09-git-revert-notadir
    # file renamed inside a directory that is itself renamed / moved, then revert (both orders)
    ("bzr", [["mkdir", "d"], ["put", "d/x", 1], ["add", "d/x"], ["put", "d/k", 2], ["add", "d/k"], ["commit"],
             ["ren", "d/x", "d/z"], ["ren", "d", "e"], ["revert"], ["reopen"]]),
    ("bzr", [["mkdir", "d"], ["mkdir", "d/s"], ["put", "d/s/x", 1], ["add", "d/s/x"], ["mkdir", "e"], ["commit"],
             ["mv", "d/s", "e"], ["ren", "e/s/x", "e/s/z"], ["put", "e/s/z", 2], ["revert"], ["reopen"]]),
]
# one tree lock around the whole sequence: reads go through the cached in-memory inventory
_CORPUS_ONE_LOCK = [
    [["mvn", ["a/e", "d/f"], "a/b"], ["put", "a/e", 1], ["sadd", "a/e"], ["reopen"]],
    [["mv", "a", "d"], ["put", "a", 2], ["sadd", "a"], ["mv", "d/a/b", ""], ["reopen"], ["commit"], ["reopen"]],
    [["mvn", ["a/b", "a/e"], "d"], ["mkdir", "a/b"], ["put", "a/b/c", 2], ["add", "a/b/c"], ["rmk", "d/b"], ["reopen"], ["revert"]],
]


def corpus():
    out = [{"fmt": f, "ops": o} for f, o in _CORPUS]
    out.append({"fmt": "bzr", "one_lock": True,                                      # C09-bzr-rename-failed-stale-inventory
                "ops": [["put", "b", 1], ["add", "b"], ["commit"], ["rmk", "b"], ["put", "c", 2], ["ren", "b", "c"], ["reopen"]]})
    for fmt in ("bzr", "git"):
        for o in _CORPUS_ONE_LOCK:
            out.append({"fmt": fmt, "ops": _PRELUDE + o, "one_lock": True})
    return out


_PRELUDE = [["mkdir", "a"], ["mkdir", "a/b"], ["put", "a/b/c", 1], ["add", "a/b/c"], ["put", "a/e", 2], ["add", "a/e"],
            ["mkdir", "d"], ["put", "d/f", 3], ["add", "d/f"], ["commit"]]
_PATHS = ["a", "a/b", "a/b/c", "a/e", "d", "d/f"]


def _structured():
    """single structural operations on a committed three-level tree (exhaustive over sources and targets)"""
    mids = []
    for x in _PATHS:
        for dd in ("", "a", "a/b", "d"):
            mids.append([["mv", x, dd]])
        for y in ("c", "a/c", "d/c", "a/b/d", "d/f"):
            mids.append([["ren", x, y]])
        mids.append([["rmk", x]])
        mids.append([["rmf", x]])
        mids.append([["osrm", x], ["add", x]])
        # "already moved behind the tree's back": the source is gone from disk, the target exists unversioned
        mk = (lambda q: ["osmkdir", q]) if x in ("a", "a/b", "d") else (lambda q: ["put", q, 1])
        base = x.rsplit("/", 1)[-1]
        mids.append([["osrm", x], mk("c"), ["ren", x, "c"]])
        for dd in ("", "d"):
            tgt = (dd + "/" if dd else "") + base
            if tgt != x and not (dd + "/").startswith(x + "/"):
                mids.append([["osrm", x], mk(tgt), ["mv", x, dd]])
    return mids


_TAILS = [[["commit"], ["reopen"], ["revert"]],
          [["revert"], ["commit"]],
          [["put", "a/b/c", 2], ["chmod", "a/e", True], ["commit"], ["revert"]],
          [["put", "d/c", 0], ["add", "d/c"], ["revert"]]]


def _double_renames():
    """a file renamed INSIDE its directory + that directory (or an ancestor) renamed or moved, in either order,
    optionally with a content/mode edit: every change row of the revert then has a parent that no longer lives at its
    basis path (the shapes single renames / moves into another directory do not reach)"""
    out = []
    dir_ops = {"a": [["ren", "a", "c"], ["mv", "a", "d"]],
               "a/b": [["ren", "a/b", "a/c"], ["mv", "a/b", "d"], ["mv", "a/b", ""]],
               "d": [["ren", "d", "c"], ["mv", "d", "a"], ["mv", "d", "a/b"]]}
    files = {"a/e": ["a"], "a/b/c": ["a/b", "a"], "d/f": ["d"]}

    def new_path(path, op):
        src = op[1]
        dst = op[2] if op[0] == "ren" else (op[2] + "/" if op[2] else "") + src.rsplit("/", 1)[-1]
        return dst + path[len(src):] if (path == src or path.startswith(src + "/")) else path

    for f, ds in files.items():
        for dd in ds:
            for dop in dir_ops[dd]:
                z = f.rsplit("/", 1)[0] + "/z"
                # file first, then the directory
                out.append(([["ren", f, z], dop], new_path(z, dop)))
                # directory first, then the file at its new place
                out.append(([dop, ["ren", new_path(f, dop), new_path(z, dop)]], new_path(z, dop)))
    return out


def cases(rng, tier):
    mids = _structured()
    # (0) double renames (file inside a renamed/moved directory) followed by revert; dirstate: all, git: a sample
    dr = _double_renames()
    for i, (m, zf) in enumerate(dr):
        tail = [["revert"], ["reopen"]]
        yield {"fmt": "bzr", "ops": _PRELUDE + m + tail}
        if tier != "quick" or i % 3 == 0:
            yield {"fmt": "git", "ops": _PRELUDE + m + tail}
        if tier != "quick" or i % 2 == 1:
            yield {"fmt": "bzr", "ops": _PRELUDE + m + [["put", zf, 0], ["chmod", zf, True]] + tail}
        if tier != "quick" or i % 4 == 1:
            yield {"fmt": "bzr", "one_lock": True, "ops": _PRELUDE + m + tail}
    # (1) every single structural op (exhaustive over sources and targets); quick: one tail each, in rotation;
    #     thorough: every tail
    if tier == "quick":
        combos = [(m, _TAILS[i % len(_TAILS)]) for i, m in enumerate(mids)]
    else:
        combos = [(m, t) for m in mids for t in _TAILS]
    for fmt in ("bzr", "git"):
        for m, t in combos:
            yield {"fmt": fmt, "ops": _PRELUDE + m + t}
    # (2) two interacting structural ops (rename into a removed directory, re-add after remove, ...)
    npairs = 10 if tier == "quick" else 120
    for _ in range(npairs):
        m1, m2 = rng.choice(mids), rng.choice(mids)
        for fmt in ("bzr", "git"):
            yield {"fmt": fmt, "ops": _PRELUDE + m1 + m2 + rng.choice(_TAILS)}
    # (3) random sequences steered by the mirror
    n = 15 if tier == "quick" else 120
    for i in range(n):
        for fmt in ("bzr", "git"):
            names = NAMES[: rng.choice([3, 4, 4, 6])]
            yield {"fmt": fmt, "ops": _gen_ops(rng, fmt, rng.randint(8, 25), names)}
    # (4) the same kinds of sequences inside ONE tree lock (cached in-memory inventory / index stay alive between
    #     the operations; every observation cross-checks inventory-backed against dirstate/index-backed reads):
    #     every move / multi-source move / rename / remove group followed by a re-add at the vacated path, and
    #     random sequences
    locked = []
    for x in _PATHS:
        kindx = "d" if x in ("a", "a/b", "d") else "f"
        refill = [["osmkdir", x]] if kindx == "d" else [["put", x, 2], ["sadd", x]]
        for dd in ("", "a", "a/b", "d"):
            locked.append([["mv", x, dd]] + refill + [["reopen"]])
        locked.append([["ren", x, "c"]] + refill + [["reopen"], ["revert"]])
        locked.append([["rmk", x]] + refill + [["reopen"]])
    for srcs, dd in ((["a/e", "d/f"], "a/b"), (["a/b", "a/e"], "d"), (["a/b/c", "a/e", "d/f"], ""), (["d", "a/e"], "a/b"),
                     (["a/e", "nonexistent", "d/f"], "a/b"), ([], "d")):
        locked.append([["mvn", srcs, dd], ["put", "a/e", 1], ["sadd", "a/e"], ["reopen"], ["commit"]])
    if tier == "quick":
        locked = locked[::2] + locked[1::8]
    for fmt in ("bzr", "git"):
        for m in locked:
            yield {"fmt": fmt, "ops": _PRELUDE + m, "one_lock": True}
    n = 12 if tier == "quick" else 120
    for i in range(n):
        for fmt in ("bzr", "git"):
            names = NAMES[: rng.choice([3, 4, 4])]
            yield {"fmt": fmt, "ops": _gen_ops(rng, fmt, rng.randint(8, 20), names, one_lock=True), "one_lock": True}


# ------------------------------------------------------------------ the property itself, on the implementation

def _rows_by_path(view):
    return {r[0]: r for r in view}


def oracle(inp, obs):
    if isinstance(obs, Err):
        return "driver error " + str(obs)
    fmt = inp["fmt"]
    for i, (op, step) in enumerate(zip(inp["ops"], obs)):
        status, view, changes, extras, same = step
        where = f"step {i} {op}"
        # (1) the API refuses with a breezy error, never with an internal one
        if isinstance(status, Err) and str(status) in ("TypeError", "KeyError", "AttributeError", "AssertionError",
                                                      "IndexError", "ValueError", "OSError", "InconsistentDelta"):
            return f"{where}: internal error {status} instead of a refusal"
        if op[0] in ("commit", "revert") and isinstance(status, Err):
            return f"{where}: {op[0]} failed with {status}"
        # (2) status can be computed
        if isinstance(changes, Err):
            return f"{where}: iter_changes raised {changes}"
        # (3) persisted state read back after re-opening is identical
        if same is not True:
            return f"{where}: {same}"
        # (4) valid tree: parents of versioned paths are versioned
        vp = {r[0] for r in view}
        for p in vp:
            if "/" in p and p.rsplit("/", 1)[0] not in vp:
                return f"{where}: versioned {p!r} has an unversioned parent"
        # (5) status is sound and complete w.r.t. the versioned view: every path iter_changes calls versioned
        #     in the working tree is listed by all_versioned_paths, and kinds/exec bits agree with the view
        rows = _rows_by_path(view)
        for c in changes:
            p1 = c[1]
            if p1 is not None and c[4] and p1 != "":
                if p1 not in rows:
                    return f"{where}: iter_changes reports versioned {p1!r} that all_versioned_paths does not list"
                r = rows[p1]
                k = None if str(r[1]) == "missing" else str(r[1])
                if fmt == "git" and k != "directory" and c[6] is not None and str(c[6]) == "directory":
                    # git directories are implied by the index paths below them, whatever is on disk at that
                    # path: nothing, or (observable since fix 1cfde6e) an unversioned file that replaced the
                    # directory.  An index entry itself is never reported as a directory unless it is one on disk.
                    continue
                if (None if c[6] is None else str(c[6])) != k:
                    return f"{where}: iter_changes kind {c[6]} of {p1!r} differs from the tree's {r[1]}"
        # (6) commit then clean / revert restores basis
        if op[0] in ("commit", "revert") and status == "ok" and [c for c in changes if not (c[0] is None and c[1] == "")]:
            return f"{where}: status not empty after {op[0]}: {changes[:3]}"
    return None


def _mirror_at(inp, i):
    """(mirror state after step i, mirror error of step i, index of the first unmodelled step <= i or None)"""
    from props import _c09_mirror as M
    s = M.St(inp["fmt"])
    e = None
    for j, op in enumerate(inp["ops"][: i + 1]):
        e = M.step(s, op)
        if e == "Unmodelled":
            return s, e, j
    return s, e, None


def finding_matches(fid, inp, obs, why):
    """Each known finding is recognised by a predicate on the INPUT (evaluated through the mirror of the
    specification): the failing step must be one where the specification itself says the real code
    misbehaves (a modelled internal error) or leaves the modelled domain for exactly that reason."""
    import re
    from props import _c09_mirror as M
    m = re.match(r"step (\d+) ", why or "")
    if not m:
        return False
    i = int(m.group(1))
    ops = inp["ops"]
    if i >= len(ops):
        return False
    s, e, cut = _mirror_at(inp, i)
    fmt = inp["fmt"]
    cut_op = ops[cut][0] if cut is not None else None
    # (C09-bzr-oserror-subscript, C09-git-oserror, C09-git-notadir, C09-git-commit-copy are FIXED in /repo:
    #  175898e, 42c6067, 1cfde6e, aa28d9a -- their witnesses stay in corpus() and must pass)
    if fid == "C09-bzr-add-under-removed":
        return fmt == "bzr" and cut_op in ("add", "mkdir")
    if fid == "C09-git-revert-keyerror":
        return fmt == "git" and cut_op == "revert" and cut == i and "KeyError" in why
    if fid == "C09-git-revert-rename-detect":
        return fmt == "git" and cut_op == "revert" and "KeyError" not in why and "TransformRenameFailed" not in why
    if fid == "C09-bzr-rename-removed-inconsistent":
        return fmt == "bzr" and cut is None and ops[i][0] == "ren" and e == "InconsistentDelta" and "InconsistentDelta" in why
    if fid == "C09-bzr-rename-failed-stale-inventory":
        sc = _stale_cut(inp)
        return fmt == "bzr" and sc is not None and sc <= i and "incoherent" in why
    if fid == "C09-git-revert-notadir":
        return fmt == "git" and cut_op == "revert" and cut == i and M.g_notadir(s) and "TransformRenameFailed" in why
    if fid == "C09-git-commit-dirified":
        return (fmt == "git" and cut is None and ops[i][0] == "commit" and "status not empty after commit" in why
                and any(M.isdir(s.disk, p) for p in s.index))
    return False


def nontrivial(inp, obs):
    if isinstance(obs, Err):
        return False
    okc = sum(1 for op, st in zip(inp["ops"], obs) if st[0] == "ok" and op[0] not in ("reopen",))
    return okc >= 5 and any(op[0] == "commit" and st[0] == "ok" for op, st in zip(inp["ops"], obs))


def distribution(inputs, observations):
    d = {"fmt": {}, "ops": {}, "refused": {}, "unmodelled_tail": 0, "length": {}}
    for i, o in zip(inputs, observations):
        d["fmt"][i["fmt"]] = d["fmt"].get(i["fmt"], 0) + 1
        ln = str(len(i["ops"]) // 5 * 5)
        d["length"][ln] = d["length"].get(ln, 0) + 1
        if isinstance(o, Err):
            continue
        if _mirror_run(i)[0] is not None:
            d["unmodelled_tail"] += 1
        for op, st in zip(i["ops"], o):
            d["ops"][op[0]] = d["ops"].get(op[0], 0) + 1
            if st[0] != "ok":
                k = op[0] + ":" + str(st[0])
                d["refused"][k] = d["refused"].get(k, 0) + 1
    return d


def shrink(inp, fails):
    ops = list(inp["ops"])
    changed = True
    while changed:
        changed = False
        for i in range(len(ops) - 1, -1, -1):
            cand = dict(inp, ops=ops[:i] + ops[i + 1:])
            if fails(cand):
                ops = cand["ops"]
                changed = True
    return dict(inp, ops=ops)
