"""C09 -- Working trees behave like an abstract versioned file system (tie H, refinement run).

An input is {"fmt": "bzr"|"git", "ops": [op, ...]}; paths are "/"-joined single-letter names.
Ops (JSON lists):
  ["add", p]            wt.add([p])
  ["mkdir", p]          wt.mkdir(p)
  ["rmk", p]            wt.remove([p], keep_files=True)
  ["rmf", p]            wt.remove([p], keep_files=False, force=True)
  ["ren", p, q]         wt.rename_one(p, q)
  ["mv", p, d]          wt.move([p], d)
  ["put", p, c]         wt.put_file_bytes_non_atomic(p, CONTENTS[c])
  ["chmod", p, x]       os.chmod(abspath(p), 0o755 if x else 0o644)   (the "mode edit" of the statement, through the OS)
  ["osrm", p]           delete p from disk behind the tree's back (unlink / rmtree)
  ["osmkdir", p]        os.mkdir(abspath(p)) behind the tree's back
  ["commit"]  ["revert"]  ["reopen"]
After every op the driver observes [status, versioned view, iter_changes against the basis tree];
every 5th op (and on "reopen") the tree object is dropped and WorkingTree.open()ed again first.
"""
import os
import shutil
import stat

from vlib import Tag, Err, coq_bytes

PROP = "C09"
NAMES = "abcdef"
CONTENTS = [b"", b"x\n", b"y\n", b"x\ny\n"]
_st = {}


# --------------------------------------------------------------------------
# implementation driver
# --------------------------------------------------------------------------

def setup(scratch):
    import breezy
    import breezy.bzr  # noqa
    import breezy.git  # noqa
    from breezy import controldir
    import logging
    logging.getLogger("brz").setLevel(logging.CRITICAL)
    os.environ.setdefault("BRZ_EMAIL", "verif <verif@example.com>")
    _st["dir"] = scratch
    _st["n"] = 0
    _st["tmpl"] = {}
    for fmt, reg in (("bzr", "2a"), ("git", "git")):
        p = os.path.join(scratch, "tmpl-" + fmt)
        controldir.ControlDir.create_standalone_workingtree(
            p, format=controldir.format_registry.make_controldir(reg))
        _st["tmpl"][fmt] = p


def _ensure():
    if os.path.isdir(_st.get("dir", "")) and os.path.isdir(_st["tmpl"]["bzr"]):
        return
    import atexit
    import tempfile
    d = tempfile.mkdtemp(prefix="verif-c09-", dir=os.environ.get("TMPDIR") or "/tmp")
    atexit.register(shutil.rmtree, d, True)
    setup(d)


def _new_tree(fmt):
    _ensure()
    _st["n"] += 1
    base = os.path.join(_st["dir"], "t%d" % _st["n"])
    shutil.copytree(_st["tmpl"][fmt], base, symlinks=True)
    return base


def _kind_on_disk(abspath):
    try:
        st = os.lstat(abspath)
    except OSError:
        return None, None
    if stat.S_ISDIR(st.st_mode):
        return "directory", st
    if stat.S_ISREG(st.st_mode):
        return "file", st
    return "other", st


def _observe(wt, fmt):
    """[versioned view, changes against basis]."""
    view = []
    with wt.lock_read():
        for p in sorted(wt.all_versioned_paths()):
            if p == "":
                continue
            try:
                k = wt.kind(p)
            except Exception as e:       # NoSuchFile for a missing file
                k = None
            if k == "file":
                view.append([p, Tag("file"), wt.get_file_text(p), bool(wt.is_executable(p))])
            elif k is None:
                view.append([p, Tag("missing"), b"", False])
            else:
                view.append([p, Tag(k), b"", False])
        basis = wt.basis_tree()
        changes = []
        try:
            with basis.lock_read():
                raw = list(wt.iter_changes(basis))
        except Exception as e:
            changes = Err(type(e).__name__)
        else:
            modified = {c.path[0] for c in raw if c.path[0] is not None and c.path[0] == c.path[1]}
            for c in raw:
                changes.extend(_canon_change(c, fmt, modified))
            changes.sort(key=lambda r: ((r[0] or ""), (r[1] or ""), repr(r)))
    vset = {r[0] for r in view}
    extras = [r for r in _disk_listing(wt.basedir) if r[0] not in vset]
    return view, changes, extras


def _disk_listing(base):
    """every path on disk below the tree root except the control directory: [path, kind, bytes, exec]"""
    out = []
    for dp, dn, fn in os.walk(base):
        rel = os.path.relpath(dp, base)
        rel = "" if rel == "." else rel
        if rel == "":
            dn[:] = [d for d in dn if d not in (".bzr", ".git")]
        for n in dn:
            out.append([(rel + "/" if rel else "") + n, Tag("directory"), b"", False])
        for n in fn:
            p = os.path.join(dp, n)
            st = os.lstat(p)
            with open(p, "rb") as f:
                data = f.read()
            out.append([(rel + "/" if rel else "") + n, Tag("file"), data, bool(st.st_mode & 0o100)])
    out.sort(key=lambda r: r[0])
    return out


def _k(k):
    return None if k is None else Tag(k)


def _canon_change(c, fmt, modified=()):
    p0, p1 = c.path
    if p0 == "" or p1 == "":
        if p0 == p1 and not c.changed_content and c.versioned == (True, True):
            return []          # unchanged root never reported; a changed root is kept
    row = lambda a, b, cc, v, k, e: [a, b, bool(cc), bool(v[0]), bool(v[1]), _k(k[0]), _k(k[1]),
                                     None if e[0] is None else bool(e[0]), None if e[1] is None else bool(e[1])]
    if fmt == "git" and p0 is not None and p1 is not None and p0 != p1:
        # dulwich's similarity-based rename detection is presentation, not tree state: report a
        # detected rename as the removal + addition it was derived from (git identity = path)
        add = row(None, p1, True, (False, True), (None, c.kind[1]), (None, c.executable[1]))
        if getattr(c, "copied", False) or p0 in modified:
            return [add]       # the source is still there (reported separately when it changed)
        return [row(p0, None, True, (True, False), (c.kind[0], None), (c.executable[0], None)), add]
    return [row(p0, p1, c.changed_content, c.versioned, c.kind, c.executable)]


class _NotAFile(Exception):
    pass


def _apply(wt, base, op):
    kind = op[0]
    if kind == "add":
        wt.add([op[1]])
    elif kind == "mkdir":
        wt.mkdir(op[1])
    elif kind == "rmk":
        wt.remove([op[1]], keep_files=True)
    elif kind == "rmf":
        wt.remove([op[1]], keep_files=False, force=True)
    elif kind == "ren":
        wt.rename_one(op[1], op[2])
    elif kind == "mv":
        wt.move([op[1]], op[2])
    elif kind == "put":
        wt.put_file_bytes_non_atomic(op[1], CONTENTS[op[2]])
    elif kind == "chmod":
        p = os.path.join(base, op[1])
        if _kind_on_disk(p)[0] != "file":
            raise _NotAFile()          # driver-level guard: mode edits are only applied to regular files
        os.chmod(p, 0o755 if op[2] else 0o644)
    elif kind == "osrm":
        p = os.path.join(base, op[1])
        k, _ = _kind_on_disk(p)
        if k is None:
            raise FileNotFoundError(p)     # (ENOTDIR below a file is reported the same way)
        if k == "directory":
            shutil.rmtree(p)
        else:
            os.unlink(p)
    elif kind == "osmkdir":
        os.mkdir(os.path.join(base, op[1]))
    elif kind == "commit":
        wt.commit("c", allow_pointless=True)
    elif kind == "revert":
        wt.revert(backups=False)
    elif kind == "reopen":
        pass
    else:
        raise AssertionError(op)


def run_ops(fmt, ops, reopen_every=5, trace=None):
    from breezy.workingtree import WorkingTree
    base = _new_tree(fmt)
    out = []
    try:
        wt = WorkingTree.open(base)
        for i, op in enumerate(ops):
            try:
                _apply(wt, base, op)
                status = Tag("ok")
            except BaseException as e:   # pyo3 panics are BaseException
                if isinstance(e, (KeyboardInterrupt, SystemExit, AssertionError)) and op[0] not in (
                        "add", "mkdir", "rmk", "rmf", "ren", "mv", "put", "commit", "revert"):
                    raise
                status = Err(type(e).__name__.lstrip("_"))
                if trace is not None:
                    trace.append((i, op, repr(e)))
                if wt.is_locked():       # a failed op must not leave the tree locked
                    raise AssertionError("tree left locked by failing %r" % (op,))
            pre = None
            if op[0] == "reopen" or (i + 1) % reopen_every == 0:
                pre = _observe(wt, fmt)
                del wt
                wt = WorkingTree.open(base)
            view, changes, extras = _observe(wt, fmt)
            same = True if pre is None else (pre == (view, changes, extras))
            out.append([status, view, changes, extras, same])
        return out
    finally:
        shutil.rmtree(base, ignore_errors=True)
