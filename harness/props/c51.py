"""C51 -- Rebase plans replay exactly the branch's own revisions onto the new base (tie H).

Histories are Lib/Dag lists (harness/daglib.py), materialised in real 2a
repositories on a memory server; the same list goes to the Coq model
(coq/Model/Rebase.v, coq/Model/RebaseCodec.v).  Kinds of cases:

  env       vcsgraph's find_difference / find_lca == {null:} / heads / iter_topo_order
            on the real repository graph vs Lib/Dag (the model's environment assumptions)
  plan      generate_simple_plan with the real Graph of the real repository (and the order in which the
            real rebase() then replays the plan, recorded by a rewriter that writes nothing).
            via=cmd: todo_set = graph.find_difference(stop, onto)[0] exactly as cmd_rebase
            does; via=direct: any todo_set / start / stop (incl. the error branches).
            rebase_todo is run on every plan produced.
  todo      rebase_todo on replace maps whose new revisions partly exist already
  marshall  marshall_rebase_plan, then unmarshall_rebase_plan of the text
  unmarshall  unmarshall_rebase_plan on damaged plan files
  transpose   generate_transpose_plan (ancestry pairs of the real graph in a generator-chosen
              order, renames onto existing revisions, deterministic generate_revid)

topo_sort (compiled, vcsgraph) returns an order that depends on the dict order of
the parent map, which in turn depends on set/hash order: the generator picks the
dict order (a permutation, part of the input), computes topo_sort of that dict, and
the driver makes graph.get_parent_map return the dict in exactly that order (a
delegating proxy around the real Graph; nothing in /repo is patched).  The model
gets the resulting order as its [order] argument; the oracle checks that it is a
topological order (the hypothesis of the theorems).

regenerate_default_revid draws random ids: the driver renames the new id of old
revision r to NEW + r (NEW = 100) after checking that the new ids are pairwise
different and different from every old id.
"""
import itertools
import json

import daglib
from daglib import rid, idx
from vlib import Tag, Err, coq_bool, coq_list, coq_option, coq_bytes, coq_N

PROP = "C51"
COQ = {
    "property_file": "Properties/C51.v",
    # Lib.Bytes leaves N_scope open; graphs are written as plain nat literals
    "imports": "From BV Require Import Lib.Dag Model.Rebase Model.RebaseCodec Model.RebaseTranspose. Close Scope N_scope.",
}
META = {
    "level": "proof",
    "title": "Rebase plans replay exactly the branch's own revisions onto the new base",
    "technique": ("Coq theorems over a hand model of generate_simple_plan / rebase_todo (on the shared revision-graph "
                  "library Lib/Dag + Lib/DagTopo) and of marshall_rebase_plan / unmarshall_rebase_plan (on Lib/Bytes), "
                  "tied to breezy/plugins/rewrite/rebase.py by a correspondence run on real repositories"),
    "level_text": ("partial (P-core): for every well-formed revision graph (unbounded; merges, criss-cross, ghosts, several roots), "
                   "every topological order topo_sort may return and every injective id generator, the modelled plan's domain is "
                   "exactly the present revisions of ancestry(stop) minus ancestry(onto) (or the start..stop slice, minus merges dropped "
                   "by skip_full_merged), each new parent is onto, the new id of an earlier entry that rewrites an old parent (or a "
                   "parent of a dropped merge among them), or an old parent outside the replayed slice -- with and without "
                   "skip_full_merged since the repair be02b0d; rebase_todo (plan order) and every order rebase() may use since 7ede022 "
                   "(any topo_sort of old parents + new-parent links, shown to exist) put dependencies first; "
                   "the plan file round-trips for all ids without blank/newline.  "
                   "generate_transpose_plan is modelled and tied by correspondence, but only one small fact is proved about it."),
    "level_note": ("Trusted: Coq kernel, vm_compute, the hand models' correspondence (bounded sampling), vcsgraph (heads, find_lca, "
                   "find_difference, topo_sort) as modelled by Lib/Dag / Lib/DagTopo hypotheses (compared / checked on every run). "
                   "Only bzr 2a repositories; the replay itself (rebase(), revision rewriters) is outside the property."),
    "design_ref": "DESIGN.md §5 C51",
    "trusted_base": ["hand model coq/Model/Rebase.v, coq/Model/RebaseCodec.v, coq/Model/RebaseTranspose.v of breezy/plugins/rewrite/rebase.py",
                     "coq/Lib/Dag.v, coq/Lib/DagTopo.v as a model of vcsgraph (heads, find_difference, find_lca, topo_sort)",
                     "correspondence harness harness/props/c51.py, harness/daglib.py"],
    "assumptions": ["topo_sort / iter_topo_order return a duplicate-free list of the present keys in which no revision precedes one of "
                    "its parents (Lib/DagTopo.topo_order_of; checked by the oracle on every order used)",
                    "Graph.heads, find_difference, find_lca == {null:} behave like Lib/Dag heads, find_unique_ancestors, "
                    "Model/Rebase.lca_is_null (kind=env, compared on every run)",
                    "generate_revid never returns the old id, and is injective / fresh where a theorem says so "
                    "(regenerate_default_revid draws random ids; checked by the oracle)",
                    "onto is a non-null revision; revision ids in plan files contain no blank or newline (bzr rejects such ids); revno >= 0"],
    "rule": ("kind=plan cases that produce a plan with >= 2 entries are non-trivial; distinct = distinct (input, observation)"),
}
SHARD = 200
NEW = 100

_state = {}


def setup(scratch):
    import breezy
    import breezy.bzr  # noqa: F401
    from dromedary.memory import MemoryServer
    srv = MemoryServer()
    srv.start_server()
    _state.update(server=srv, url=srv.get_url(), n=0, cache={})


def teardown():
    srv = _state.pop("server", None)
    if srv is not None:
        srv.stop_server()
    _state.clear()


# ---- reference vocabulary ---------------------------------------------------------

def _present(g, xs):
    return [x for x in xs if x < len(g)]


def _topo_of(g, pm_order):
    """topo_sort (the real, compiled one) of the parent map of pm_order, built in that dict order."""
    from vcsgraph.tsort import topo_sort
    pm = {rid(r): (tuple(rid(p) for p in g[r]) or (b"null:",)) for r in pm_order}
    return [idx(x) for x in topo_sort(pm)]


def _is_topo(g, keys, order):
    """Lib/DagTopo.topo_order_of"""
    if len(set(order)) != len(order) or set(order) != set(_present(g, keys)):
        return False
    pos = {r: i for i, r in enumerate(order)}
    return all(pos[p] < pos[r] for r in order for p in g[r] if p in pos)


def _has_root(g, r):
    return any(a < len(g) and not g[a] for a in daglib.ancestors(g, [r]))


def _null_in_todo(g, tip, onto):
    """find_difference(tip, onto)[0] contains b"null:" (tip reaches a root, onto is ghost-rooted):
    generate_simple_plan then dies with IndexError on parent_map[b"null:"][0] -- outside the model
    (null: is not a node of Lib/Dag), reported in notes/C51.md."""
    return _has_root(g, tip) and not _has_root(g, onto)


def _branch_only(g, tip, onto):
    return sorted(daglib.ancestors(g, [tip]) - daglib.ancestors(g, [onto]))


# ---- case generation -----------------------------------------------------------------

def _plan_case(rng, g, via, todo, start, stop, onto, skip, same=None):
    pres = _present(g, sorted(set(todo)))
    pm_order = list(pres)
    rng.shuffle(pm_order)
    return {"kind": "plan", "via": via, "g": g, "todo": list(todo), "pm_order": pm_order,
            "order": _topo_of(g, pm_order), "start": start, "stop": stop, "onto": onto,
            "skip": bool(skip), "same": same}


def _cmd_cases(rng, g, pairs, starts_per_pair, skips=(False, True)):
    n = len(g)
    for tip, onto in pairs:
        todo = _branch_only(g, tip, onto)
        if not todo or _null_in_todo(g, tip, onto):
            continue       # cmd_rebase: "No revisions to rebase" (tip is in onto's ancestry)
        pres = _present(g, todo)
        starts = [None] + (rng.sample(pres, min(len(pres), starts_per_pair)) if starts_per_pair else [])
        for start in starts:
            for skip in skips:
                yield _plan_case(rng, g, "cmd", todo, start, tip, onto, skip)


def _direct_case(rng, g):
    n = len(g)
    ghosts = sorted({p for ps in g for p in ps if p >= n})
    pool = list(range(n)) + ghosts
    if rng.random() < 0.6:
        tip, onto = rng.randrange(n), rng.randrange(n)
        todo = _branch_only(g, tip, onto)
        if rng.random() < 0.4 and todo:
            todo = [x for x in todo if rng.random() < 0.8]
    else:
        todo = [x for x in pool if rng.random() < 0.5]
        onto = rng.randrange(n)
    rng.shuffle(todo)

    def pick():
        r = rng.random()
        if r < 0.35 or not todo:
            return None if r < 0.9 or not pool else rng.choice(pool)
        if r < 0.93:
            return rng.choice(todo)
        return rng.choice(pool)
    start, stop = pick(), pick()
    same = rng.choice(todo) if todo and rng.random() < 0.06 else None
    return _plan_case(rng, g, "direct", todo, start, stop, onto, rng.random() < 0.5, same)


FIXED = [
    # the graphs of rewrite/tests/test_rebase.py and variations: linear side branch, already
    # merged upstream, merge of a third branch, criss-cross, ghosts, two roots
    [[], [0], [1], [0], [3, 1], [4]],
    [[], [0], [1], [0], [3], [4]],
    [[], [0], [0], [1, 2], [2, 1], [3, 4], [4, 3], [5], [6, 7]],
    [[], [0], [1], [0], [2, 3], [3, 47], [48], [6, 4]],
    [[], [], [0, 1], [1], [2], [3, 0], [5, 4]],
    [[], [0], [0], [0], [1, 2, 3], [4], [3], [6, 5]],
    # octopus merge whose additional parents are not all heads (1 is in 2's ancestry)
    [[], [0], [1], [0], [0], [3, 2, 1], [5]],
]

# regression input of the fixed C51-skipped-merge-child (be02b0d) and C51-dropped-merge-replay-order
# (7ede022): F = child of a merge E that skip_full_merged drops
WITNESS = {"kind": "plan", "via": "cmd", "g": FIXED[0], "todo": [3, 4, 5], "pm_order": [3, 4, 5],
           "order": [3, 4, 5], "start": None, "stop": 5, "onto": 2, "skip": True, "same": None}

ID_POOL = [b"r1", b"r22", b"joe@example.com-20260922101530-abcdefgh01234567", b"svn-v4:uuid:trunk:12",
           b"git-v1:0123456789abcdef0123456789abcdef01234567", b"x", b"null:", b"A", b"\xc3\xa5ke@x-1"]
BAD_IDS = [b"", b"a b", b" lead", b"trail ", b"new\nline", b"\n", b" ", b"tab\tok", b"cr\rok"]


def _gen_id(rng):
    if rng.random() < 0.07:
        return rng.choice(BAD_IDS)
    base = rng.choice(ID_POOL)
    return base + (b"-%d" % rng.randrange(50) if rng.random() < 0.6 else b"")


def _marshall_case(rng, legal=False):
    k = rng.choice([0, 1, 1, 2, 3, 5])
    entries, seen = [], set()
    for _ in range(k):
        old = _gen_id(rng)
        while old in seen:
            old = old + b"'"
        seen.add(old)
        entries.append([old, _gen_id(rng), [_gen_id(rng) for _ in range(rng.choice([0, 1, 1, 1, 2, 3]))]])
    case = {"kind": "marshall", "revno": rng.choice([0, 1, 7, 10, 123, 4096, 99999]),
            "revid": _gen_id(rng), "entries": entries}
    if legal:
        def fix(b):
            b = b.replace(b" ", b"_").replace(b"\n", b"_")
            return b or b"e"
        case["revid"] = fix(case["revid"])
        seen = set()
        for e in entries:
            e[0], e[1], e[2] = fix(e[0]), fix(e[1]), [fix(p) for p in e[2]]
            while e[0] in seen:
                e[0] += b"'"
            seen.add(e[0])
    return case


def _text_of(case):
    out = b"# Bazaar rebase plan 1\n%d %s\n" % (case["revno"], case["revid"])
    for old, new, ps in case["entries"]:
        out += b" ".join([old, new] + list(ps)) + b"\n"
    return out


def _damage(rng, text):
    r = rng.random()
    if r < 0.3 and text:
        i = rng.randrange(len(text))
        return text[:i] + text[i + 1:]
    if r < 0.5:
        return text[:rng.randrange(len(text) + 1)]
    if r < 0.65 and text:
        i = rng.randrange(len(text))
        return text[:i] + rng.choice([b"x", b"\n", b" ", b"7"]) + text[i:]
    if r < 0.8:
        lines = text.split(b"\n")
        i = rng.randrange(len(lines))
        return b"\n".join(lines[:i] + [lines[i]] + lines[i:])
    if r < 0.9:
        return text.replace(b"plan 1", rng.choice([b"plan 2", b"plan 10", b"plan", b"Plan 1"]))
    return text + rng.choice([b"\n", b"\n\n", b"tail", b"a b c"])


def _transpose_case(rng, g):
    n = len(g)
    heads = rng.sample(range(n), rng.choice([1, 1, 2]))
    anc = sorted(daglib.ancestors(g, heads))
    rng.shuffle(anc)
    pres = [x for x in anc if x < n]
    inner = [x for x in pres if any(x in g[c] for c in pres)]      # revisions with a child in the ancestry
    pool = inner if inner and rng.random() < 0.8 else pres
    olds = rng.sample(pool, min(len(pool), rng.choice([1, 1, 2, 3])))
    renames = []
    for o in olds:
        r = rng.random()
        if r < 0.85:
            new = rng.choice([x for x in range(n) if x != o] or [o])
        elif r < 0.93:
            new = rng.choice(anc)           # maybe a ghost, maybe o itself
        else:
            new = n + daglib.GHOST_BASE + 30   # unknown revision: KeyError
        renames.append([o, new])
    if rng.random() < 0.05:
        renames.append([rng.choice([x for x in range(n) if x not in anc] or [0]), rng.randrange(n)])
    seen = set()
    renames = [rn for rn in renames if not (rn[0] in seen or seen.add(rn[0]))]
    return {"kind": "transpose", "g": g, "anc_order": anc, "renames": renames}


def corpus():
    out = [dict(WITNESS), dict(WITNESS, skip=False)]
    import random
    rng = random.Random(51)
    for g in FIXED:
        n = len(g)
        pairs = [(t, o) for t in range(n) for o in range(n) if t != o]
        out.extend(_cmd_cases(rng, g, pairs, 1))
    out.append({"kind": "marshall", "revno": 3, "revid": b"tip-1",
                "entries": [[b"old1", b"new1", [b"base"]], [b"old2", b"new2", [b"new1", b"other"]]]})
    out.append({"kind": "marshall", "revno": 0, "revid": b"null:", "entries": []})
    out.append({"kind": "unmarshall", "text": b""})
    out.append({"kind": "unmarshall", "text": b"# Bazaar rebase plan 1"})
    out.append({"kind": "unmarshall", "text": b"# Bazaar rebase plan 1\n12\n"})
    out.append({"kind": "unmarshall", "text": b"# Bazaar rebase plan 1\nx y\n"})
    out.append({"kind": "unmarshall", "text": b"# Bazaar rebase plan 1\n1 t\nsingle\n"})
    out.append({"kind": "unmarshall", "text": b"# Bazaar rebase plan 1\n1 t\na b\n\na c d\n"})
    return out


def cases(rng, tier):
    quick = tier == "quick"
    ndag, maxn, ndirect, ntodo, nmar = (26, 10, 10, 3, 250) if quick else (190, 12, 24, 6, 2000)
    dags = []
    # every (onto, tip, start, skip) choice on small graphs
    nsmall = 4 if quick else 30
    for _ in range(nsmall):
        g = daglib.gen_dag(rng, rng.randint(3, 6), p_merge=0.5)
        dags.append(g)
        n = len(g)
        yield from _cmd_cases(rng, g, [(t, o) for t in range(n) for o in range(n)], n)
    for _ in range(ndag):
        g = daglib.gen_dag(rng, rng.randint(4, maxn), p_merge=rng.choice([0.3, 0.5, 0.7]))
        dags.append(g)
        n = len(g)
        pairs = [(t, o) for t in range(n) for o in range(n) if t != o]
        rng.shuffle(pairs)
        yield from _cmd_cases(rng, g, pairs[:(8 if quick else 24)], 2)
    for g in dags + FIXED:
        n = len(g)
        ghosts = sorted({p for ps in g for p in ps if p >= n})
        for _ in range(3):
            keys = [rng.choice(list(range(n)) + ghosts) for _ in range(rng.randint(1, 5))]
            yield {"kind": "env", "g": g, "a": rng.randrange(n), "b": rng.randrange(n), "keys": keys}
        for _ in range(ndirect):
            yield _direct_case(rng, g)
        for _ in range(ntodo):
            olds = rng.sample(range(n), rng.randint(0, n))
            m = []
            for o in olds:
                new = rng.randrange(n) if rng.random() < 0.4 else NEW + o
                ps = [rng.choice(list(range(n)) + [NEW + x for x in olds]) for _ in range(rng.randint(1, 3))]
                m.append([o, new, ps])
            yield {"kind": "todo", "g": g, "m": m}
        for _ in range(ntodo * 2):
            yield _transpose_case(rng, g)
    for i in range(nmar):
        c = _marshall_case(rng, legal=(i % 3 != 0))
        yield c
        if i % 2 == 0:
            yield {"kind": "unmarshall", "text": _damage(rng, _text_of(c))}


# ---- implementation driver ---------------------------------------------------------

def _source(g):
    from breezy.transport import get_transport
    key = json.dumps(g)
    if key not in _state["cache"]:
        if len(_state["cache"]) > 4:
            root = get_transport(_state["url"])
            for old in _state["cache"].values():
                root.delete_tree(old.base[len(_state["url"]):].strip("/"))
            _state["cache"].clear()
        _state["n"] += 1
        t = get_transport(_state["url"] + "src%d" % _state["n"])
        t.ensure_base()
        _state["cache"][key] = daglib.build_history(g, t, with_file=False)
    return _state["cache"][key]


class _GraphProxy:
    """The real Graph of the real repository; only the dict order of the parent map that
    generate_simple_plan asks for is fixed (to the order the generator chose)."""

    def __init__(self, real, pm_order):
        self._real = real
        self._pm_order = [rid(r) for r in pm_order]

    def get_parent_map(self, keys):
        pm = self._real.get_parent_map(keys)
        if set(pm) != set(self._pm_order):
            raise RuntimeError("parent map keys %r, the generator expected %r" % (sorted(pm), self._pm_order))
        return {k: pm[k] for k in self._pm_order}

    def __getattr__(self, name):
        return getattr(self._real, name)


PLAN_ERRORS = ("AssertionError", "IndexError", "ValueError", "UnrelatedBranches")


def _canon_plan(replace_map):
    """[[old, new, [parents]]] in dict order with the new ids renamed to NEW + old; None if the
    renaming is not well defined (new ids collide with each other or with an old id)."""
    ren = {}
    for old, (new, ps) in replace_map.items():
        if new in ren or new.startswith(b"r") or new == b"null:":
            return None
        ren[new] = NEW + idx(old)
    c = lambda x: ren[x] if x in ren else idx(x)
    return [[idx(old), c(new), [c(p) for p in ps]] for old, (new, ps) in replace_map.items()]


def impl(inp):
    import breezy.bzr  # noqa: F401
    from breezy.plugins.rewrite import rebase as R
    kind = inp["kind"]
    if kind == "marshall":
        m = {bytes(o): (bytes(n), tuple(bytes(p) for p in ps)) for o, n, ps in inp["entries"]}
        text = R.marshall_rebase_plan((inp["revno"], bytes(inp["revid"])), m)
        return [text, _unmarshall(R, text)]
    if kind == "unmarshall":
        return _unmarshall(R, bytes(inp["text"]))
    g = inp["g"]
    src = _source(g)
    src.lock_read()
    try:
        repo = src.repository
        gr = repo.get_graph()
        if kind == "env":
            from vcsgraph.graph import FrozenHeadsCache
            a, b = rid(inp["a"]), rid(inp["b"])
            left, right = gr.find_difference(a, b)
            topo = [idx(x) for x in gr.iter_topo_order([rid(k) for k in inp["keys"]])]
            # null: is in a difference exactly when only that side reaches a root
            return [sorted(idx(x) for x in left if x != b"null:"), sorted(idx(x) for x in right if x != b"null:"),
                    [b"null:" in left, b"null:" in right],
                    gr.find_lca(a, b) == {b"null:"},
                    sorted(idx(x) for x in gr.heads([rid(k) for k in inp["keys"]])),
                    FrozenHeadsCache(gr).heads((a, b)) == {b},
                    topo]
        if kind == "todo":
            m = {rid(o): (rid(n), tuple(rid(p) for p in ps)) for o, n, ps in inp["m"]}
            return [idx(x) for x in R.rebase_todo(repo, m)]
        if kind == "transpose":
            order = [rid(x) for x in inp["anc_order"]]
            pm = gr.get_parent_map(order)
            ancestry = [(r, pm.get(r)) for r in order]          # None for a ghost, like iter_ancestry
            renames = {rid(o): rid(n) for o, n in inp["renames"]}
            try:
                plan = R.generate_transpose_plan(iter(ancestry), renames, gr,
                                                 lambda revid, ps: rid(NEW + idx(revid)))
            except (KeyError, ValueError) as e:
                return Err(type(e).__name__)
            return {idx(o): [idx(nw), [idx(p) for p in ps if p != b"null:"]] for o, (nw, ps) in plan.items()}
        # kind == "plan"
        onto = rid(inp["onto"])
        start = None if inp["start"] is None else rid(inp["start"])
        stop = None if inp["stop"] is None else rid(inp["stop"])
        same = None if inp["same"] is None else rid(inp["same"])
        if inp["via"] == "cmd":
            # cmd_rebase.run: our_new, onto_unique = repo_graph.find_difference(stop_revid, onto)
            todo_set = gr.find_difference(stop, onto)[0]
        else:
            todo_set = [rid(x) for x in inp["todo"]]

        def generate_revid(revid, ps):
            if revid == same:
                return revid
            # cmd_rebase.run: lambda revid, ps: regenerate_default_revid(wt.branch.repository, revid)
            return R.regenerate_default_revid(repo, revid)

        try:
            plan = R.generate_simple_plan(todo_set, start, stop, onto, _GraphProxy(gr, inp["pm_order"]),
                                          generate_revid, inp["skip"])
        except Exception as e:
            if type(e).__name__ not in PLAN_ERRORS:
                raise
            res = [Err(type(e).__name__), None, None]
        else:
            canon = _canon_plan(plan)
            if canon is None:
                res = [Tag("new-ids-not-fresh"), None, None]
            else:
                # the order in which the real rebase() replays the plan (recording rewriter, nothing is written)
                calls = []
                R.rebase(repo, plan, lambda oldrevid, newrevid, newparents: calls.append(oldrevid))
                res = [canon, [idx(x) for x in R.rebase_todo(repo, plan)], [idx(x) for x in calls]]
        if inp["via"] == "cmd":
            return [sorted(idx(x) for x in todo_set), res]
        return res
    finally:
        src.unlock()


def _unmarshall(R, text):
    from breezy.errors import UnknownFormatError
    try:
        info, m = R.unmarshall_rebase_plan(text)
    except UnknownFormatError:
        return Err("UnknownFormatError")
    except (IndexError, ValueError) as e:
        return Err(type(e).__name__)
    return [[info[0], info[1]], [[k, v[0], list(v[1])] for k, v in m.items()]]


def impl_obs(inp, obs):
    if inp["kind"] == "env" and isinstance(obs, list):
        return obs[:6]            # iter_topo_order's order is not modelled (checked by the oracle)
    if inp["kind"] == "plan" and isinstance(obs, list):
        # the order in which rebase() would replay is an environment value (checked by the oracle)
        return [obs[0], obs[1][:2]] if inp["via"] == "cmd" else obs[:2]
    return obs


# ---- model term ----------------------------------------------------------------------

def _nl(xs):
    return "[" + "; ".join(str(x) for x in xs) + "]"


def _nopt(x):
    return "None" if x is None else f"(Some {x})"


def model_term(inp):
    kind = inp["kind"]
    if kind == "marshall":
        ents = coq_list([f"({coq_bytes(o)}, ({coq_bytes(n)}, {coq_list(ps, coq_bytes)}))" for o, n, ps in inp["entries"]])
        return f"run_marshall {coq_N(inp['revno'])} {coq_bytes(inp['revid'])} {ents}"
    if kind == "unmarshall":
        return f"run_unmarshall {coq_bytes(inp['text'])}"
    g = daglib.coq_dag(inp["g"])
    if kind == "env":
        return f"run_env {g} {inp['a']} {inp['b']} {_nl(inp['keys'])}"
    if kind == "todo":
        m = coq_list([f"({o}, ({n}, {_nl(ps)}))" for o, n, ps in inp["m"]])
        return f"run_todo {g} {m}"
    if kind == "transpose":
        gg = inp["g"]
        anc = coq_list([f"({x}, {'Some ' + _nl(gg[x]) if x < len(gg) else 'None'})" for x in inp["anc_order"]])
        ren = coq_list([f"({o}, {n})" for o, n in inp["renames"]])
        return f"run_transpose {g} {anc} {ren} None"
    tail = f"{inp['onto']} {coq_bool(inp['skip'])} {_nopt(inp['same'])}"
    if inp["via"] == "cmd":
        return f"run_plan_cmd {g} {_nl(inp['order'])} {_nopt(inp['start'])} {inp['stop']} {tail}"
    return f"run_plan {g} {_nl(inp['todo'])} {_nl(inp['order'])} {_nopt(inp['start'])} {_nopt(inp['stop'])} {tail}"


# ---- the property itself, on the implementation's observation -----------------------------

def _todo_slice(inp):
    """The revisions generate_simple_plan is asked to replay: order[start..stop]."""
    order = inp["order"]
    if not order:
        return []
    stop = inp["stop"] if inp["stop"] is not None else order[-1]
    start = inp["start"] if inp["start"] is not None else order[0]
    if start not in order or stop not in order:
        return []
    return order[order.index(start):order.index(stop) + 1]


def _legal_id(b):
    return b" " not in b and b"\n" not in b


def _plan_violation(inp, plan):
    """(message, offending old revision, offending parent) or None"""
    g, onto, skip = inp["g"], inp["onto"], inp["skip"]
    todo = _todo_slice(inp)
    keys = [e[0] for e in plan]
    # domain: exactly the replayed slice (skip_full_merged may drop merges only), in that order
    if not skip and keys != todo:
        return ("the plan rewrites %r, but the revisions to replay are %r" % (keys, todo), None, None)
    if skip:
        it = iter(todo)
        if not all(k in it for k in keys):
            return ("the plan's keys %r are not a subsequence of the revisions to replay %r" % (keys, todo), None, None)
        for r in todo:
            if r not in keys and len(g[r]) < 2:
                return ("revision %d is not a merge but is missing from the plan" % r, None, None)
    if inp["via"] == "cmd" and inp["start"] is None and not skip:
        want = _present(g, _branch_only(g, inp["stop"], onto))
        if sorted(keys) != want:
            return ("the plan rewrites %r; the branch's own revisions (ancestry of %d minus ancestry of %d) are %r"
                    % (sorted(keys), inp["stop"], onto, want), None, None)
    news = [e[1] for e in plan]
    if len(set(news)) != len(news):
        return ("two revisions are rewritten to the same new id", None, None)
    dropped = set(todo) - set(keys)
    earlier = {}
    for old, new, ps in plan:
        if not ps:
            return ("revision %d is rewritten without parents" % old, old, None)
        for p in ps:
            ok = (p == onto
                  or (p in earlier and _linked(g, dropped, earlier[p], old))
                  or (p in g[old] and p not in todo))
            if not ok:
                return ("new parent %d of rewritten revision %d is neither the new base %d, nor the new id of an earlier "
                        "entry that rewrites one of its parents (or a parent of a dropped merge among them), nor an old parent "
                        "outside the replayed revisions" % (p, old, onto), old, p)
        earlier[new] = old
    return None


def _linked(g, dropped, o, r):
    """Theory/Rebase.linked: o is a parent of r, or of a dropped merge that is (linked as) a parent of r."""
    return o in g[r] or any(q in dropped and _linked(g, dropped, o, q) for q in g[r] if q < len(g))


def _replay_violation(g, plan, replay):
    """rebase() replays in `replay` order: (message, old, the entry it needs) when an entry comes before one it depends on"""
    if sorted(replay) != sorted(e[0] for e in plan):
        return ("rebase() replays %r, which is not a permutation of the plan's keys" % (replay,), None, None)
    pos = {r: i for i, r in enumerate(replay)}
    by_new = {e[1]: e[0] for e in plan}
    for old, new, ps in plan:
        for q in g[old]:
            if q in pos and pos[q] > pos[old]:
                return ("rebase() would replay %d before its old parent %d (replay order %r)" % (old, q, replay), old, q)
        for p in ps:
            if p in by_new and pos[by_new[p]] > pos[old]:
                return ("rebase() would replay %d before %d, whose rewritten revision %d is one of its new parents (replay order %r)"
                        % (old, by_new[p], p, replay), old, by_new[p])
    return None


def oracle(inp, obs):
    if isinstance(obs, Err) and str(obs).startswith("DRIVER:"):
        return "driver error " + str(obs)
    kind = inp["kind"]
    if kind == "env":
        g = inp["g"]
        return None if _is_topo(g, inp["keys"], obs[6]) else \
            "iter_topo_order(%r) = %r is not a topological order of the present keys" % (inp["keys"], obs[6])
    if kind == "todo":
        g = inp["g"]
        want = [o for o, n, ps in inp["m"] if not n < len(g)]
        return None if obs == want else "rebase_todo gave %r; the entries whose new revision is missing are %r" % (obs, want)
    if kind == "marshall":
        ids = [inp["revid"]] + [x for o, n, ps in inp["entries"] for x in [o, n] + list(ps)]
        if not all(_legal_id(bytes(i)) for i in ids):
            return None
        want = [[inp["revno"], bytes(inp["revid"])], [[bytes(o), bytes(n), [bytes(p) for p in ps]] for o, n, ps in inp["entries"]]]
        return None if obs[1] == want else "plan file does not round-trip: wrote %r, read back %r" % (want, obs[1])
    if kind == "unmarshall":
        return None
    if kind == "transpose":
        if isinstance(obs, Err):
            return None
        g = inp["g"]
        ren = {o: n for o, n in inp["renames"]}
        anc = set(inp["anc_order"])
        for old, (new, ps) in obs.items():
            if old in ren:
                return "renamed revision %d is rewritten by the transpose plan" % old
            if not any(daglib.is_ancestor(g, o, old) for o in ren):
                return "revision %d is rewritten although it descends from no renamed revision" % old
            for p in ps:
                ok = p in g[old] or any(ren.get(q) == p or (q in obs and obs[q][0] == p) for q in g[old])
                if not ok:
                    return "new parent %d of %d is neither an old parent nor the replacement of one" % (p, old)
        return None
    # plan
    g = inp["g"]
    pres_todo = _present(g, inp["todo"])
    if not _is_topo(g, inp["todo"], inp["order"]):
        return "topo_sort returned %r, which is not a topological order of %r" % (inp["order"], sorted(pres_todo))
    res = obs
    if inp["via"] == "cmd":
        if obs[0] != sorted(inp["todo"]):
            return "find_difference(%d, %d)[0] = %r, reference %r" % (inp["stop"], inp["onto"], obs[0], sorted(inp["todo"]))
        res = obs[1]
    plan, todo_after, replay = res
    if isinstance(plan, Tag):
        return "the generated revision ids are not fresh / not pairwise different"
    if isinstance(plan, Err):
        if inp["via"] == "cmd" and inp["same"] is None:
            # cmd_rebase: stop is the tip whose difference was taken; the only legitimate failures:
            name = str(plan)
            if name == "UnrelatedBranches" and inp["start"] is None and \
                    not (daglib.ancestors(g, [inp["stop"]]) & daglib.ancestors(g, [inp["onto"]])):
                return None
            if name == "ValueError" and inp["stop"] >= len(g):
                return None
            return "planning failed with %s although %d and %d are related" % (name, inp["stop"], inp["onto"])
        return None
    v = _plan_violation(inp, plan)
    if v:
        return v[0]
    if todo_after != [e[0] for e in plan]:
        return "rebase_todo on a fresh plan gave %r, plan order is %r" % (todo_after, [e[0] for e in plan])
    v = _replay_violation(g, plan, replay)
    if v:
        return v[0]
    return None


def finding_matches(fid, inp, obs, why):
    # C51-skipped-merge-child (be02b0d) and C51-dropped-merge-replay-order (7ede022) are fixed: nothing is excused
    return False


def nontrivial(inp, obs):
    if inp["kind"] != "plan" or isinstance(obs, Err):
        return False
    res = obs[1] if inp["via"] == "cmd" else obs
    return isinstance(res[0], list) and len(res[0]) >= 2


def distribution(inputs, observations):
    d = {"env": 0, "plan": 0, "todo": 0, "marshall": 0, "unmarshall": 0, "transpose": 0, "cmd": 0, "direct": 0, "skip": 0,
         "with_start": 0, "plans_with_merge": 0, "graphs_with_ghosts": 0, "outcome": {}, "plan_len": {}, "graph_size": {}}
    for i, o in zip(inputs, observations):
        d[i["kind"]] += 1
        if i["kind"] != "plan" or isinstance(o, Err):
            continue
        g = i["g"]
        d[i["via"]] += 1
        d["skip"] += i["skip"]
        d["with_start"] += i["start"] is not None
        d["graphs_with_ghosts"] += any(p >= len(g) for ps in g for p in ps)
        res = o[1] if i["via"] == "cmd" else o
        out = "ok" if isinstance(res[0], list) else str(res[0])
        d["outcome"][out] = d["outcome"].get(out, 0) + 1
        if isinstance(res[0], list):
            k = str(len(res[0]))
            d["plan_len"][k] = d["plan_len"].get(k, 0) + 1
            d["plans_with_merge"] += any(len(e[2]) > 1 for e in res[0])
        k = str(len(g))
        d["graph_size"][k] = d["graph_size"].get(k, 0) + 1
    return d
