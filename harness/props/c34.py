"""C34 -- importing then exporting a git commit reproduces it byte for byte (tie H).

Real code: BzrGitMappingv1.import_commit / export_commit (strict=True, lossy=True, the values
breezy itself uses for the registered default mapping), fix_person_identifier,
revision_id_foreign_to_bzr; commits are real dulwich.objects.Commit objects and are compared
through Commit.as_raw_string().
"""
import codecs
import hashlib
import re

from vlib import Tag, Err, coq_bytes, coq_list, coq_Z, coq_bool, coq_option

PROP = "C34"
COQ = {
    "property_file": "Properties/C34.v",
    "imports": "From BV Require Import Lib.Bytes Model.GitCommit.",
}
META = {
    "level": "proof",
    "title": "Importing then exporting a git commit reproduces it byte for byte",
    "technique": ("Coq theorems over a hand model of mapping.py import_commit/export_commit/fix_person_identifier "
                  "and of dulwich's Commit record + canonical serialisation; grammar-driven correspondence on real "
                  "dulwich Commit objects (vm_compute) + byte-exact round-trip oracle"),
    "level_text": ("export(import c) = c (field by field, hence identical serialisation and SHA-1) proved for every commit "
                   "satisfying an executable, field-local guard (UTF-8/Latin-1 or no encoding header, person identifiers "
                   "already in 'name <email>' form, recognised HG extras whose values contain no newline; a missing message and "
                   "'encoding false' are covered since the repairs bd50aba/5f2eb02/e6f8bec); "
                   "machine-checked refutations for each class of commit that import accepts but that still does not round-trip "
                   "(rewritten identifiers, several authors, a newline inside an HG extra value); "
                   "revision id is a function of the SHA alone and invertible. Partial: codecs other than UTF-8/Latin-1 are "
                   "covered by the correspondence run and the oracle only."),
    "level_note": ("Trusted: Coq kernel, vm_compute, the hand model (tied by the correspondence run), dulwich's Commit/Tag "
                   "parser and serialiser as modelled, Python's codecs (UTF-8 strict validity, Latin-1, surrogateescape being "
                   "byte-preserving), int(str(n)) == n. SHA-1 is not modelled: equal bytes imply equal SHA."),
    "design_ref": "DESIGN.md §5 C34",
    "trusted_base": ["hand model coq/Model/GitCommit.v of breezy/git/mapping.py (BzrGitMappingv1, strict, lossy)",
                     "model of dulwich Commit._serialize/format_timezone/_format_message in the same file",
                     "correspondence harness harness/props/c34.py"],
    "assumptions": ["a Python str is represented by its utf-8/surrogateescape encoding (PEP 383: decode/encode with "
                    "surrogateescape is the identity on bytes)",
                    "int(str(n)) == n and int('%d' % n) == n for Python ints",
                    "Tag.from_string(t.as_raw_string()).as_raw_string() == t.as_raw_string() (dulwich keeps the raw text)",
                    "codec classification of an encoding name (utf-8 / latin-1 / other / unknown) is Python's codecs.lookup",
                    "mapping = BzrGitMappingv1 (default), strict=True, lossy=True (mapping.roundtripping is False); "
                    "parent lookup = object_store._lookup_revision_sha1 with an empty id map"],
    "rule": ("commits from a grammar over all modelled fields (encodings, identifiers incl. malformed ones, timezones incl. "
             "-0000/+0545/-0330/double negative, gpgsig, mergetags, HG extras, unknown extras, message variants incl. missing, "
             "UTF-8 boundary byte strings) + exhaustive small strings for fix_person_identifier and the git-extra line split; "
             "non-trivial = import accepted the commit and at least one optional feature is present"),
}
SHARD = 120

HEX = b"0123456789abcdef"
ZERO = b"0" * 40
KNOWN_HG = [b"amend_source", b"rebase_source", b"absorb_source", b"intermediate-source", b"source", b"topic",
            b"_rewrite_noise"]

BASE = {
    "kind": "commit",
    "tree": b"cc9462f7f8263ef5adfbeff2fb936bb36b504cba",
    "parents": [],
    "author": b"Author <author@example.com>", "author_time": 5, "author_tz": 7200, "author_neg": False,
    "committer": b"Committer <c@example.com>", "commit_time": 4, "commit_tz": -10800, "commit_neg": False,
    "encoding": None, "mergetag": [], "extra": [], "gpgsig": None, "message": b"Some message\n",
}


def mk(**kw):
    d = dict(BASE)
    d.update(kw)
    return d


def _tag(name=b"v1", msg=b"tagmsg\n", obj=b"a" * 40):
    return b"object " + obj + b"\ntype commit\ntag " + name + b"\ntagger T <t@x> 1 +0000\n\n" + msg


# ---------------------------------------------------------------- generator
IDENTS_GOOD = [b"Author <author@example.com>", b"Joe Smith <joe@x>", b"J\xc3\xb6rg <j@x>", b"J\xf6rg <j@x>",
               b"A  <a>", b"A > <a>", b"A, B <b>", b"A <a,b>", b" <a>", b"A <>", b"\xe2\x82\xac <e@x>",
               b"A\xed\xa0\x80 <s@x>", b"A\r <a>"]
IDENTS_ODD = [b"A<a>", b"<a>", b"A <a> <b>", b"A <a>>", b"A <<a>", b"A <a>, B <b>", b"A>, B <b>", b"Joe", b"Joe>",
              b"", b"A <a> junk", b"A <a", b"A > b"]
ENC_POOL = [b"utf-8", b"UTF-8", b"utf8", b"latin1", b"iso-8859-1", b"ISO-8859-1", b"latin-1", b"L1",
            b"iso-8859-15", b"cp1252", b"koi8-r", b"ascii", b"us-ascii", b"cp437"]
ENC_BAD = [b"false", b"", b"foo", b"\xff", b"bogus-8"]
ENC_MB = [b"shift_jis", b"euc-jp", b"gb18030", b"big5"]
TZS = [0, 3600, -3600, 19800, 20700, -12600, 50400, -43200, 60, -60, 7200, -10800, 360000]
U8B = [0x41, 0x7f, 0x80, 0xbf, 0xc0, 0xc1, 0xc2, 0xdf, 0xe0, 0xa0, 0x9f, 0xed, 0xee, 0xef, 0xf0, 0x90, 0x8f, 0xf4,
       0xf5, 0xff]
MSGS = [b"", b"x", b"x\n", b"x\n\n", b"\nx", b"subject\n\nbody line\n", b"caf\xc3\xa9\n", b"caf\xe9\n",
        b"\xe2\x82\xac", b"\xf0\x9f\x98\x80 ok", b"a\r\nb\r\n", b"a\x00b", b"hello\n--BZR--\nrevision-id: foo\n",
        b"\xed\xa0\x80", b"\xc0\x80", b"\xf4\x90\x80\x80", b"\xe2\x82", b"tail \xc3"]
SIGS = [b"-----BEGIN PGP SIGNATURE-----\n\niQEz\n=abcd\n-----END PGP SIGNATURE-----", b"sig", b"\xff\xfe", b"a\n\nb",
        b"-----BEGIN SSH SIGNATURE-----\nU1NI\n-----END SSH SIGNATURE-----\n"]
BRK = [b"\r", b"\n", b"\x0b", b"\x0c", b"\x1c", b"\x1d", b"\x1e", b"\xc2\x85", b"\xe2\x80\xa8", b"\xe2\x80\xa9", b"\r\n"]
NOBRK = [b"\xc2\x84", b"\xc2", b"\x85", b"\xe2\x80\xa7", b"\xe2\x80", b"\xe2\xa8", b"\x1f", b"\x09", b"\xff", b" ", b":"]


def _sha(rng):
    return bytes(rng.choice(HEX) for _ in range(40))


def _rbytes(rng, alphabet, lo, hi):
    return bytes(rng.choice(alphabet) for _ in range(rng.randint(lo, hi)))


def _gen_extra(rng, odd):
    out = []
    for _ in range(rng.randint(1, 3)):
        r = rng.random()
        if r < 0.35:
            k, v = b"HG:rename-source", rng.choice([b"hg", b"", b" a ", b"dir/f\xc3\xa9", b"x\xff"])
        elif r < 0.85 or not odd:
            k = b"HG:extra"
            v = rng.choice(KNOWN_HG) + b":" + rng.choice([b"abc", b"", b"a:b", b"r\xc3\xa9sum\xc3\xa9", b"\xff\xfe", b"a b"])
        elif r < 0.92:
            k, v = b"HG:extra", rng.choice([b"foo:1", b"topic", b":x", b"Topic:x"])
        else:
            k, v = rng.choice([b"foo", b"HG:rename", b"hg:extra", b"change-id"]), b"1"
        if odd and rng.random() < 0.5 and k.startswith(b"HG:") and b":" in v:
            v = v + rng.choice(BRK) + rng.choice([b"", b"z"])
        elif rng.random() < 0.3:
            v = v + rng.choice(NOBRK) + rng.choice([b"", b"z"])
        out.append([k, v])
    return out


def _gen_commit(rng, odd_rate):
    """odd_rate: probability with which each 'known to break the round trip' feature is switched on."""
    d = dict(BASE)
    d["tree"] = _sha(rng)
    n = rng.choice([0, 1, 1, 2, 3]) if rng.random() < 0.7 else 0
    d["parents"] = [_sha(rng) if rng.random() < 0.9 else ZERO for _ in range(n)]
    if rng.random() < odd_rate * 0.2:
        d["parents"] = d["parents"] + [b"abc"]
    odd_id = rng.random() < odd_rate
    d["committer"] = rng.choice(IDENTS_ODD if odd_id and rng.random() < 0.5 else IDENTS_GOOD)
    if rng.random() < 0.35:
        d["author"] = d["committer"]
    else:
        d["author"] = rng.choice(IDENTS_ODD if odd_id else IDENTS_GOOD)
    d["commit_time"] = rng.choice([0, 4, 1234567890, -5, 2 ** 40, rng.randint(0, 2 ** 31)])
    d["author_time"] = d["commit_time"] if rng.random() < 0.5 else rng.choice([0, 5, 1234567891, -7, rng.randint(0, 2 ** 31)])
    d["commit_tz"] = rng.choice(TZS)
    d["author_tz"] = d["commit_tz"] if rng.random() < 0.5 else rng.choice(TZS)
    d["commit_neg"] = rng.random() < (0.5 if d["commit_tz"] == 0 else 0.15)
    d["author_neg"] = rng.random() < (0.5 if d["author_tz"] == 0 else 0.15)
    if rng.random() < 0.02:
        d["commit_tz"] = 61
    r = rng.random()
    if r < 0.45:
        d["encoding"] = None
    elif r < 0.45 + 0.4:
        d["encoding"] = rng.choice(ENC_POOL)
    elif r < 0.93:
        d["encoding"] = rng.choice(ENC_MB)
    else:
        d["encoding"] = rng.choice(ENC_BAD) if rng.random() < max(odd_rate, 0.3) else None
    r = rng.random()
    if r < odd_rate * 0.4:
        d["message"] = None
    elif r < 0.7:
        d["message"] = rng.choice(MSGS)
    else:
        d["message"] = _rbytes(rng, U8B + [0x0a, 0x20, 0x61], 0, 8)
    if rng.random() < 0.3:
        d["gpgsig"] = rng.choice(SIGS + [b""])
    if rng.random() < 0.25:
        d["mergetag"] = [_tag(rng.choice([b"v1", b"rel-\xc3\xa9"]), rng.choice([b"tagmsg\n", b"m\xff\n", b"a\n\nb\n", b"\n"]),
                              _sha(rng)) for _ in range(rng.randint(1, 2))]
    if rng.random() < 0.3:
        d["extra"] = _gen_extra(rng, rng.random() < odd_rate)
    return d


def corpus():
    T = _tag()
    out = [
        mk(),
        # [1], [2], [5]: witnesses of the findings repaired by bd50aba / 5f2eb02 / e6f8bec -- must PASS now;
        # [3], [4], [6]-[8]: witnesses of the still-known C34-ident-rewritten
        mk(message=None),
        mk(encoding=b"false"),
        mk(author=b"A<a>"),
        mk(author=b"A <a>, B <b>"),
        mk(extra=[[b"HG:extra", b"source:a\rb"]]),
        mk(committer=b"Joe>", author=b"Joe>"),
        mk(author=b""),
        mk(committer=b"<a>"),
        # accepted and round-tripping combinations
        mk(encoding=b"iso-8859-1", message=b"\xe9t\xe9", author=b"J\xf6rg <j@x>"),
        mk(message=b"\xe9t\xe9"),
        mk(author=b"\xe9 <a>"),
        mk(encoding=b"UTF-8", message=b"\xc3\xa9"),
        mk(encoding=b"utf-8", message=b"\xff"),
        mk(encoding=b"foo"), mk(encoding=b""), mk(encoding=b"\xff"),
        mk(gpgsig=SIGS[0]), mk(gpgsig=b""), mk(gpgsig=b"\xff\xfe"),
        mk(commit_tz=0, author_tz=0, commit_neg=True), mk(commit_tz=0, author_tz=0, author_neg=True),
        mk(commit_tz=25200, author_tz=25200, commit_neg=True, author_neg=True),
        mk(commit_tz=-12600), mk(commit_tz=20700), mk(commit_tz=61), mk(commit_tz=-1800, author_tz=1800, author_neg=True),
        mk(message=b""), mk(message=b"a\n\n"), mk(message=b"hello\n--BZR--\nrevision-id: foo\n"),
        mk(parents=[b"a" * 40, b"b" * 40]), mk(parents=[ZERO]), mk(parents=[b"abc"]),
        mk(commit_time=-5, author_time=-5), mk(author=BASE["committer"], author_time=4, author_tz=-10800),
        mk(mergetag=[T, _tag(b"x", b"m\xff\n", b"b" * 40)]),
        mk(extra=[[b"HG:rename-source", b"hg"]]), mk(extra=[[b"HG:extra", b"source:abc"], [b"HG:rename-source", b""]]),
        mk(extra=[[b"HG:extra", b"topic:a\xffb"]]), mk(extra=[[b"HG:extra", b"topic:a\nb"]]),
        mk(extra=[[b"HG:extra", b"topic:a\xc2\x85b"]]), mk(extra=[[b"HG:extra", b"topic:a\xe2\x80\xa8"]]),
        mk(extra=[[b"HG:extra", b"topic"]]), mk(extra=[[b"HG:extra", b"foo:1"]]), mk(extra=[[b"foo", b"1"]]),
        mk(extra=[[b"foo", b"1"], [b"HG:extra", b"foo:1"]]),
        mk(extra=[[b"HG:extra", b"source:abc"]], mergetag=[T], gpgsig=b"sig\nsig2", encoding=b"latin1", message=b"\xe9"),
        mk(encoding=b"iso-8859-15", message=b"\xa4"), mk(encoding=b"shift_jis", message=b"\x83\x65"),
    ]
    for t in (b"A <a>", b"A<a>", b"Joe", b"Joe>", b"<a>", b"A <a> <b>", b"A > <a>", b"", b"A <a", b"> <"):
        out.append({"kind": "fix", "t": t})
    for m, revid, props in ((b"msg", None, []), (b"msg\n--BZR--\nrevision-id: foo\n", None, []), (b"a\n--BZR--", b"rev-1", [[b"k", b"v"]]),
                            (b"", b"r", []), (b"x\n--BZR--\nproperty-a: b\n\n--BZR--\nrevision-id: y\n", None, [])):
        out.append({"kind": "meta", "m": m, "revid": revid, "props": props})
    for t in (b"a\r\nb", b"a\n", b"", b"a\xc2\x85b", b"a\xe2\x80\xa8b\xe2\x80\xa9", b"\n\n", b"a\r", b"\xe2\x80", b"\xc2"):
        out.append({"kind": "lines", "t": t})
    return out


def cases(rng, tier):
    import itertools
    quick = tier == "quick"
    # exhaustive small domains for the two helper functions
    fp_alpha = [0x3c, 0x3e, 0x20, 0x61, 0x2c]
    for n in range(0, (5 if quick else 6)):
        for t in itertools.product(fp_alpha, repeat=n):
            if quick and n == 4 and rng.random() < 0.5:
                continue
            yield {"kind": "fix", "t": bytes(t)}
    sl_alpha = [0x0a, 0x0d, 0x0b, 0x1c, 0xc2, 0x85, 0xe2, 0x80, 0xa8, 0xa9, 0x61]
    for n in range(0, (3 if quick else 4)):
        for t in itertools.product(sl_alpha, repeat=n):
            yield {"kind": "lines", "t": bytes(t)}
    for _ in range(150 if quick else 3000):
        yield {"kind": "lines", "t": _rbytes(rng, sl_alpha + [0x0c, 0x1d, 0x1e, 0xff, 0x20], 3, 9)}
    # roundtrip.py: extract_bzr_metadata / inject_bzr_metadata
    mk_alpha = [b"\n", b"--BZR--", b"-", b"BZR", b"a", b"\n--BZR--\n", b" "]
    for _ in range(100 if quick else 2000):
        head = b"".join(rng.choice(mk_alpha) for _ in range(rng.randint(0, 5)))
        r = rng.random()
        if r < 0.4:
            tail = b"\n--BZR--\n" + b"".join(rng.choice([b"revision-id: r%d\n" % rng.randint(0, 9), b"property-k: v\n",
                                                           b"parent-ids: p q\n", b"testament3-sha1: abc\n"])
                                             for _ in range(rng.randint(0, 3)))
        else:
            tail = b""
        yield {"kind": "meta", "m": head + tail, "revid": rng.choice([None, b"rev-%d" % rng.randint(0, 99)]),
               "props": [[b"p%d" % i, rng.choice([b"v", b"x y", b""])] for i in range(rng.randint(0, 2))]}
    # UTF-8 validity boundary: the message decides between utf-8 / latin1 fallback / UnicodeDecodeError
    for _ in range(200 if quick else 2000):
        m = _rbytes(rng, U8B, 1, 5)
        yield mk(message=m, encoding=rng.choice([None, None, b"utf-8", b"false"]))
    for _ in range(40 if quick else 500):
        a = b"N" + _rbytes(rng, U8B, 1, 4) + b" <e@x>"
        yield mk(author=a, committer=rng.choice([a, BASE["committer"]]), encoding=rng.choice([None, b"utf-8", b"latin1"]))
    # mostly round-tripping commits
    for _ in range(320 if quick else 3000):
        yield _gen_commit(rng, 0.0)
    # commits with the features that break the round trip switched on
    for _ in range(260 if quick else 2500):
        yield _gen_commit(rng, 0.35)


# ---------------------------------------------------------------- implementation driver
_PROP_KEYS = ["git-explicit-encoding", "git-implicit-encoding", "author", "author-timestamp", "author-timezone",
              "author-timezone-neg-utc", "commit-timezone-neg-utc", "git-gpg-signature", None, "git-extra",
              "git-missing-message"]
_INT = re.compile(r"-?(0|[1-9][0-9]*)\Z")


def build_commit(d):
    from dulwich.objects import Commit, Tag as GitTag
    c = Commit()
    c.tree = bytes(d["tree"])
    c.parents = [bytes(p) for p in d["parents"]]
    c.author = bytes(d["author"])
    c.author_time = d["author_time"]
    c.author_timezone = d["author_tz"]
    c._author_timezone_neg_utc = bool(d["author_neg"])
    c.committer = bytes(d["committer"])
    c.commit_time = d["commit_time"]
    c.commit_timezone = d["commit_tz"]
    c._commit_timezone_neg_utc = bool(d["commit_neg"])
    if d["encoding"] is not None:
        c.encoding = bytes(d["encoding"])
    c.mergetag = [GitTag.from_string(bytes(t)) for t in d["mergetag"]]
    c._extra = [(bytes(k), bytes(v)) for k, v in d["extra"]]
    if d["gpgsig"] is not None:
        c.gpgsig = bytes(d["gpgsig"])
    c.message = None if d["message"] is None else bytes(d["message"])
    return c


def _parent_lookup(revid):
    # object_store._lookup_revision_sha1 with an empty id map
    from breezy.revision import NULL_REVISION
    from breezy.git.mapping import mapping_registry
    from dulwich.protocol import ZERO_SHA
    if revid == NULL_REVISION:
        return ZERO_SHA
    return mapping_registry.parse_revision_id(revid)[0]


def _canon_props(props):
    props = dict(props)
    out = []
    for k in _PROP_KEYS:
        if k is None:
            tags, i = [], 0
            while "git-mergetag-%d" % i in props:
                tags.append(props.pop("git-mergetag-%d" % i))
                i += 1
            out.append(tags)
        elif k in ("author-timezone-neg-utc", "commit-timezone-neg-utc", "git-missing-message"):
            out.append(k in props)
            props.pop(k, None)
        elif k in ("author-timestamp", "author-timezone"):
            v = props.pop(k, None)
            out.append(int(v) if isinstance(v, str) and _INT.match(v) else v)
        else:
            out.append(props.pop(k, None))
    if props:
        out.append(sorted(props))      # unexpected keys: the model never predicts this element
    return out


_EXC = (ValueError, LookupError, AssertionError, AttributeError, TypeError, IndexError, KeyError)


def impl(inp):
    import breezy
    import breezy.bzr  # noqa
    import breezy.git  # noqa
    from breezy import errors
    from breezy.git.mapping import BzrGitMappingv1, fix_person_identifier
    if inp["kind"] == "fix":
        try:
            return fix_person_identifier(bytes(inp["t"]))
        except ValueError:
            return Err("ValueError")
    if inp["kind"] == "lines":
        return [s.encode("utf-8", "surrogateescape")
                for s in bytes(inp["t"]).decode("utf-8", "surrogateescape").removesuffix("\n").split("\n")]
    if inp["kind"] == "meta":
        return _impl_meta(inp)
    m = BzrGitMappingv1()
    c = build_commit(inp)
    try:
        raw0 = c.as_raw_string()
    except ValueError:
        raw0 = Err("ValueError")
    info = {}
    try:
        rev, roundtrip_revid, verifiers = m.import_commit(c, m.revision_id_foreign_to_bzr, strict=True)
    except errors.BzrError as e:
        return [raw0, Err(type(e).__name__), None, info]
    except _EXC as e:
        return [raw0, Err(type(e).__name__), None, info]
    iobs = [rev.committer, rev.timestamp, rev.timezone, rev.message, list(rev.parent_ids), _canon_props(rev.properties)]
    info["revid"] = rev.revision_id
    info["roundtrip_revid"] = roundtrip_revid
    info["verifiers"] = len(verifiers)
    # stability: importing the same bytes again (through dulwich's parser when it reproduces the fields)
    try:
        from dulwich.objects import Commit
        c1 = Commit.from_string(raw0)
        rev1 = m.import_commit(c1, m.revision_id_foreign_to_bzr, strict=True)[0]
        info["revid_reparsed"] = rev1.revision_id
    except Exception as e:      # not parse-stable / not importable: recorded, judged by the oracle
        info["revid_reparsed"] = Err(type(e).__name__)
    try:
        c2 = m.export_commit(rev, c.tree, _parent_lookup, True, {})
        raw2 = c2.as_raw_string()
        info["id_equal"] = (c2.id == c.id)
    except errors.BzrError as e:
        raw2 = Err(type(e).__name__)
    except _EXC as e:
        raw2 = Err(type(e).__name__)
    return [raw0, iobs, raw2, info]


def _supp_canon(md):
    if md is None:
        return None
    return [md.revision_id, None if md.explicit_parent_ids is None else list(md.explicit_parent_ids),
            sorted([k, v] for k, v in md.properties.items()), sorted([k, v] for k, v in md.verifiers.items())]


def _impl_meta(inp):
    from breezy.git.roundtrip import CommitSupplement, extract_bzr_metadata, inject_bzr_metadata
    msg = bytes(inp["m"])
    try:
        head, md = extract_bzr_metadata(msg)
    except ValueError:
        return Err("ValueError")
    empty = CommitSupplement()
    supp = CommitSupplement()
    supp.revision_id = None if inp["revid"] is None else bytes(inp["revid"])
    supp.properties = {bytes(k): bytes(v) for k, v in inp["props"]}
    injected = inject_bzr_metadata(msg, supp, "utf-8")
    try:
        back = extract_bzr_metadata(injected)
        back = [back[0], _supp_canon(back[1])]
    except ValueError:
        back = Err("ValueError")
    return [head, md is not None,
            {"md": _supp_canon(md), "inject_empty": inject_bzr_metadata(msg, empty, "utf-8"),
             "inject_none": inject_bzr_metadata(msg, None, "utf-8"), "injected": injected, "back": back,
             "supp": _supp_canon(supp)}]


def impl_obs(inp, obs):
    if inp["kind"] == "meta" and not isinstance(obs, Err):
        return obs[:2]
    if isinstance(obs, Err) or inp["kind"] != "commit":
        return obs
    raw0, iobs, raw2, _info = obs
    if codec_class(inp) == "COther":
        # a codec the model does not cover (C34 is partial there): the oracle still judges the real round trip
        return [raw0, Tag("unmodelled"), None]
    return [raw0, iobs, raw2]


# ---------------------------------------------------------------- model term
def codec_class(inp):
    e = inp["encoding"]
    if e is None:
        return "CUnknown"
    try:
        name = bytes(e).decode("ascii")
        ci = codecs.lookup(name)
    except (UnicodeDecodeError, LookupError, ValueError):
        return "CUnknown"
    if ci.name == "utf-8":
        return "CUtf8"
    if ci.name == "iso8859-1":
        return "CLatin1"
    return "COther"


def coq_commit(d):
    ob = lambda v: coq_option(None if v is None else bytes(v), coq_bytes)  # noqa: E731
    return ("{| c_tree := %s; c_parents := %s; c_author := %s; c_author_time := %s; c_author_tz := %s; "
            "c_author_neg := %s; c_committer := %s; c_commit_time := %s; c_commit_tz := %s; c_commit_neg := %s; "
            "c_encoding := %s; c_mergetag := %s; c_extra := %s; c_gpgsig := %s; c_message := %s |}") % (
        coq_bytes(bytes(d["tree"])), coq_list([coq_bytes(bytes(p)) for p in d["parents"]]),
        coq_bytes(bytes(d["author"])), coq_Z(d["author_time"]), coq_Z(d["author_tz"]), coq_bool(d["author_neg"]),
        coq_bytes(bytes(d["committer"])), coq_Z(d["commit_time"]), coq_Z(d["commit_tz"]), coq_bool(d["commit_neg"]),
        ob(d["encoding"]), coq_list([coq_bytes(bytes(t)) for t in d["mergetag"]]),
        coq_list(["(%s, %s)" % (coq_bytes(bytes(k)), coq_bytes(bytes(v))) for k, v in d["extra"]]),
        ob(d["gpgsig"]), ob(d["message"]))


def model_term(inp):
    if inp["kind"] == "fix":
        return "run_fix_person " + coq_bytes(bytes(inp["t"]))
    if inp["kind"] == "lines":
        return "run_extra_lines " + coq_bytes(bytes(inp["t"]))
    if inp["kind"] == "meta":
        return "run_meta " + coq_bytes(bytes(inp["m"]))
    e = inp["encoding"]
    return "run_case (env1 %s %s) %s" % (coq_bytes(b"" if e is None else bytes(e)), codec_class(inp), coq_commit(inp))


# ---------------------------------------------------------------- oracle
def _ident_form(t):
    """The identifiers fix_person_identifier leaves alone: '<anything without "<"> <email>'."""
    return re.fullmatch(rb"[^<]* <[^<>]*>", t, re.S) is not None


def _author_cut(t):
    return b"," in t and t.count(b">") > 1


def well_formed(inp):
    """What dulwich's Commit.check()/serialiser require and import_commit does not look at."""
    return all(len(p) == 40 for p in inp["parents"]) and inp["author_tz"] % 60 == 0 and inp["commit_tz"] % 60 == 0


def oracle(inp, obs):
    if inp["kind"] in ("fix", "lines"):
        return None                       # helper functions: correspondence only
    if inp["kind"] == "meta":
        return _oracle_meta(inp, obs)
    if isinstance(obs, Err):
        return "driver error " + str(obs)
    raw0, iobs, raw2, info = obs
    if isinstance(raw0, Err) or isinstance(iobs, Err) or not well_formed(inp):
        return None                       # not a serialisable commit / not accepted by the mapping
    sha = hashlib.sha1(b"commit %d\0" % len(raw0) + raw0).hexdigest().encode("ascii")
    if info["revid"] != b"git-v1:" + sha:
        return f"revision id {info['revid']!r} is not git-v1:<sha of the commit> ({sha!r})"
    if info["roundtrip_revid"] is not None or info["verifiers"]:
        return "a git-native commit produced round-trip metadata"
    rr = info["revid_reparsed"]
    if not isinstance(rr, Err) and rr != info["revid"]:
        return f"revision id not stable: {info['revid']!r} vs {rr!r} after re-parsing the same bytes"
    if isinstance(raw2, Err):
        return f"accepted commit cannot be exported again: export_commit raises {raw2}"
    if raw2 != raw0:
        return f"accepted commit does not round-trip: {raw0!r} -> {raw2!r}"
    if not info.get("id_equal"):
        return "same bytes but different id"
    return None


MARK = b"\n--BZR--\n"


def _oracle_meta(inp, obs):
    """roundtrip.py is transparent for git-native messages and inverts its own injection."""
    if isinstance(obs, Err):
        return None                       # an unparsable metadata block (not generated on purpose)
    msg = bytes(inp["m"])
    head, has_md, x = obs
    if MARK not in msg and (head != msg or has_md):
        return f"extract_bzr_metadata changed a message without marker: {msg!r} -> {head!r}, metadata {has_md}"
    if x["inject_empty"] != msg or x["inject_none"] != msg:
        return f"inject_bzr_metadata with an empty supplement changed the message {msg!r}"
    supp = x["supp"]
    nonempty = bool(supp[0] or supp[2])
    if not nonempty:
        if x["injected"] != msg:
            return "inject_bzr_metadata added an empty metadata block"
        return None
    # the marker must not already occur in (or straddle the end of) the message
    if MARK in msg + MARK[:-1]:
        return None
    if isinstance(x["back"], Err) or x["back"][0] != msg or x["back"][1] != supp:
        return f"extract(inject({msg!r}, {supp!r})) = {x['back']!r}"
    return None


def _lossy_codec(inp):
    e = inp["encoding"]
    if codec_class(inp) != "COther":
        return False
    name = bytes(e).decode("ascii")
    for f in ("committer", "author", "message"):
        b = inp[f]
        if b is None:
            continue
        try:
            if bytes(b).decode(name).encode(name) != bytes(b):
                return True
        except UnicodeError:
            return True
    return False


def finding_matches(fid, inp, obs, why):
    if inp.get("kind") != "commit":
        return False
    if fid == "C34-ident-rewritten":
        a, c = bytes(inp["author"]), bytes(inp["committer"])
        return not _ident_form(a) or not _ident_form(c) or _author_cut(a)
    if fid == "C34-extra-linebreak":
        # residue after e6f8bec: only a "\n" inside a header value (multi-line header) still breaks
        return any(b"\n" in bytes(v) for _k, v in inp["extra"])
    if fid == "C34-codec-not-byte-preserving":
        return _lossy_codec(inp)
    return False


def nontrivial(inp, obs):
    if inp["kind"] == "meta":
        return MARK in bytes(inp["m"]) or bool(inp["revid"] or inp["props"])
    if inp["kind"] != "commit":
        return len(inp["t"]) > 0
    if isinstance(obs, Err) or isinstance(obs[1], Err):
        return False
    return bool(inp["encoding"] or inp["gpgsig"] or inp["mergetag"] or inp["extra"] or inp["parents"]
                or inp["author"] != inp["committer"] or inp["author_neg"] or inp["commit_neg"])


def distribution(inputs, observations):
    d = {"fix": 0, "lines": 0, "meta": 0, "commit": 0, "not_serialisable": 0, "import_rejected": {}, "accepted": 0,
         "roundtrip_ok": 0, "roundtrip_failed": 0, "codec": {}, "with_gpgsig": 0, "with_mergetag": 0, "with_extra": 0,
         "neg_utc": 0, "author_ne_committer": 0, "missing_message": 0, "implicit_latin1": 0}
    for i, o in zip(inputs, observations):
        d[i["kind"]] += 1
        if i["kind"] != "commit" or isinstance(o, Err):
            continue
        raw0, iobs, raw2, info = o
        cc = codec_class(i) if i["encoding"] is not None else "none"
        d["codec"][cc] = d["codec"].get(cc, 0) + 1
        if isinstance(raw0, Err):
            d["not_serialisable"] += 1
            continue
        if isinstance(iobs, Err):
            d["import_rejected"][str(iobs)] = d["import_rejected"].get(str(iobs), 0) + 1
            continue
        d["accepted"] += 1
        d["roundtrip_ok" if raw2 == raw0 else "roundtrip_failed"] += 1
        d["with_gpgsig"] += bool(i["gpgsig"])
        d["with_mergetag"] += bool(i["mergetag"])
        d["with_extra"] += bool(i["extra"])
        d["neg_utc"] += bool(i["author_neg"] or i["commit_neg"])
        d["author_ne_committer"] += i["author"] != i["committer"]
        d["missing_message"] += i["message"] is None
        d["implicit_latin1"] += iobs[5][1] is not None
    return d


def shrink(inp, fails):
    if inp.get("kind") != "commit":
        return inp
    cur = dict(inp)
    for k in ("parents", "mergetag", "extra", "gpgsig", "encoding", "author_neg", "commit_neg", "author_tz", "commit_tz",
              "author_time", "commit_time", "tree", "message", "author", "committer"):
        if cur[k] == BASE[k]:
            continue
        cand = dict(cur)
        cand[k] = BASE[k]
        try:
            if fails(cand):
                cur = cand
        except Exception:
            pass
    return cur
